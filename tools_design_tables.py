#!/usr/bin/env python3
"""Regenerate the tables of DESIGN.md §10 (findings) and §11 (seeded changes) between their markers."""
import glob, json, os, re
ROOT = os.path.dirname(os.path.abspath(__file__))
d = json.load(open(os.path.join(ROOT, "known_findings.json")))["findings"]


def esc(s):
    return str(s).replace("|", "\\|").replace("\n", " ")


rows = ["| prop | class (oracle key) | status | commit | what fails |", "|---|---|---|---|---|"]
for f in sorted(d, key=lambda f: (f["property"], f["status"], f["class"])):
    what = esc(f.get("what", ""))
    if len(what) > 330:
        what = what[:327] + "…"
    rows.append(f"| {f['property']} | `{esc(f['class'])}` | {f['status']} | {esc(f.get('commit') or '—')} | {what} |")
findings = "\n".join(rows)

rows = ["| seeded change | property | needs, to manifest | outcome |", "|---|---|---|---|"]
for m in sorted(glob.glob(os.path.join(ROOT, "seeded/*/meta.json"))):
    j = json.load(open(m))
    name = os.path.basename(os.path.dirname(m))
    rows.append(f"| {name} | {j['property']} | {esc(j.get('needs_to_manifest',''))} | {esc(j.get('outcome',''))} |")
seeded = "\n".join(rows)

p = os.path.join(ROOT, "DESIGN.md")
s = open(p).read()
s = re.sub(r"(<!-- FINDINGS-BEGIN -->\n).*?(<!-- FINDINGS-END -->)", lambda m: m.group(1) + findings + "\n" + m.group(2), s, flags=re.S)
s = re.sub(r"(<!-- SEEDED-BEGIN -->\n).*?(<!-- SEEDED-END -->)", lambda m: m.group(1) + seeded + "\n" + m.group(2), s, flags=re.S)
open(p, "w").write(s)
print(f"findings: {len(d)}  seeded: {len(rows)-2}")
