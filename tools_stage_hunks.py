#!/usr/bin/env python3
"""usage: tools_stage_hunks.py <repo-relative-file> <regex>
Stages (git apply --cached) only those hunks of the working-tree diff of <file> whose text matches <regex>."""
import re, subprocess, sys
f, rx = sys.argv[1], re.compile(sys.argv[2])
d = subprocess.check_output(["git", "-C", "/repo", "diff", "-U3", "--", f]).decode()
head, *hunks = re.split(r"(?m)^(?=@@ )", d)
sel = [h for h in hunks if rx.search(h)]
if not sel:
    sys.exit("no hunk matches")
p = head + "".join(sel)
r = subprocess.run(["git", "-C", "/repo", "apply", "--cached", "--recount", "-"], input=p.encode())
print(f"staged {len(sel)} of {len(hunks)} hunks of {f}")
sys.exit(r.returncode)
