//! Property oracles of C07 / C08 / C09 / C12 evaluated directly on the implementation's
//! outputs (independent of the Lean model), and the per-property case loops.

use crate::common::{Rng, Run};
use crate::embed_common::*;

/// Oracle classes that belong to each property; a driver reports only its own classes.
pub fn classes(prop: &str) -> &'static [&'static str] {
    match prop {
        "C07" => &[
            "panic",
            "write-error",
            "remove-error",
            "read-after-write",
            "store-count",
            "remove-not-clean",
            "remove-noop-riff",
            "remove-not-accepted",
            "container-inconsistent",
        ],
        "C08" => &[
            "panic",
            "loc-error",
            "loc-missing-cai",
            "loc-outside-file",
            "loc-overlap",
            "loc-cai-not-store",
            "replace-nonlocal",
            "replace-size-changed",
            "replace-loc-moved",
            "patch-nonlocal",
            "patch-read",
        ],
        "C09" => &[
            "panic",
            "media-changed",
            "media-changed-gif87a-version",
            "remove-write-neq-remove",
            "remove-write-neq-remove-gif87a",
            "remove-write-neq-remove-tiff-appendonly",
            "remove-write-neq-remove-svg-xmlns",
            "remove-write-neq-remove-id3-retagged",
            "media-changed-id3-text-reencoded",
            "offset-broken",
            "offset-broken-data-before-box",
            "offset-broken-iloc",
            "offset-underflow",
        ],
        "C12" => &[
            "panic",
            "boxmap-error",
            "boxmap-unordered",
            "boxmap-overlap",
            "boxmap-rst-inside-sos",
            "boxmap-outside",
            "boxmap-gap",
            "boxmap-trailing-png",
            "boxmap-trailing-jpeg",
            "boxmap-trailing-gif",
            "boxmap-short-app11",
            "boxmap-c2pa-mismatch",
            "loc-outside-file",
            "loc-overlap",
        ],
        _ => &[],
    }
}

pub struct Ctx<'a> {
    pub run: &'a mut Run,
    pub prop: &'static str,
    pub idx: usize,
    /// multi-page TIFF whose (pre-existing) C2PA tag sits in the first IFD (legacy layout)
    pub tiff_legacy: bool,
}

impl Ctx<'_> {
    pub fn fail(&mut self, class: &str, detail: String) {
        let refined;
        let class = if self.tiff_legacy && ["remove-not-clean", "store-count", "loc-error", "loc-missing-cai", "remove-not-accepted", "loc-cai-not-store", "replace-loc-moved", "replace-nonlocal"].contains(&class) {
            refined = format!("{class}-tiff-legacy-first-ifd");
            refined.as_str()
        } else {
            class
        };
        let base = class.strip_suffix("-tiff-legacy-first-ifd").unwrap_or(class);
        if classes(self.prop).contains(&base) || classes(self.prop).contains(&class) {
            self.run.fail(self.idx, class, detail);
        }
    }
}

/// ID3 text frames (`T***`): (encoding byte, text) decoded to UTF-8, so that a frame the
/// id3 crate re-encodes (Latin-1 -> UTF-8) can be told apart from a changed text.
fn id3_text(bytes: &[u8]) -> Option<String> {
    let (enc, rest) = bytes.split_first()?;
    match enc {
        0 => Some(rest.iter().map(|b| *b as char).collect::<String>().trim_end_matches('\0').to_string()),
        3 => Some(String::from_utf8_lossy(rest).trim_end_matches('\0').to_string()),
        _ => None,
    }
}

/// Compare media views; returns (class, detail) when they differ.
fn media_diff(fam: Family, a: &[Item], b: &[Item]) -> Option<(&'static str, String)> {
    let (ma, mb) = (media(fam, a), media(fam, b));
    if ma == mb {
        return None;
    }
    if matches!(fam, Family::Mp3 | Family::Flac) && ma.len() == mb.len() {
        let same_meaning = ma.iter().zip(mb.iter()).all(|(x, y)| x == y || (x.0 == y.0 && x.0.starts_with('T') && id3_text(&x.1).is_some() && id3_text(&x.1) == id3_text(&y.1)));
        if same_meaning {
            return Some(("media-changed-id3-text-reencoded", first_diff(&ma, &mb)));
        }
    }
    Some(("media-changed", first_diff(&ma, &mb)))
}

fn short(b: &[u8]) -> String {
    if b.len() <= 24 {
        hex::encode(b)
    } else {
        format!("{}…({} bytes)", hex::encode(&b[..24]), b.len())
    }
}

fn first_diff(a: &[(String, Vec<u8>)], b: &[(String, Vec<u8>)]) -> String {
    for (i, (x, y)) in a.iter().zip(b.iter()).enumerate() {
        if x != y {
            return format!("item {i}: {}:{} vs {}:{}", x.0, short(&x.1), y.0, short(&y.1));
        }
    }
    format!("item count {} vs {}", a.len(), b.len())
}

/// Object-location well-formedness for an asset that contains a manifest (C08, C12).
pub fn check_locations(cx: &mut Ctx, asset: &Asset, bytes: &[u8], what: &str, store: Option<&[u8]>) -> Option<(usize, usize)> {
    if asset.family == Family::Sidecar || asset.family == Family::Bmff {
        // no data-hash regions are reported for these (empty list by design)
        return None;
    }
    let locs = match op_locations(asset.fmt, bytes) {
        Ok(v) => v,
        Err(e) => {
            cx.fail(if is_panic(&e) { "panic" } else { "loc-error" }, format!("{what}: object locations fail on an asset with a manifest: {e}"));
            return None;
        }
    };
    let cai: Vec<_> = locs.iter().filter(|l| l.2 == 0).collect();
    if cai.len() != 1 {
        cx.fail("loc-missing-cai", format!("{what}: {} Cai regions reported: {}", cai.len(), loc_str(&locs)));
        return None;
    }
    let (off, len, _) = *cai[0];
    if off + len > bytes.len() {
        cx.fail("loc-outside-file", format!("{what}: Cai region {off}+{len} exceeds file length {}", bytes.len()));
    }
    for (o, n, k) in &locs {
        if *k == 0 {
            continue;
        }
        if o + n > bytes.len() {
            cx.fail("loc-outside-file", format!("{what}: region {o}+{n} exceeds file length {}", bytes.len()));
        }
        if *n > 0 && *o < off + len && off < o + n {
            cx.fail("loc-overlap", format!("{what}: region {o}+{n} overlaps the Cai region {off}+{len}"));
        }
    }
    // the Cai region is exactly the span of the manifest items found by the independent lexer
    if let Some(items) = lex(asset.family, bytes) {
        let ms: Vec<&Item> = items.iter().filter(|i| i.manifest).collect();
        if let (Some(f), Some(l)) = (ms.first(), ms.last()) {
            let (ms_start, ms_end) = match asset.family {
                // RIFF items carry the chunk payload; the region includes the 8-byte header
                Family::Riff => (f.start, l.start + 8 + l.bytes.len()),
                // ID3 items carry the frame payload; the frame header is 10 bytes
                Family::Mp3 | Family::Flac => (f.start, l.start + 10 + l.bytes.len()),
                _ => (f.start, l.start + l.bytes.len()),
            };
            match asset.family {
                // the region is the store payload inside the container (tag value, GEOB data,
                // base64 text of the element)
                Family::Tiff | Family::Mp3 | Family::Flac | Family::Svg => {
                    if off < ms_start || off + len > ms_end {
                        cx.fail("loc-cai-not-store", format!("{what}: Cai region {off}+{len} is not inside the manifest container {ms_start}..{ms_end}"));
                    } else if let Some(st) = store {
                        let region = &bytes[off..(off + len).min(bytes.len())];
                        let want: Vec<u8> = if asset.family == Family::Svg { crate::embed_lex3::b64(st).into_bytes() } else { st.to_vec() };
                        if region != want.as_slice() {
                            cx.fail("loc-cai-not-store", format!("{what}: Cai region {off}+{len} does not hold the embedded store ({} bytes expected)", want.len()));
                        }
                    }
                }
                _ => {
                    if off != ms_start || off + len != ms_end {
                        cx.fail("loc-cai-not-store", format!("{what}: Cai region {off}+{len} but the embedded manifest container occupies {ms_start}..{ms_end}"));
                    }
                }
            }
        }
        let gap: usize = {
            let mut cov = vec![false; bytes.len()];
            for (o, n, _) in &locs {
                for c in cov.iter_mut().skip(*o).take(*n) {
                    *c = true;
                }
            }
            cov.iter().filter(|c| !**c).count()
        };
        if gap > 0 {
            cx.run.count(&format!("note_locations_leave_{}_bytes_unreported_{}", gap.min(9), asset.fmt));
        }
    }
    Some((off, len))
}

/// Box-map well-formedness (C12).
pub fn check_box_map(cx: &mut Ctx, asset: &Asset, bytes: &[u8], what: &str) {
    let bm = match op_box_map(asset.fmt, bytes) {
        None => return,
        Some(Ok(v)) => v,
        Some(Err(e)) => {
            cx.fail(if is_panic(&e) { "panic" } else { "boxmap-error" }, format!("{what}: get_box_map fails: {e}"));
            return;
        }
    };
    let n = bytes.len() as u64;
    let mut prev_end = 0u64;
    let mut cov = vec![0u8; bytes.len()]; // 1 = ordinary box, 2 = C2PA box
    for (i, b) in bm.iter().enumerate() {
        if b.start < prev_end {
            if i > 0 && b.start < bm[i - 1].start {
                cx.fail("boxmap-unordered", format!("{what}: box {} '{}' starts at {} before its predecessor", i, b.name, b.start));
            } else {
                let class = if asset.family == Family::Jpeg && b.name.starts_with("RST") { "boxmap-rst-inside-sos" } else { "boxmap-overlap" };
                cx.fail(class, format!("{what}: box {} '{}' {}+{} overlaps the previous box ending at {}", i, b.name, b.start, b.len, prev_end));
            }
        }
        if b.start + b.len > n {
            cx.fail("boxmap-outside", format!("{what}: box {} '{}' {}+{} exceeds file length {}", i, b.name, b.start, b.len, n));
            continue;
        }
        for c in cov.iter_mut().skip(b.start as usize).take(b.len as usize) {
            *c = if b.name == "C2PA" { 2 } else { 1 };
        }
        prev_end = prev_end.max(b.start + b.len);
    }
    let items = lex(asset.family, bytes);
    // coverage: every byte is in a box; manifest bytes exactly in the C2PA box
    let mut is_manifest = vec![false; bytes.len()];
    let mut trailing_from = bytes.len();
    if let Some(items) = &items {
        for it in items {
            if it.manifest {
                for m in is_manifest.iter_mut().skip(it.start).take(it.bytes.len()) {
                    *m = true;
                }
            }
            if it.tag == "trailing" {
                trailing_from = it.start;
            }
        }
    }
    // "covers every byte of the file except the manifest container"
    let uncovered: Vec<usize> = (0..bytes.len()).filter(|i| cov[*i] == 0 && !is_manifest[*i]).collect();
    if let (Some(f), Some(l)) = (uncovered.first(), uncovered.last()) {
        let all_trailing = *f >= trailing_from;
        let class = if all_trailing {
            match asset.family {
                Family::Png => "boxmap-trailing-png",
                Family::Jpeg => "boxmap-trailing-jpeg",
                Family::Gif => "boxmap-trailing-gif",
                _ => "boxmap-gap",
            }
        } else if asset.family == Family::Jpeg && asset.desc.contains("app11short") {
            "boxmap-short-app11"
        } else {
            "boxmap-gap"
        };
        cx.fail(class, format!("{what}: {} bytes ({}..={}) of the {}-byte file are in no box{}", uncovered.len(), f, l, n, if all_trailing { " (data after the end marker)" } else { "" }));
    }
    if items.is_some() {
        let bad = (0..bytes.len()).find(|i| (cov[*i] == 2) != is_manifest[*i] && cov[*i] != 0);
        if let Some(i) = bad {
            cx.fail("boxmap-c2pa-mismatch", format!("{what}: byte {i} is {} the manifest container but {} the C2PA box", if is_manifest[i] { "in" } else { "outside" }, if cov[i] == 2 { "inside" } else { "outside" }));
        }
    }
}

/// Format-level consistency of an output the handler produced (C07 "still accepted").
fn check_container(cx: &mut Ctx, asset: &Asset, bytes: &[u8], what: &str) {
    match asset.family {
        Family::Riff => {
            if bytes.len() >= 8 {
                let n = u32::from_le_bytes([bytes[4], bytes[5], bytes[6], bytes[7]]) as usize;
                if 8 + n > bytes.len() {
                    cx.fail("container-inconsistent", format!("{what}: RIFF size field {n} exceeds the file ({} bytes)", bytes.len()));
                }
            }
            if lex(asset.family, bytes).is_none() {
                cx.fail("container-inconsistent", format!("{what}: output is not a well-formed RIFF chunk sequence"));
            }
        }
        Family::Sidecar => {}
        _ => {
            if lex(asset.family, bytes).is_none() && crate::embed_lex2::has_lexer(asset.family) {
                cx.fail("container-inconsistent", format!("{what}: output no longer parses with the independent lexer"));
            }
        }
    }
}

/// Evaluate every oracle on an executed sequence.
pub fn check_steps(cx: &mut Ctx, asset: &Asset, steps: &[Step]) {
    let fam = asset.family;
    let orig_removed = once_remove(asset);
    for (k, st) in steps.iter().enumerate() {
        let what = format!("[{}] step {k} ({})", asset.desc, st.op.text().chars().take(24).collect::<String>());
        if let Some(e) = &st.err {
            if is_panic(e) {
                let class = if asset.family == Family::Bmff && e.contains("subtract with overflow") { "offset-underflow" } else { "panic" };
                cx.fail(class, format!("{what}: {e}"));
                continue;
            }
        }
        match &st.op {
            Op::Write(s) | Op::Patch(s) => {
                if !st.ok {
                    cx.fail("write-error", format!("{what}: write_cai failed on a valid asset: {}", st.err.clone().unwrap_or_default()));
                    continue;
                }
                // C07
                match op_read(asset.fmt, &st.after) {
                    ReadRes::Ok(v) if v == s.bytes => {}
                    other => cx.fail("read-after-write", format!("{what}: read_cai after write_cai returns {} instead of the {}-byte store written", match &other { ReadRes::Ok(v) => format!("{} bytes ({})", v.len(), short(v)), o => format!("{o:?}") }, s.bytes.len())),
                }
                let after_items = lex(fam, &st.after);
                if let Some(items) = &after_items {
                    let c = manifest_count(items);
                    if c != 1 {
                        cx.fail("store-count", format!("{what}: {c} manifest containers present after write_cai"));
                    }
                }
                check_container(cx, asset, &st.after, &what);
                // C09
                if fam != Family::Sidecar {
                    if let (Some(a), Some(b)) = (lex(fam, &st.before), &after_items) {
                        if let Some((class, d)) = media_diff(fam, &a, b) {
                            cx.fail(class, format!("{what}: non-manifest content changed by write_cai: {d}"));
                        }
                    }
                    crate::embed_lex2::check_offsets(cx, asset, &st.before, &st.after, &what);
                }
                // C08 / C12
                let region = check_locations(cx, asset, &st.after, &what, Some(&s.bytes));
                if let Op::Patch(_) = &st.op {
                    // same-size replacement: nothing outside the Cai region of `before` may change
                    if st.before.len() != st.after.len() {
                        cx.fail("replace-size-changed", format!("{what}: same-length store changed the file length {} -> {}", st.before.len(), st.after.len()));
                    } else if let Some((off, len)) = region {
                        let before_region = op_locations(asset.fmt, &st.before).ok().and_then(|v| v.into_iter().find(|l| l.2 == 0));
                        if let Some((o0, l0, _)) = before_region {
                            if (o0, l0) != (off, len) {
                                cx.fail("replace-loc-moved", format!("{what}: Cai region moved from {o0}+{l0} to {off}+{len} on same-size replacement"));
                            }
                            let bad = (0..st.after.len()).find(|i| (*i < o0 || *i >= o0 + l0) && st.before[*i] != st.after[*i]);
                            if let Some(i) = bad {
                                cx.fail("replace-nonlocal", format!("{what}: byte {i} outside the reported Cai region {o0}+{l0} changed on same-size replacement"));
                            }
                        }
                    } else if fam == Family::Bmff || fam == Family::Sidecar {
                        // no reported region: compare against the independent lexer's manifest span
                        if let (Some(a), Some(b)) = (lex(fam, &st.before), lex(fam, &st.after)) {
                            if media(fam, &a) != media(fam, &b) {
                                cx.fail("replace-nonlocal", format!("{what}: bytes outside the manifest box changed on same-size replacement"));
                            }
                        }
                    }
                    // the file-based patcher, where the handler has one
                    if let Some(r) = op_patch(asset.fmt, asset.fmt, &st.before, &s.bytes) {
                        match r {
                            Ok(p) => {
                                cx.run.count("patch_cai_store_ok");
                                if p != st.after {
                                    let i = (0..p.len().min(st.after.len())).find(|i| p[*i] != st.after[*i]).unwrap_or(0);
                                    cx.fail("patch-nonlocal", format!("{what}: patch_cai_store output differs from same-size write_cai at byte {i}"));
                                }
                                match op_read(asset.fmt, &p) {
                                    ReadRes::Ok(v) if v == s.bytes => {}
                                    o => cx.fail("patch-read", format!("{what}: after patch_cai_store read_cai gives {o:?}")),
                                }
                            }
                            Err(e) if is_panic(&e) => cx.fail("panic", format!("{what}: patch_cai_store: {e}")),
                            Err(_) => cx.run.count(&format!("patch_cai_store_refused_{}", asset.fmt)),
                        }
                    }
                }
            }
            Op::Remove => {
                if !st.ok {
                    cx.fail("remove-error", format!("{what}: remove failed on a valid asset: {}", st.err.clone().unwrap_or_default()));
                    continue;
                }
                match op_read(asset.fmt, &st.after) {
                    ReadRes::None => {}
                    ReadRes::Err(e) => cx.fail("remove-not-accepted", format!("{what}: after removal the handler rejects the asset: {e}")),
                    o => {
                        let class = if fam == Family::Riff { "remove-noop-riff" } else { "remove-not-clean" };
                        cx.fail(class, format!("{what}: after remove_cai_store_from_stream read_cai still returns {}", match o { ReadRes::Ok(v) => format!("a {}-byte store", v.len()), x => format!("{x:?}") }));
                    }
                }
                if fam != Family::Sidecar {
                    let after_items = lex(fam, &st.after);
                    if let Some(items) = &after_items {
                        let c = manifest_count(items);
                        if c != 0 && fam != Family::Riff {
                            cx.fail("remove-not-clean", format!("{what}: {c} manifest containers still present after removal"));
                        }
                    }
                    check_container(cx, asset, &st.after, &what);
                    if op_locations(asset.fmt, &st.after).is_err() {
                        cx.fail("remove-not-accepted", format!("{what}: object locations fail on the asset after removal"));
                    }
                    if let (Some(a), Some(b)) = (lex(fam, &st.before), &after_items) {
                        if let Some((class, d)) = media_diff(fam, &a, b) {
                            cx.fail(class, format!("{what}: non-manifest content changed by removal: {d}"));
                        }
                    }
                    crate::embed_lex2::check_offsets(cx, asset, &st.before, &st.after, &what);
                    // remove(write…(a)) = remove(a)
                    if let Some(r0) = &orig_removed {
                        let only_embedding_before = steps[..k].iter().all(|s| matches!(s.op, Op::Write(_) | Op::Patch(_) | Op::Read | Op::Loc | Op::BoxMap) && s.ok);
                        if only_embedding_before && k > 0 && *r0 != st.after {
                            let i = (0..r0.len().min(st.after.len())).find(|i| r0[*i] != st.after[*i]).unwrap_or(r0.len().min(st.after.len()));
                            let gif87 = fam == Family::Gif && asset.bytes.get(..6) == Some(b"GIF87a") && r0.len() == st.after.len() && (0..r0.len()).all(|j| j == 4 || r0[j] == st.after[j]);
                            // same media, different bytes: the handler's layout is not restored
                            let same_media = match (lex(fam, r0), lex(fam, &st.after)) {
                                (Some(x), Some(y)) => media(fam, &x) == media(fam, &y) && manifest_count(&y) == 0,
                                _ => false,
                            };
                            let class = if gif87 {
                                "remove-write-neq-remove-gif87a"
                            } else if fam == Family::Tiff && same_media {
                                "remove-write-neq-remove-tiff-appendonly"
                            } else if fam == Family::Svg && same_media {
                                "remove-write-neq-remove-svg-xmlns"
                            } else if matches!(fam, Family::Mp3 | Family::Flac) && same_media {
                                "remove-write-neq-remove-id3-retagged"
                            } else {
                                "remove-write-neq-remove"
                            };
                            cx.fail(class, format!("{what}: removing the manifest from the embedded asset differs from removing it from the original at byte {i} (lengths {} vs {})", st.after.len(), r0.len()));
                        }
                    }
                }
            }
            Op::Read => {}
            Op::Loc => {
                if st.ok && asset_has_manifest(asset, steps, k) {
                    check_locations(cx, asset, &st.before, &what, None);
                }
            }
            Op::BoxMap => {
                check_box_map(cx, asset, &st.before, &what);
            }
        }
    }
}

fn once_remove(asset: &Asset) -> Option<Vec<u8>> {
    op_remove(asset.fmt, &asset.bytes).ok()
}

fn asset_has_manifest(asset: &Asset, steps: &[Step], k: usize) -> bool {
    let mut has = asset.existing.is_some();
    for s in &steps[..k] {
        match s.op {
            Op::Write(_) | Op::Patch(_) if s.ok => has = true,
            Op::Remove if s.ok => has = false,
            _ => {}
        }
    }
    has
}

/// A store length the family can carry: at least its minimum; for BMFF not exactly the
/// 38-byte bare C2PA superbox, which `Store::from_jumbf` accepts as a store without any
/// claim and `BmffIO::write_cai` then rejects ("no provenance claim").
fn legal_len(fam: Family, len: usize) -> usize {
    let l = len.max(min_store_len(fam));
    if fam == Family::Bmff && l == 38 {
        39
    } else {
        l
    }
}

fn fresh_store(fam: Family, rng: &mut Rng, thorough: bool) -> Store {
    gen_store(legal_len(fam, store_len(fam, rng, thorough)), rng.below(100_000))
}

/// Op sequences per property.
fn sequence(prop: &str, fam: Family, rng: &mut Rng, thorough: bool) -> Vec<Op> {
    let s1 = fresh_store(fam, rng, thorough);
    let s2 = fresh_store(fam, rng, thorough);
    let same = gen_store(s1.bytes.len(), rng.below(100_000));
    match prop {
        "C07" => match rng.below(6) {
            0 => vec![Op::Write(s1), Op::Read],
            1 => vec![Op::Write(s1), Op::Read, Op::Write(s2), Op::Read],
            2 => vec![Op::Write(s1), Op::Read, Op::Remove, Op::Read],
            3 => vec![Op::Remove, Op::Read, Op::Write(s1), Op::Read],
            4 => vec![Op::Read, Op::Remove, Op::Read],
            _ => vec![Op::Write(s1), Op::Write(s2), Op::Read, Op::Remove, Op::Read, Op::Write(same), Op::Read],
        },
        "C08" => match rng.below(3) {
            0 => vec![Op::Write(s1), Op::Loc, Op::Patch(same), Op::Loc, Op::Read],
            1 => vec![Op::Write(s2), Op::Write(s1), Op::Loc, Op::Patch(same), Op::Read],
            _ => vec![Op::Loc, Op::Write(s1), Op::Loc, Op::Patch(same), Op::Loc],
        },
        "C09" => match rng.below(5) {
            0 => vec![Op::Write(s1), Op::Remove],
            1 => {
                let big = gen_store(legal_len(fam, s1.bytes.len() + rng.range(1, 300) as usize), 7);
                let small = gen_store(legal_len(fam, s1.bytes.len() / 2), 8);
                vec![Op::Write(s1), Op::Write(big), Op::Write(small), Op::Patch(same), Op::Remove]
            }
            2 => vec![Op::Remove],
            3 => vec![Op::Write(s1)],
            _ => vec![Op::Write(s1), Op::Write(s2), Op::Remove],
        },
        _ => match rng.below(4) {
            0 => vec![Op::BoxMap, Op::Loc],
            1 => vec![Op::Write(s1), Op::BoxMap, Op::Loc],
            2 => vec![Op::BoxMap, Op::Write(s1), Op::BoxMap, Op::Remove, Op::BoxMap],
            _ => vec![Op::Remove, Op::BoxMap, Op::Write(s1), Op::BoxMap, Op::Loc],
        },
    }
}

pub fn families_for(prop: &str) -> Vec<Family> {
    match prop {
        // box hashing exists for these handlers only
        "C12" => vec![Family::Sidecar, Family::Png, Family::Jpeg, Family::Gif, Family::Jxl],
        _ => ALL_FAMILIES.to_vec(),
    }
}

pub fn run_prop(run: &mut Run, rng: &mut Rng, prop: &'static str) {
    let thorough = run.thorough();
    run.rule = "asset generated per container family (optional XMP, extra chunks/segments/blocks, trailing data, optional pre-existing manifest at a random legal place) × store lengths (family boundary lengths, 1–600, up to 70 000 quick / 200 000 thorough) × the property's op sequences; a case is non-trivial when every write/remove step succeeded on the implementation; distinct by (format, layout, op sequence)".to_string();
    let fams = families_for(prop);
    let n = if thorough { 6000 } else { 700 };
    crate::embed_lex2::replays(run, rng, prop);
    for i in 0..n {
        let mut r = rng.fork();
        let fam = fams[i % fams.len()];
        if !crate::embed_lex2::available(fam) {
            continue;
        }
        let existing = if r.chance(1, 3) { Some(fresh_store(fam, &mut r, false)) } else { None };
        let asset = gen_asset(fam, &mut r, existing.as_ref());
        let ops = sequence(prop, fam, &mut r, thorough);
        one_case(run, prop, &asset, &ops);
    }
}

pub fn one_case(run: &mut Run, prop: &'static str, asset: &Asset, ops: &[Op]) -> usize {
    let steps = exec(asset, ops);
    let idx = record(run, prop, asset, &steps);
    let layout_key = if asset.family == Family::Jxl {
        format!("jxl{}{}{}", if asset.existing.is_some() { "+cai" } else { "" }, if asset.desc.contains("largesize") { "+largesize" } else { "" }, if asset.desc.contains("size0") { "+size0" } else { "" })
    } else {
        asset.desc.split('@').next().unwrap_or("").split("-o").next().unwrap_or("").to_string()
    };
    run.count(&format!("layout_{layout_key}"));
    let all_ok = steps.iter().all(|s| s.ok || matches!(s.op, Op::BoxMap | Op::Loc));
    if all_ok {
        run.nontrivial(format!("{} {} {}", asset.fmt, asset.desc, ops.iter().map(|o| o.text()).collect::<Vec<_>>().join(",")));
    } else {
        run.count("case_with_failing_step");
    }
    let tiff_legacy = asset.family == Family::Tiff && asset.desc.contains("2page") && asset.existing.is_some();
    let mut cx = Ctx { run, prop, idx, tiff_legacy };
    check_steps(&mut cx, asset, &steps);
    idx
}
