//! Property oracles of C07 / C08 / C09 / C12 evaluated directly on the implementation's
//! outputs (independent of the Lean model), and the per-property case loops.

use crate::common::{Rng, Run};
use crate::embed_common::*;

/// Oracle classes that belong to each property; a driver reports only its own classes.
pub fn classes(prop: &str) -> &'static [&'static str] {
    match prop {
        "C07" => &[
            "panic",
            "write-error",
            "remove-error",
            "read-after-write",
            "store-count",
            "remove-not-clean",
            "remove-noop-riff",
            "remove-not-accepted",
            "remove-leaves-update-box-bmff",
            "container-inconsistent",
        ],
        "C08" => &[
            "panic",
            "loc-error",
            "loc-missing-cai",
            "loc-outside-file",
            "loc-overlap",
            "loc-cai-not-store",
            "replace-nonlocal",
            "replace-size-changed",
            "replace-loc-moved",
            "patch-nonlocal",
            "patch-read",
        ],
        "C09" => &[
            "panic",
            "media-changed",
            "media-changed-gif87a-version",
            "remove-write-neq-remove",
            "remove-write-neq-remove-gif87a",
            "remove-write-neq-remove-tiff-appendonly",
            "remove-write-neq-remove-svg-xmlns",
            "remove-write-neq-remove-id3-retagged",
            "media-changed-id3-text-reencoded",
            "offset-broken",
            "offset-broken-data-before-box",
            "offset-broken-iloc",
            "offset-broken-tfhd",
            "offset-broken-tfra",
            "offset-broken-saio",
            "offset-underflow",
            "media-unparsable-output",
            "adjust-touches-other-bytes",
        ],
        "C12" => &[
            "panic",
            "boxmap-error",
            "boxmap-unordered",
            "boxmap-overlap",
            "boxmap-rst-inside-sos",
            "boxmap-outside",
            "boxmap-gap",
            "boxmap-trailing-png",
            "boxmap-trailing-jpeg",
            "boxmap-trailing-gif",
            "boxmap-short-app11",
            "boxmap-c2pa-mismatch",
            "loc-outside-file",
            "loc-overlap",
        ],
        _ => &[],
    }
}

pub struct Ctx<'a> {
    pub run: &'a mut Run,
    pub prop: &'static str,
    pub idx: usize,
    /// multi-page TIFF whose (pre-existing) C2PA tag sits in the first IFD (legacy layout)
    pub tiff_legacy: bool,
}

impl Ctx<'_> {
    pub fn fail(&mut self, class: &str, detail: String) {
        let refined;
        let class = if self.tiff_legacy && ["remove-not-clean", "store-count", "loc-error", "loc-missing-cai", "remove-not-accepted", "loc-cai-not-store", "replace-loc-moved", "replace-nonlocal"].contains(&class) {
            refined = format!("{class}-tiff-legacy-first-ifd");
            refined.as_str()
        } else {
            class
        };
        let base = class.strip_suffix("-tiff-legacy-first-ifd").unwrap_or(class);
        // BMFF update-manifest layouts report under their own keys (`update-<class>`)
        let base = base.strip_prefix("update-trailing-box-").or_else(|| base.strip_prefix("update-")).unwrap_or(base);
        if classes(self.prop).contains(&base) || classes(self.prop).contains(&class) {
            self.run.fail(self.idx, class, detail);
        }
    }
}

/// ID3 text frames (`T***`): (encoding byte, text) decoded to UTF-8, so that a frame the
/// id3 crate re-encodes (Latin-1 -> UTF-8) can be told apart from a changed text.
fn id3_text(bytes: &[u8]) -> Option<String> {
    let (enc, rest) = bytes.split_first()?;
    match enc {
        0 => Some(rest.iter().map(|b| *b as char).collect::<String>().trim_end_matches('\0').to_string()),
        3 => Some(String::from_utf8_lossy(rest).trim_end_matches('\0').to_string()),
        _ => None,
    }
}

/// Compare media views; returns (class, detail) when they differ.
fn media_diff(fam: Family, a: &[Item], b: &[Item]) -> Option<(&'static str, String)> {
    let (ma, mb) = (media(fam, a), media(fam, b));
    if ma == mb {
        return None;
    }
    if matches!(fam, Family::Mp3 | Family::Flac) && ma.len() == mb.len() {
        let same_meaning = ma.iter().zip(mb.iter()).all(|(x, y)| x == y || (x.0 == y.0 && x.0.starts_with('T') && id3_text(&x.1).is_some() && id3_text(&x.1) == id3_text(&y.1)));
        if same_meaning {
            return Some(("media-changed-id3-text-reencoded", first_diff(&ma, &mb)));
        }
    }
    Some(("media-changed", first_diff(&ma, &mb)))
}

fn short(b: &[u8]) -> String {
    if b.len() <= 24 {
        hex::encode(b)
    } else {
        format!("{}…({} bytes)", hex::encode(&b[..24]), b.len())
    }
}

fn first_diff(a: &[(String, Vec<u8>)], b: &[(String, Vec<u8>)]) -> String {
    for (i, (x, y)) in a.iter().zip(b.iter()).enumerate() {
        if x != y {
            return format!("item {i}: {}:{} vs {}:{}", x.0, short(&x.1), y.0, short(&y.1));
        }
    }
    format!("item count {} vs {}", a.len(), b.len())
}

/// Object-location well-formedness for an asset that contains a manifest (C08, C12).
pub fn check_locations(cx: &mut Ctx, asset: &Asset, bytes: &[u8], what: &str, store: Option<&[u8]>) -> Option<(usize, usize)> {
    if asset.family == Family::Sidecar || asset.family == Family::Bmff {
        // no data-hash regions are reported for these (empty list by design)
        return None;
    }
    let locs = match op_locations(asset.fmt, bytes) {
        Ok(v) => v,
        Err(e) => {
            cx.fail(if is_panic(&e) { "panic" } else { "loc-error" }, format!("{what}: object locations fail on an asset with a manifest: {e}"));
            return None;
        }
    };
    let cai: Vec<_> = locs.iter().filter(|l| l.2 == 0).collect();
    if cai.len() != 1 {
        cx.fail("loc-missing-cai", format!("{what}: {} Cai regions reported: {}", cai.len(), loc_str(&locs)));
        return None;
    }
    let (off, len, _) = *cai[0];
    if off + len > bytes.len() {
        cx.fail("loc-outside-file", format!("{what}: Cai region {off}+{len} exceeds file length {}", bytes.len()));
    }
    for (o, n, k) in &locs {
        if *k == 0 {
            continue;
        }
        if o + n > bytes.len() {
            cx.fail("loc-outside-file", format!("{what}: region {o}+{n} exceeds file length {}", bytes.len()));
        }
        if *n > 0 && *o < off + len && off < o + n {
            cx.fail("loc-overlap", format!("{what}: region {o}+{n} overlaps the Cai region {off}+{len}"));
        }
    }
    // the Cai region is exactly the span of the manifest items found by the independent lexer
    if let Some(items) = lex(asset.family, bytes) {
        let ms: Vec<&Item> = items.iter().filter(|i| i.manifest).collect();
        if let (Some(f), Some(l)) = (ms.first(), ms.last()) {
            let (ms_start, ms_end) = match asset.family {
                // RIFF items carry the chunk payload; the region includes the 8-byte header
                Family::Riff => (f.start, l.start + 8 + l.bytes.len()),
                // ID3 items carry the frame payload; the frame header is 10 bytes
                Family::Mp3 | Family::Flac => (f.start, l.start + 10 + l.bytes.len()),
                _ => (f.start, l.start + l.bytes.len()),
            };
            match asset.family {
                // the region is the store payload inside the container (tag value, GEOB data,
                // base64 text of the element)
                Family::Tiff | Family::Mp3 | Family::Flac | Family::Svg => {
                    if off < ms_start || off + len > ms_end {
                        cx.fail("loc-cai-not-store", format!("{what}: Cai region {off}+{len} is not inside the manifest container {ms_start}..{ms_end}"));
                    } else if let Some(st) = store {
                        let region = &bytes[off..(off + len).min(bytes.len())];
                        let want: Vec<u8> = if asset.family == Family::Svg { crate::embed_lex3::b64(st).into_bytes() } else { st.to_vec() };
                        if region != want.as_slice() {
                            cx.fail("loc-cai-not-store", format!("{what}: Cai region {off}+{len} does not hold the embedded store ({} bytes expected)", want.len()));
                        }
                    }
                }
                _ => {
                    if off != ms_start || off + len != ms_end {
                        cx.fail("loc-cai-not-store", format!("{what}: Cai region {off}+{len} but the embedded manifest container occupies {ms_start}..{ms_end}"));
                    }
                }
            }
        }
        let gap: usize = {
            let mut cov = vec![false; bytes.len()];
            for (o, n, _) in &locs {
                for c in cov.iter_mut().skip(*o).take(*n) {
                    *c = true;
                }
            }
            cov.iter().filter(|c| !**c).count()
        };
        if gap > 0 {
            cx.run.count(&format!("note_locations_leave_{}_bytes_unreported_{}", gap.min(9), asset.fmt));
        }
    }
    Some((off, len))
}

/// Box-map well-formedness (C12).
pub fn check_box_map(cx: &mut Ctx, asset: &Asset, bytes: &[u8], what: &str) {
    // structurally mutated input: an error is a correct answer; an Ok answer must still be
    // ordered, non-overlapping and inside the file (coverage is not defined for a broken file)
    let mutated = asset.desc.contains("MUTATED");
    let bm = match op_box_map(asset.fmt, bytes) {
        None => return,
        Some(Ok(v)) => v,
        Some(Err(e)) => {
            if is_panic(&e) {
                cx.fail("panic", format!("{what}: get_box_map panics: {e}"));
            } else if mutated {
                cx.run.count(&format!("mutated_boxmap_err_{}", asset.fmt));
            } else {
                cx.fail("boxmap-error", format!("{what}: get_box_map fails: {e}"));
            }
            return;
        }
    };
    if mutated {
        cx.run.count(&format!("mutated_boxmap_ok_{}", asset.fmt));
    }
    let n = bytes.len() as u64;
    let mut prev_end = 0u64;
    let mut cov = vec![0u8; bytes.len()]; // 1 = ordinary box, 2 = C2PA box
    for (i, b) in bm.iter().enumerate() {
        if b.start < prev_end {
            if i > 0 && b.start < bm[i - 1].start {
                cx.fail("boxmap-unordered", format!("{what}: box {} '{}' starts at {} before its predecessor", i, b.name, b.start));
            } else {
                let class = if asset.family == Family::Jpeg && b.name.starts_with("RST") { "boxmap-rst-inside-sos" } else { "boxmap-overlap" };
                cx.fail(class, format!("{what}: box {} '{}' {}+{} overlaps the previous box ending at {}", i, b.name, b.start, b.len, prev_end));
            }
        }
        if b.start + b.len > n {
            cx.fail("boxmap-outside", format!("{what}: box {} '{}' {}+{} exceeds file length {}", i, b.name, b.start, b.len, n));
            continue;
        }
        for c in cov.iter_mut().skip(b.start as usize).take(b.len as usize) {
            *c = if b.name == "C2PA" { 2 } else { 1 };
        }
        prev_end = prev_end.max(b.start + b.len);
    }
    if mutated {
        return;
    }
    let items = lex(asset.family, bytes);
    // coverage: every byte is in a box; manifest bytes exactly in the C2PA box
    let mut is_manifest = vec![false; bytes.len()];
    let mut trailing_from = bytes.len();
    if let Some(items) = &items {
        for it in items {
            if it.manifest {
                for m in is_manifest.iter_mut().skip(it.start).take(it.bytes.len()) {
                    *m = true;
                }
            }
            if it.tag == "trailing" {
                trailing_from = it.start;
            }
        }
    }
    // "covers every byte of the file except the manifest container"; the data after the end
    // marker and the rest are reported separately (different defects)
    let uncovered_all: Vec<usize> = (0..bytes.len()).filter(|i| cov[*i] == 0 && !is_manifest[*i]).collect();
    let (trailing, uncovered): (Vec<usize>, Vec<usize>) = uncovered_all.into_iter().partition(|i| *i >= trailing_from);
    if let (Some(f), Some(l)) = (trailing.first(), trailing.last()) {
        let class = match asset.family {
            Family::Png => "boxmap-trailing-png",
            Family::Jpeg => "boxmap-trailing-jpeg",
            Family::Gif => "boxmap-trailing-gif",
            _ => "boxmap-gap",
        };
        cx.fail(class, format!("{what}: {} bytes ({}..={}) of the {}-byte file are in no box (data after the end marker)", trailing.len(), f, l, n));
    }
    if let (Some(f), Some(l)) = (uncovered.first(), uncovered.last()) {
        // exactly this gap kind: every uncovered byte lies in an APP11 segment whose content is
        // at most 16 bytes
        let class = if asset.family == Family::Jpeg && in_short_app11(items.as_deref().unwrap_or(&[]), &uncovered) { "boxmap-short-app11" } else { "boxmap-gap" };
        cx.fail(class, format!("{what}: {} bytes ({}..={}) of the {}-byte file are in no box", uncovered.len(), f, l, n));
    }
    if items.is_some() {
        let bad = (0..bytes.len()).find(|i| (cov[*i] == 2) != is_manifest[*i] && cov[*i] != 0);
        if let Some(i) = bad {
            cx.fail("boxmap-c2pa-mismatch", format!("{what}: byte {i} is {} the manifest container but {} the C2PA box", if is_manifest[i] { "in" } else { "outside" }, if cov[i] == 2 { "inside" } else { "outside" }));
        }
    }
}

/// Do all `uncovered` positions lie inside APP11 segments with at most 16 content bytes?
fn in_short_app11(items: &[Item], uncovered: &[usize]) -> bool {
    let short: Vec<(usize, usize)> = items.iter().filter(|i| i.tag == "SEB" && i.bytes.len() <= 4 + 16).map(|i| (i.start, i.start + i.bytes.len())).collect();
    !short.is_empty() && uncovered.iter().all(|u| short.iter().any(|(s, e)| s <= u && u < e))
}

/// Format-level consistency of an output the handler produced (C07 "still accepted").
fn check_container(cx: &mut Ctx, asset: &Asset, bytes: &[u8], what: &str) {
    match asset.family {
        Family::Riff => {
            if bytes.len() >= 8 {
                let n = u32::from_le_bytes([bytes[4], bytes[5], bytes[6], bytes[7]]) as usize;
                if 8 + n > bytes.len() {
                    cx.fail("container-inconsistent", format!("{what}: RIFF size field {n} exceeds the file ({} bytes)", bytes.len()));
                }
            }
            if lex(asset.family, bytes).is_none() {
                cx.fail("container-inconsistent", format!("{what}: output is not a well-formed RIFF chunk sequence"));
            }
        }
        Family::Sidecar => {}
        _ => {
            if lex(asset.family, bytes).is_none() && crate::embed_lex2::has_lexer(asset.family) {
                cx.fail("container-inconsistent", format!("{what}: output no longer parses with the independent lexer"));
            }
        }
    }
}

/// C09 on one step: the non-manifest items of the independent lexer (bytes, order; boxes
/// that carry absolute offsets with those fields masked) are unchanged, and every absolute
/// offset still addresses the same bytes. An output the lexer cannot read while it could read
/// the input is a failure of its own (the media cannot be shown to be preserved).
pub fn check_media(cx: &mut Ctx, asset: &Asset, before: &[u8], after: &[u8], what: &str, prefix: &str) {
    let fam = asset.family;
    if fam == Family::Sidecar {
        return;
    }
    match (lex(fam, before), lex(fam, after)) {
        (Some(a), Some(b)) => {
            if let Some((class, d)) = media_diff(fam, &a, &b) {
                cx.fail(&format!("{prefix}{class}"), format!("{what}: non-manifest content changed: {d}"));
            }
        }
        (Some(_), None) => cx.fail(&format!("{prefix}media-unparsable-output"), format!("{what}: the independent lexer reads the input but not the output ({} -> {} bytes); media preservation cannot be established", before.len(), after.len())),
        _ => cx.run.count("media_check_skipped_input_unparsable"),
    }
    crate::embed_lex2::check_offsets_prefixed(cx, asset, before, after, what, prefix);
}

/// Evaluate every oracle on an executed sequence.
pub fn check_steps(cx: &mut Ctx, asset: &Asset, steps: &[Step]) {
    let fam = asset.family;
    let orig_removed = once_remove(asset);
    for (k, st) in steps.iter().enumerate() {
        let what = format!("[{}] step {k} ({})", asset.desc, st.op.text().chars().take(24).collect::<String>());
        if let Some(e) = &st.err {
            if is_panic(e) {
                let class = if asset.family == Family::Bmff && e.contains("subtract with overflow") { "offset-underflow" } else { "panic" };
                cx.fail(class, format!("{what}: {e}"));
                continue;
            }
        }
        match &st.op {
            Op::Write(s) | Op::Patch(s) => {
                if !st.ok {
                    cx.fail("write-error", format!("{what}: write_cai failed on a valid asset: {}", st.err.clone().unwrap_or_default()));
                    continue;
                }
                // C07
                match op_read(asset.fmt, &st.after) {
                    ReadRes::Ok(v) if v == s.bytes => {}
                    other => cx.fail("read-after-write", format!("{what}: read_cai after write_cai returns {} instead of the {}-byte store written", match &other { ReadRes::Ok(v) => format!("{} bytes ({})", v.len(), short(v)), o => format!("{o:?}") }, s.bytes.len())),
                }
                let after_items = lex(fam, &st.after);
                if let Some(items) = &after_items {
                    let c = manifest_count(items);
                    if c != 1 {
                        cx.fail("store-count", format!("{what}: {c} manifest containers present after write_cai"));
                    }
                }
                check_container(cx, asset, &st.after, &what);
                // C09
                check_media(cx, asset, &st.before, &st.after, &format!("{what} (write_cai)"), "");
                // C08 / C12
                let region = check_locations(cx, asset, &st.after, &what, Some(&s.bytes));
                if let Op::Patch(_) = &st.op {
                    // same-size replacement: nothing outside the Cai region of `before` may change
                    if st.before.len() != st.after.len() {
                        cx.fail("replace-size-changed", format!("{what}: same-length store changed the file length {} -> {}", st.before.len(), st.after.len()));
                    } else if let Some((off, len)) = region {
                        let before_region = op_locations(asset.fmt, &st.before).ok().and_then(|v| v.into_iter().find(|l| l.2 == 0));
                        if let Some((o0, l0, _)) = before_region {
                            if (o0, l0) != (off, len) {
                                cx.fail("replace-loc-moved", format!("{what}: Cai region moved from {o0}+{l0} to {off}+{len} on same-size replacement"));
                            }
                            let bad = (0..st.after.len()).find(|i| (*i < o0 || *i >= o0 + l0) && st.before[*i] != st.after[*i]);
                            if let Some(i) = bad {
                                cx.fail("replace-nonlocal", format!("{what}: byte {i} outside the reported Cai region {o0}+{l0} changed on same-size replacement"));
                            }
                        }
                    } else if fam == Family::Bmff || fam == Family::Sidecar {
                        // no reported region: compare against the independent lexer's manifest span
                        if let (Some(a), Some(b)) = (lex(fam, &st.before), lex(fam, &st.after)) {
                            if media(fam, &a) != media(fam, &b) {
                                cx.fail("replace-nonlocal", format!("{what}: bytes outside the manifest box changed on same-size replacement"));
                            }
                        }
                    }
                    // the file-based patcher, where the handler has one
                    if let Some(r) = op_patch(asset.fmt, asset.fmt, &st.before, &s.bytes) {
                        match r {
                            Ok(p) => {
                                cx.run.count("patch_cai_store_ok");
                                if p != st.after {
                                    let i = (0..p.len().min(st.after.len())).find(|i| p[*i] != st.after[*i]).unwrap_or(0);
                                    cx.fail("patch-nonlocal", format!("{what}: patch_cai_store output differs from same-size write_cai at byte {i}"));
                                }
                                match op_read(asset.fmt, &p) {
                                    ReadRes::Ok(v) if v == s.bytes => {}
                                    o => cx.fail("patch-read", format!("{what}: after patch_cai_store read_cai gives {o:?}")),
                                }
                            }
                            Err(e) if is_panic(&e) => cx.fail("panic", format!("{what}: patch_cai_store: {e}")),
                            Err(_) => cx.run.count(&format!("patch_cai_store_refused_{}", asset.fmt)),
                        }
                    }
                }
            }
            Op::Remove => {
                if !st.ok {
                    cx.fail("remove-error", format!("{what}: remove failed on a valid asset: {}", st.err.clone().unwrap_or_default()));
                    continue;
                }
                match op_read(asset.fmt, &st.after) {
                    ReadRes::None => {}
                    ReadRes::Err(e) => cx.fail("remove-not-accepted", format!("{what}: after removal the handler rejects the asset: {e}")),
                    o => {
                        let class = if fam == Family::Riff { "remove-noop-riff" } else { "remove-not-clean" };
                        cx.fail(class, format!("{what}: after remove_cai_store_from_stream read_cai still returns {}", match o { ReadRes::Ok(v) => format!("a {}-byte store", v.len()), x => format!("{x:?}") }));
                    }
                }
                if fam != Family::Sidecar {
                    let after_items = lex(fam, &st.after);
                    if let Some(items) = &after_items {
                        let c = manifest_count(items);
                        if c != 0 && fam != Family::Riff {
                            cx.fail("remove-not-clean", format!("{what}: {c} manifest containers still present after removal"));
                        }
                    }
                    check_container(cx, asset, &st.after, &what);
                    if op_locations(asset.fmt, &st.after).is_err() {
                        cx.fail("remove-not-accepted", format!("{what}: object locations fail on the asset after removal"));
                    }
                    check_media(cx, asset, &st.before, &st.after, &format!("{what} (removal)"), "");
                    // remove(write…(a)) = remove(a)
                    if let Some(r0) = &orig_removed {
                        let only_embedding_before = steps[..k].iter().all(|s| matches!(s.op, Op::Write(_) | Op::Patch(_) | Op::Read | Op::Loc | Op::BoxMap) && s.ok);
                        if only_embedding_before && k > 0 && *r0 != st.after {
                            let i = (0..r0.len().min(st.after.len())).find(|i| r0[*i] != st.after[*i]).unwrap_or(r0.len().min(st.after.len()));
                            let gif87 = fam == Family::Gif && asset.bytes.get(..6) == Some(b"GIF87a") && r0.len() == st.after.len() && (0..r0.len()).all(|j| j == 4 || r0[j] == st.after[j]);
                            // same media, different bytes: the handler's layout is not restored
                            let same_media = match (lex(fam, r0), lex(fam, &st.after)) {
                                (Some(x), Some(y)) => media(fam, &x) == media(fam, &y) && manifest_count(&y) == 0,
                                _ => false,
                            };
                            let class = if gif87 {
                                "remove-write-neq-remove-gif87a"
                            } else if fam == Family::Tiff && same_media {
                                "remove-write-neq-remove-tiff-appendonly"
                            } else if fam == Family::Svg && same_media {
                                "remove-write-neq-remove-svg-xmlns"
                            } else if matches!(fam, Family::Mp3 | Family::Flac) && same_media {
                                "remove-write-neq-remove-id3-retagged"
                            } else {
                                "remove-write-neq-remove"
                            };
                            cx.fail(class, format!("{what}: removing the manifest from the embedded asset differs from removing it from the original at byte {i} (lengths {} vs {})", st.after.len(), r0.len()));
                        }
                    }
                }
            }
            Op::Read => {}
            Op::Loc => {
                if st.ok && asset_has_manifest(asset, steps, k) {
                    check_locations(cx, asset, &st.before, &what, None);
                }
            }
            Op::BoxMap => {
                check_box_map(cx, asset, &st.before, &what);
            }
        }
    }
}

fn once_remove(asset: &Asset) -> Option<Vec<u8>> {
    op_remove(asset.fmt, &asset.bytes).ok()
}

fn asset_has_manifest(asset: &Asset, steps: &[Step], k: usize) -> bool {
    let mut has = asset.existing.is_some();
    for s in &steps[..k] {
        match s.op {
            Op::Write(_) | Op::Patch(_) if s.ok => has = true,
            Op::Remove if s.ok => has = false,
            _ => {}
        }
    }
    has
}

/// A store length the family can carry: at least its minimum; for BMFF not exactly the
/// 38-byte bare C2PA superbox, which `Store::from_jumbf` accepts as a store without any
/// claim and `BmffIO::write_cai` then rejects ("no provenance claim").
fn legal_len(fam: Family, len: usize) -> usize {
    let l = len.max(min_store_len(fam));
    if fam == Family::Bmff && l == 38 {
        39
    } else {
        l
    }
}

fn fresh_store(fam: Family, rng: &mut Rng, thorough: bool) -> Store {
    gen_store(legal_len(fam, store_len(fam, rng, thorough)), rng.below(100_000))
}

/// Op sequences per property.
fn sequence(prop: &str, fam: Family, rng: &mut Rng, thorough: bool) -> Vec<Op> {
    let s1 = fresh_store(fam, rng, thorough);
    let s2 = fresh_store(fam, rng, thorough);
    let same = gen_store(s1.bytes.len(), rng.below(100_000));
    match prop {
        "C07" => match rng.below(6) {
            0 => vec![Op::Write(s1), Op::Read],
            1 => vec![Op::Write(s1), Op::Read, Op::Write(s2), Op::Read],
            2 => vec![Op::Write(s1), Op::Read, Op::Remove, Op::Read],
            3 => vec![Op::Remove, Op::Read, Op::Write(s1), Op::Read],
            4 => vec![Op::Read, Op::Remove, Op::Read],
            _ => vec![Op::Write(s1), Op::Write(s2), Op::Read, Op::Remove, Op::Read, Op::Write(same), Op::Read],
        },
        "C08" => match rng.below(3) {
            0 => vec![Op::Write(s1), Op::Loc, Op::Patch(same), Op::Loc, Op::Read],
            1 => vec![Op::Write(s2), Op::Write(s1), Op::Loc, Op::Patch(same), Op::Read],
            _ => vec![Op::Loc, Op::Write(s1), Op::Loc, Op::Patch(same), Op::Loc],
        },
        "C09" => match rng.below(5) {
            0 => vec![Op::Write(s1), Op::Remove],
            1 => {
                let big = gen_store(legal_len(fam, s1.bytes.len() + rng.range(1, 300) as usize), 7);
                let small = gen_store(legal_len(fam, s1.bytes.len() / 2), 8);
                vec![Op::Write(s1), Op::Write(big), Op::Write(small), Op::Patch(same), Op::Remove]
            }
            2 => vec![Op::Remove],
            3 => vec![Op::Write(s1)],
            _ => vec![Op::Write(s1), Op::Write(s2), Op::Remove],
        },
        _ => match rng.below(4) {
            0 => vec![Op::BoxMap, Op::Loc],
            1 => vec![Op::Write(s1), Op::BoxMap, Op::Loc],
            2 => vec![Op::BoxMap, Op::Write(s1), Op::BoxMap, Op::Remove, Op::BoxMap],
            _ => vec![Op::Remove, Op::BoxMap, Op::Write(s1), Op::BoxMap, Op::Loc],
        },
    }
}

pub fn families_for(prop: &str) -> Vec<Family> {
    match prop {
        // box hashing exists for these handlers only
        "C12" => vec![Family::Sidecar, Family::Png, Family::Jpeg, Family::Gif, Family::Jxl],
        _ => ALL_FAMILIES.to_vec(),
    }
}

pub fn run_prop(run: &mut Run, rng: &mut Rng, prop: &'static str) {
    let thorough = run.thorough();
    run.rule = "asset generated per container family (optional XMP, extra chunks/segments/blocks, trailing data, optional pre-existing manifest at a random legal place) × store lengths (family boundary lengths, 1–600, up to 70 000 quick / 200 000 thorough) × the property's op sequences; plus, systematically: the real files of sdk/tests/fixtures per family, every segmentation/padding boundary store length per handler format on an asset without and with a manifest (C07, C08), fragmented MP4 in every layout × base mode × tfra/saio version and the BMFF update-manifest branches on Builder-made original+update assets (C09), the offset fields of generated and fixture BMFF files through adjust_known_offsets_from with pivots at/next to every stored offset and size deltas at the u32/i64 boundaries against the Lean table model (C09), structurally mutated PNG/JPEG/GIF/JXL inputs for the box map (C12), and differential-only inputs outside the statement (two manifest containers, non-ASCII PNG chunk types); a case is non-trivial when every write/remove step succeeded on the implementation (offset-table cases: the fix-up succeeded on a non-empty table; mutated inputs: a box map was returned); distinct by (format, layout, op sequence)".to_string();
    let fams = families_for(prop);
    let n = if thorough { 6000 } else { 700 };
    crate::embed_lex2::replays(run, rng, prop);
    crate::embed_frag::fixture_cases(run, prop, thorough);
    if prop == "C07" || prop == "C08" {
        boundary_cases(run, rng, prop, thorough);
        two_manifest_cases(run, rng, prop);
    }
    if prop == "C07" {
        crate::embed_frag::update_remove_cases(run, rng);
    }
    if prop == "C12" {
        mutated_boxmap_cases(run, rng, thorough);
    }
    if prop == "C09" {
        crate::embed_frag::adjust_table_cases(run, rng, thorough);
        crate::embed_frag::update_layout_cases(run, rng, thorough);
    }
    for i in 0..n {
        let mut r = rng.fork();
        let fam = fams[i % fams.len()];
        if !crate::embed_lex2::available(fam) {
            continue;
        }
        let existing = if r.chance(1, 3) { Some(fresh_store(fam, &mut r, false)) } else { None };
        let asset = gen_asset(fam, &mut r, existing.as_ref());
        let ops = sequence(prop, fam, &mut r, thorough);
        one_case(run, prop, &asset, &ops);
    }
}

pub fn one_case(run: &mut Run, prop: &'static str, asset: &Asset, ops: &[Op]) -> usize {
    let steps = exec(asset, ops);
    let idx = record(run, prop, asset, &steps);
    let layout_key = if asset.family == Family::Jxl {
        format!("jxl{}{}{}", if asset.existing.is_some() { "+cai" } else { "" }, if asset.desc.contains("largesize") { "+largesize" } else { "" }, if asset.desc.contains("size0") { "+size0" } else { "" })
    } else {
        asset.desc.split('@').next().unwrap_or("").split("-o").next().unwrap_or("").to_string()
    };
    run.count(&format!("layout_{layout_key}"));
    let all_ok = steps.iter().all(|s| s.ok || matches!(s.op, Op::BoxMap | Op::Loc));
    if all_ok {
        run.nontrivial(format!("{} {} {}", asset.fmt, asset.desc, ops.iter().map(|o| o.text()).collect::<Vec<_>>().join(",")));
    } else {
        run.count("case_with_failing_step");
    }
    let tiff_legacy = asset.family == Family::Tiff && asset.desc.contains("2page") && asset.existing.is_some();
    let mut cx = Ctx { run, prop, idx, tiff_legacy };
    check_steps(&mut cx, asset, &steps);
    idx
}

/// Store lengths at the segmentation / padding boundaries of each container, per handler
/// format (RIFF has three), swept systematically (C07, C08) on an asset without and one with
/// an existing manifest.
pub fn boundary_lengths(fmt: &str) -> Vec<usize> {
    match fmt {
        // APP11 segments carry 64 000-byte pieces (+ repeated box header from the 2nd on)
        "jpg" => vec![21, 28, 29, 63_991, 63_992, 63_993, 63_999, 64_000, 64_001, 65_535, 65_536, 127_999, 128_000, 128_001],
        // RIFF chunks are padded to even length; 16-bit boundary
        "wav" | "webp" | "avi" => vec![1, 2, 3, 4, 255, 256, 257, 65_535, 65_536, 65_537],
        // GIF data sub-blocks hold 255 bytes
        "gif" => vec![1, 2, 254, 255, 256, 509, 510, 511, 765, 65_025, 65_026],
        // base64: 3-byte groups and padding
        "svg" => vec![1, 2, 3, 4, 5, 6, 57, 58, 59, 255, 256, 257, 65_535, 65_536, 65_537],
        // IFD entries hold up to 4 bytes inline; word alignment
        "tif" => vec![5, 6, 7, 8, 255, 256, 257, 65_535, 65_536],
        // syncsafe sizes (7 bits per byte)
        "mp3" | "flac" => vec![8, 9, 60, 127, 128, 16_383, 16_384, 65_536],
        // 32-bit box sizes; 38 is the bare superbox the BMFF writer refuses
        "mp4" | "heic" => vec![39, 40, 255, 256, 65_535, 65_536],
        "jxl" => vec![38, 39, 255, 256, 65_535, 65_536],
        _ => vec![1, 2, 255, 256, 65_535, 65_536],
    }
}

fn boundary_asset(fmt: &'static str, rng: &mut Rng, existing: Option<&Store>) -> Asset {
    match fmt {
        "wav" => gen_riff_kind(rng, existing, 0),
        "webp" => gen_riff_kind(rng, existing, 1),
        "avi" => gen_riff_kind(rng, existing, 2),
        "c2pa" => gen_asset(Family::Sidecar, rng, existing),
        "png" => gen_asset(Family::Png, rng, existing),
        "jpg" => gen_asset(Family::Jpeg, rng, existing),
        "gif" => gen_asset(Family::Gif, rng, existing),
        "tif" => gen_asset(Family::Tiff, rng, existing),
        "svg" => gen_asset(Family::Svg, rng, existing),
        "mp3" => gen_asset(Family::Mp3, rng, existing),
        "flac" => gen_asset(Family::Flac, rng, existing),
        "jxl" => gen_asset(Family::Jxl, rng, existing),
        "heic" => {
            let p = crate::embed_heif::gen_params(rng);
            crate::embed_heif::gen_heif(rng, existing, if existing.is_some() { 4 } else { 1 }, p)
        }
        _ => crate::embed_lex2::gen_mp4(rng, existing, if existing.is_some() { 4 } else { 1 }, false),
    }
}

pub fn boundary_cases(run: &mut Run, rng: &mut Rng, prop: &'static str, thorough: bool) {
    for fmt in ["c2pa", "png", "jpg", "gif", "wav", "webp", "avi", "mp4", "heic", "tif", "svg", "mp3", "flac", "jxl"] {
        for len in boundary_lengths(fmt) {
            for with in [false, true] {
                if with && !thorough && len > 70_000 {
                    continue;
                }
                let mut r = rng.fork();
                let ex = gen_store(boundary_lengths(fmt)[0].max(64), 21);
                let asset = boundary_asset(fmt, &mut r, if with { Some(&ex) } else { None });
                let s1 = gen_store(len, 22);
                let same = gen_store(len, 23);
                let other = gen_store(*r.pick(&boundary_lengths(fmt)), 24);
                let ops = if prop == "C07" {
                    vec![Op::Write(s1), Op::Read, Op::Write(other), Op::Read, Op::Write(same), Op::Read, Op::Remove, Op::Read]
                } else {
                    vec![Op::Write(other), Op::Write(s1), Op::Loc, Op::Patch(same), Op::Loc, Op::Read]
                };
                one_case(run, prop, &asset, &ops);
                run.count(&format!("boundary_{fmt}"));
            }
        }
    }
}

/// Assets with TWO pre-existing manifest containers. They are outside the statement (a valid
/// asset has at most one manifest store): no property oracle is applied. For the byte-exact
/// formats the model/implementation differential runs (what the handler does on such input is
/// part of the model); for the others the handler's behaviour is recorded in the evidence.
pub fn two_manifest_cases(run: &mut Run, rng: &mut Rng, prop: &'static str) {
    let s1 = gen_store(70, 31);
    let s2 = gen_store(90, 32);
    let new = gen_store(120, 33);
    for k in 0..12 {
        let mut r = rng.fork();
        // PNG: a second caBX chunk right before IEND, or right after the first
        let mut a = gen_png(&mut r, Some(&s1));
        let Some(items) = lex_png(&a.bytes) else { continue };
        let at = if k % 2 == 0 { items.iter().find(|i| i.tag == "IEND").map(|i| i.start) } else { items.iter().find(|i| i.manifest).map(|i| i.start + i.bytes.len()) };
        let Some(at) = at else { continue };
        let mut chunk = (s2.bytes.len() as u32).to_be_bytes().to_vec();
        chunk.extend_from_slice(b"caBX");
        chunk.extend_from_slice(&s2.bytes);
        let crc = crc32(&chunk[4..]);
        chunk.extend_from_slice(&crc.to_be_bytes());
        a.bytes.splice(at..at, chunk);
        a.desc.push_str("+2cai");
        let ops: Vec<Op> = match k % 3 {
            0 => vec![Op::Read, Op::Write(new.clone()), Op::Read, Op::Remove, Op::Read],
            1 => vec![Op::Read, Op::Remove, Op::Read, Op::Remove, Op::Read, Op::Loc, Op::BoxMap],
            _ => vec![Op::Loc, Op::BoxMap, Op::Write(new.clone()), Op::Loc, Op::BoxMap, Op::Read],
        };
        let steps = exec(&a, &ops);
        record(run, prop, &a, &steps);
        run.count("two_manifests_png_differential");
        let seen: Vec<String> = steps.iter().filter(|s| matches!(s.op, Op::Read)).map(|s| s.reply.split(':').nth(1).unwrap_or("").chars().take(4).collect()).collect();
        run.count(&format!("two_manifests_png_reads_{}", seen.join("_")));
    }
    // the Lean witness `C2pa.C07.pngTwoCai` (Props/C07.lean) replayed on the real handler
    {
        let hex = "89504e470d0a1a0a00000000494844520000000000000001636142580700000000000000016361425808000000000000000049454e4400000000";
        let a = Asset { family: Family::Png, fmt: "png", bytes: crate::common::unhex(hex), desc: "png-witness-pngTwoCai+2cai".into(), existing: None };
        let steps = exec(&a, &[Op::Read, Op::Write(lit_store(&[9])), Op::Read, Op::Remove, Op::Read, Op::BoxMap, Op::Loc]);
        record(run, prop, &a, &steps);
        run.count("two_manifests_png_witness_replay");
    }
    // PNG chunk types that are not ASCII letters (outside the PNG specification, so no property
    // oracle): the handler decodes the 4 type bytes with `String::from_utf8` — well-formed
    // multi-byte sequences are accepted, overlong / surrogate / truncated ones are an error.
    // Differential against the byte-exact model on every op.
    let names: [[u8; 4]; 8] = [
        [0xC3, 0xA9, 0x41, 0x42], // "éAB"
        [0x41, 0xE2, 0x82, 0xAC], // "A€"
        [0xF0, 0x9F, 0x98, 0x80], // one 4-byte scalar
        [0xC0, 0x80, 0x41, 0x42], // overlong
        [0xED, 0xA0, 0x80, 0x41], // surrogate
        [0xF4, 0x90, 0x80, 0x80], // > U+10FFFF
        [0x41, 0x42, 0x43, 0xC3], // truncated
        [0x80, 0x41, 0x42, 0x43], // stray continuation byte
    ];
    for (k, name) in names.iter().enumerate() {
        let mut r = rng.fork();
        let with = k % 2 == 1;
        let mut a = gen_png(&mut r, if with { Some(&s1) } else { None });
        let Some(items) = lex_png(&a.bytes) else { continue };
        let Some(at) = items.iter().find(|i| i.tag == "IEND").map(|i| i.start) else { continue };
        let data = r.bytes(5);
        let mut chunk = (data.len() as u32).to_be_bytes().to_vec();
        chunk.extend_from_slice(name);
        chunk.extend_from_slice(&data);
        let crc = crc32(&chunk[4..]);
        chunk.extend_from_slice(&crc.to_be_bytes());
        a.bytes.splice(at..at, chunk);
        a.desc.push_str("+utf8name");
        let steps = exec(&a, &[Op::BoxMap, Op::Read, Op::Write(new.clone()), Op::Read, Op::Loc, Op::BoxMap, Op::Remove, Op::Read]);
        record(run, prop, &a, &steps);
        run.count(&format!("png_non_ascii_chunk_type_{}", if steps[0].ok { "accepted" } else { "rejected" }));
    }
    // other containers: observation only
    let obs = |run: &mut Run, fmt: &'static str, bytes: Vec<u8>| {
        let r0 = op_read(fmt, &bytes);
        let tag = |r: &ReadRes| match r {
            ReadRes::Ok(v) if *v == s1.bytes => "first",
            ReadRes::Ok(v) if *v == s2.bytes => "second",
            ReadRes::Ok(v) if *v == new.bytes => "new",
            ReadRes::Ok(_) => "other",
            ReadRes::None => "none",
            ReadRes::Many => "many",
            ReadRes::Err(e) if is_panic(e) => "panic",
            ReadRes::Err(_) => "err",
        };
        let w = op_write(fmt, &bytes, &new.bytes);
        let rw = w.as_ref().map(|o| tag(&op_read(fmt, o)).to_string()).unwrap_or_else(|e| if is_panic(e) { "write-panic".into() } else { "write-err".into() });
        let d = op_remove(fmt, &bytes);
        let rd = d.as_ref().map(|o| tag(&op_read(fmt, o)).to_string()).unwrap_or_else(|e| if is_panic(e) { "remove-panic".into() } else { "remove-err".into() });
        run.count(&format!("two_manifests_{fmt}_read_{}_afterwrite_{rw}_afterremove_{rd}", tag(&r0)));
    };
    let mut r = rng.fork();
    // JPEG: two APP11 runs with different box instance numbers
    let j = gen_jpeg(&mut r, Some(&s1));
    if let Some(items) = lex_jpeg(&j.bytes) {
        if let Some(m) = items.iter().filter(|i| i.manifest).last() {
            let at = m.start + m.bytes.len();
            let mut b = j.bytes.clone();
            let extra: Vec<u8> = jpeg_c2pa_segments(&s2.bytes, [0x02, 0x12], 64000).concat();
            b.splice(at..at, extra);
            obs(run, "jpg", b);
        }
    }
    let g = gen_gif(&mut r, Some(&s1));
    if let Some(items) = lex_gif(&g.bytes) {
        if let Some(m) = items.iter().find(|i| i.manifest) {
            let at = m.start + m.bytes.len();
            let mut b = g.bytes.clone();
            b.splice(at..at, gif_c2pa_block(&s2.bytes));
            obs(run, "gif", b);
        }
    }
    let w = gen_riff_kind(&mut r, Some(&s1), 0);
    {
        let mut b = w.bytes.clone();
        let extra = riff_chunk(b"C2PA", &s2.bytes);
        let n = u32::from_le_bytes([b[4], b[5], b[6], b[7]]) as usize;
        let end = (8 + n).min(b.len());
        b.splice(end..end, extra.clone());
        let n2 = (n + extra.len()) as u32;
        b[4..8].copy_from_slice(&n2.to_le_bytes());
        obs(run, "wav", b);
    }
    let m = crate::embed_lex2::gen_mp4(&mut r, Some(&s1), 3, false);
    {
        let mut b = m.bytes.clone();
        b.extend_from_slice(&crate::embed_lex2::bmff_c2pa_box(&s2.bytes));
        obs(run, "mp4", b);
    }
    let x = crate::embed_lex3::gen_jxl(&mut r, Some(&s1));
    {
        let mut b = x.bytes.clone();
        if !x.desc.contains("size0") {
            b.extend_from_slice(&s2.bytes);
            obs(run, "jxl", b);
        }
    }
}

/// C12 on structurally mutated inputs: truncation, corrupted length fields, deleted ranges,
/// duplicated items, overwritten bytes. `get_box_map` may refuse; a map it returns must be
/// ordered, non-overlapping and inside the file.
pub fn mutated_boxmap_cases(run: &mut Run, rng: &mut Rng, thorough: bool) {
    let n = if thorough { 4000 } else { 600 };
    let fams = [Family::Png, Family::Jpeg, Family::Gif, Family::Jxl];
    for i in 0..n {
        let mut r = rng.fork();
        let fam = fams[i % fams.len()];
        let ex = gen_store(40 + (i % 50), 41);
        let with = r.chance(1, 2);
        let mut a = gen_asset(fam, &mut r, if with { Some(&ex) } else { None });
        let items = lex(fam, &a.bytes).unwrap_or_default();
        let starts: Vec<usize> = items.iter().map(|i| i.start).collect();
        let len_field = |r: &mut Rng, st: usize| -> usize {
            st + match fam {
                Family::Jpeg => 2 + r.below(2) as usize,
                Family::Gif => r.below(16) as usize,
                // PNG / JXL: the 32-bit length leads the chunk / box (JXL: or the largesize field)
                _ => {
                    if fam == Family::Jxl && r.chance(1, 4) {
                        8 + r.below(8) as usize
                    } else {
                        r.below(4) as usize
                    }
                }
            }
        };
        let kind = r.below(6);
        match kind {
            0 => {
                let cut = r.below(a.bytes.len() as u64) as usize;
                a.bytes.truncate(cut);
            }
            1 | 2 => {
                if let Some(st) = starts.get(r.below(starts.len().max(1) as u64) as usize) {
                    let pos = len_field(&mut r, *st);
                    if pos < a.bytes.len() {
                        a.bytes[pos] = *r.pick(&[0u8, 1, 2, 7, 8, 0x7f, 0xff, 0xfe, 0x40]);
                    }
                }
            }
            3 => {
                let from = r.below(a.bytes.len() as u64) as usize;
                let k = r.range(1, 40) as usize;
                let to = (from + k).min(a.bytes.len());
                a.bytes.drain(from..to);
            }
            4 => {
                if let Some(it) = items.get(r.below(items.len().max(1) as u64) as usize) {
                    let raw = a.bytes[it.start..(it.start + it.bytes.len()).min(a.bytes.len())].to_vec();
                    let at = it.start;
                    a.bytes.splice(at..at, raw);
                }
            }
            _ => {
                let pos = r.below(a.bytes.len() as u64) as usize;
                a.bytes[pos] = r.below(0x80) as u8;
            }
        }
        a.desc = format!("{}+MUTATED{kind}", a.desc.split('+').next().unwrap_or(""));
        a.existing = None;
        let steps = exec(&a, &[Op::BoxMap]);
        // oracle-only: the byte-exact models cover well-formed inputs of their own generator
        let idx = run.case(format!("C12 abs fmt={} init=- ops=b", a.fmt), "b".to_string());
        run.count(&format!("mutated_kind{kind}_{}", a.fmt));
        if steps[0].ok {
            run.nontrivial(format!("mutated {} kind{kind} ok {i}", a.fmt));
        }
        let mut cx = Ctx { run, prop: "C12", idx, tiff_legacy: false };
        check_box_map(&mut cx, &a, &a.bytes, &format!("[{}] mutated input", a.desc));
    }
}
