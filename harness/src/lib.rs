//! vh — correspondence harness library: shared plumbing for the per-property drivers
//! in src/bin/. Each driver runs the real c2pa-rs code in-process and writes the request
//! stream for the Lean model driver plus the implementation's replies.
#![allow(dead_code)]
pub mod common;
pub mod sign;
pub mod embed_common;
pub mod embed_lex2;
pub mod embed_lex3;
pub mod embed_heif;
pub mod embed_frag;
pub mod embed_oracle;
