//! Helpers to produce signed assets in-process (used by several property drivers).

use std::io::Cursor;

use c2pa::{Builder, Context, EphemeralSigner};

/// Small unsigned source assets, one per writable container family:
/// (format string, fixture file name).
pub fn unsigned_sources() -> Vec<(&'static str, &'static str)> {
    vec![
        ("image/jpeg", "IMG_0003.jpg"),
        ("image/png", "libpng-test.png"),
        ("image/webp", "test.webp"),
        ("image/tiff", "TUSCANY.TIF"),
        ("image/svg+xml", "sample1.svg"),
        ("image/gif", "sample1.gif"),
        ("audio/mpeg", "sample1.mp3"),
        ("audio/wav", "sample1.wav"),
        ("video/mp4", "video1_no_manifest.mp4"),
        ("image/avif", "sample1.avif"),
        ("image/heic", "sample1.heic"),
        ("audio/flac", "sample1.flac"),
        ("image/jxl", "sample1.jxl"),
    ]
}

pub fn definition(title: &str, format: &str) -> String {
    serde_json::json!({
        "title": title,
        "format": format,
        "claim_generator_info": [{"name": "verif-harness", "version": "0.1"}],
        "assertions": [
            {"label": "c2pa.actions", "data": {"actions": [{"action": "c2pa.created", "digitalSourceType": "http://cv.iptc.org/newscodes/digitalsourcetype/digitalCapture"}]}}
        ]
    })
    .to_string()
}

/// Sign `src` (of `format`) with an ephemeral Ed25519 signer; `settings` is an optional JSON
/// settings overlay. Returns the signed asset bytes.
pub fn sign_asset(format: &str, src: &[u8], settings: Option<&str>) -> c2pa::Result<Vec<u8>> {
    let signer = EphemeralSigner::new("verif.test")?;
    let mut ctx = Context::new();
    if let Some(s) = settings {
        ctx = ctx.with_settings(s)?;
    }
    let ctx = ctx.with_signer(signer);
    let mut builder = Builder::from_context(ctx).with_definition(definition("verif asset", format).as_str())?;
    let mut input = Cursor::new(src.to_vec());
    let mut output = Cursor::new(Vec::new());
    builder.save_to_stream(format, &mut input, &mut output)?;
    Ok(output.into_inner())
}
