//! C13 — range hashing equals the digest of exactly the selected bytes.
//!
//! Request line (see lean/C2paModel/Model/C13.lean):
//!   C13 hash mode=<excl|incl> alg=<name> buf=<n> cancel=<-|k> ranges=<none|-|s:l:o,…> data=<hex|->
//!     ranges: `none` = `hash_range: None`, `-` = `Some(vec![])`, entries `start:length:offset`
//!     with `-` for "no bmff offset"; decimal u64.
//!     cancel=k: the progress callback returns Err(OperationCancelled) at its k-th call.
//!     optional `env=nospawn`: the run happens in a process in which every
//!     `std::thread::Builder::spawn` fails (RUST_MIN_STACK larger than the address space).
//! Reply:
//!   ok sel=<hex of the bytes fed to the hasher> prog=<progress>
//!   err <class> prog=<progress>
//!   panic
//!   progress = `n@t` when the callback saw (1,t),(2,t),…,(n,t) (`0@0` for no call), else `s/t,s/t,…`.
//!
//! The implementation only returns a digest. The impl reply is produced like this: the
//! harness evaluates its own position-wise specification of the selected bytes (`spec`,
//! the property oracle, independent of the Lean model), hashes it with the one-shot sha2
//! API and compares with the implementation digest. Equal: the reply is `ok sel=<spec>`.
//! Not equal: a small family of candidate byte strings is tried to describe what was
//! hashed (reply `ok sel=<candidate>` or `ok digest=<hex> unexplained`) and an oracle
//! failure is recorded, keyed by the kind of input.

use std::{io::Cursor, num::NonZeroUsize};

use c2pa::{Error, HashRange};
use sha2::{Digest, Sha256, Sha384, Sha512};
use vh::common::{guarded, hex, main_with, Rng, Run};

fn main() {
    if std::env::args().nth(1).as_deref() == Some("nospawn-child") {
        nospawn_child();
        return;
    }
    main_with("C13", run);
}

fn prog_raw(p: &[(u32, u32)]) -> String {
    if p.is_empty() {
        "-".to_string()
    } else {
        p.iter().map(|(s, t)| format!("{s}/{t}")).collect::<Vec<_>>().join(",")
    }
}

fn parse_prog_raw(s: &str) -> Vec<(u32, u32)> {
    if s == "-" {
        return vec![];
    }
    s.split(',')
        .map(|e| {
            let (a, b) = e.split_once('/').expect("s/t");
            (a.parse().expect("step"), b.parse().expect("total"))
        })
        .collect()
}

/// Child process started with RUST_MIN_STACK larger than the address space, so that every
/// `std::thread::Builder::spawn` (which takes its default stack size from that variable)
/// fails in `pthread_create`. Reads request lines on stdin, runs the real code on each and
/// prints `ok <digest> <prog>` | `err <class> <prog>` | `panic`.
fn nospawn_child() {
    use std::io::BufRead;
    std::panic::set_hook(Box::new(|_| {}));
    let spawn_fails = std::thread::Builder::new().spawn(|| {}).is_err();
    println!("selftest spawn_fails={spawn_fails}");
    for line in std::io::stdin().lock().lines() {
        let line = line.expect("stdin");
        let c = Case::parse(&line).expect("request line");
        let (out, prog) = run_impl(&c, c.buf);
        match out {
            ImplOut::Ok(d) => println!("ok {} {}", hex(&d), prog_raw(&prog)),
            ImplOut::Err(cl) => println!("err {cl} {}", prog_raw(&prog)),
            ImplOut::Panic(_) => println!("panic"),
        }
    }
}

fn static_class(cl: &str) -> &'static str {
    match cl {
        "unsupported" => "unsupported",
        "nodata" => "nodata",
        "badparam" => "badparam",
        "io" => "io",
        "cancelled" => "cancelled",
        "thread" => "thread",
        _ => "other",
    }
}

/// Run `cases` in the no-spawn child and judge each result.
fn nospawn_batch(run: &mut Run, cases: &[Case]) {
    use std::process::{Command, Stdio};
    let dir = vh::common::scratch("c13-nospawn");
    let input = dir.join("reqs.txt");
    let text: String = cases.iter().map(|c| c.req() + "\n").collect();
    std::fs::write(&input, text).expect("write requests");
    let exe = std::env::current_exe().expect("current_exe");
    let outp = Command::new(exe)
        .arg("nospawn-child")
        .env("RUST_MIN_STACK", (1u64 << 50).to_string())
        .stdin(Stdio::from(std::fs::File::open(&input).expect("open requests")))
        .stderr(Stdio::null())
        .output()
        .expect("start child");
    let _ = std::fs::remove_dir_all(&dir);
    let stdout = String::from_utf8_lossy(&outp.stdout).to_string();
    let mut lines = stdout.lines();
    let selftest = lines.next().unwrap_or("");
    run.obligations.insert(
        "env:nospawn-child-cannot-create-threads".to_string(),
        selftest == "selftest spawn_fails=true",
    );
    let replies: Vec<&str> = lines.collect();
    // the child must survive every case (a failed spawn must not abort the process)
    run.obligations.insert(
        "env:nospawn-child-completed-all-cases".to_string(),
        outp.status.success() && replies.len() == cases.len(),
    );
    for (c, r) in cases.iter().zip(replies.iter()) {
        let f: Vec<&str> = r.split(' ').collect();
        let (out, prog) = match f[0] {
            "ok" => (ImplOut::Ok(vh::common::unhex(f[1])), parse_prog_raw(f[2])),
            "err" => (ImplOut::Err(static_class(f[1])), parse_prog_raw(f[2])),
            _ => (ImplOut::Panic("panic in the no-spawn child".to_string()), vec![]),
        };
        judge(run, c, out, prog, Mode::NoSpawn);
    }
}

#[derive(Clone, Debug, PartialEq, Eq, PartialOrd, Ord)]
struct Ent {
    start: u64,
    len: u64,
    off: Option<u64>,
}

#[derive(Clone, Debug)]
struct Case {
    excl: bool,
    alg: String,
    buf: usize,
    cancel: Option<u32>,
    ranges: Option<Vec<Ent>>,
    data: Vec<u8>,
    /// run in the child process in which thread creation fails
    nospawn: bool,
}

impl Case {
    fn req(&self) -> String {
        let ranges = match &self.ranges {
            None => "none".to_string(),
            Some(v) if v.is_empty() => "-".to_string(),
            Some(v) => v
                .iter()
                .map(|e| {
                    format!(
                        "{}:{}:{}",
                        e.start,
                        e.len,
                        e.off.map(|o| o.to_string()).unwrap_or_else(|| "-".to_string())
                    )
                })
                .collect::<Vec<_>>()
                .join(","),
        };
        format!(
            "C13 hash mode={} alg={} buf={} cancel={} ranges={} data={}{}",
            if self.excl { "excl" } else { "incl" },
            self.alg,
            self.buf,
            self.cancel.map(|k| k.to_string()).unwrap_or_else(|| "-".to_string()),
            ranges,
            hex(&self.data),
            if self.nospawn { " env=nospawn" } else { "" }
        )
    }

    /// inverse of `req` (used by the no-spawn child process)
    fn parse(line: &str) -> Option<Case> {
        let toks: Vec<&str> = line.split(' ').collect();
        let get = |k: &str| -> Option<&str> {
            let pre = format!("{k}=");
            toks.iter().find_map(|t| t.strip_prefix(pre.as_str()))
        };
        let ranges = match get("ranges")? {
            "none" => None,
            "-" => Some(vec![]),
            r => Some(
                r.split(',')
                    .map(|e| {
                        let f: Vec<&str> = e.split(':').collect();
                        Ent {
                            start: f[0].parse().unwrap(),
                            len: f[1].parse().unwrap(),
                            off: if f[2] == "-" { None } else { Some(f[2].parse().unwrap()) },
                        }
                    })
                    .collect(),
            ),
        };
        Some(Case {
            excl: get("mode")? == "excl",
            alg: get("alg")?.to_string(),
            buf: get("buf")?.parse().ok()?,
            cancel: match get("cancel")? {
                "-" => None,
                k => Some(k.parse().ok()?),
            },
            ranges,
            data: vh::common::unhex(get("data")?),
            nospawn: get("env") == Some("nospawn"),
        })
    }

    fn hash_ranges(&self) -> Option<Vec<HashRange>> {
        self.ranges.as_ref().map(|v| {
            v.iter()
                .map(|e| {
                    let mut h = HashRange::new(e.start, e.len);
                    if let Some(o) = e.off {
                        h.set_bmff_offset(o);
                    }
                    h
                })
                .collect()
        })
    }
}

fn err_class(e: &Error) -> &'static str {
    match e {
        Error::UnsupportedType => "unsupported",
        Error::OtherError(_) => "nodata",
        Error::BadParam(_) => "badparam",
        Error::IoError(_) => "io",
        Error::OperationCancelled => "cancelled",
        Error::ThreadReceiveError => "thread",
        _ => "other",
    }
}

enum ImplOut {
    Ok(Vec<u8>),
    Err(&'static str),
    Panic(String),
}

/// How the stream perturbs the thread schedule of the read-ahead pipeline.
#[derive(Clone, Copy, Debug, PartialEq)]
enum Sched {
    /// plain `Cursor`
    Plain,
    /// every `read` first sleeps this many microseconds: the worker thread finishes hashing
    /// chunk i (and has sent the hasher back) before the main thread has read chunk i+1
    SlowRead(u64),
    /// every `read` first yields the time slice a few times
    YieldRead(u32),
}

/// `Cursor` whose `read` is delayed (schedule perturbation at the `Read` boundary).
struct SchedCursor {
    inner: Cursor<Vec<u8>>,
    sched: Sched,
    reads: usize,
}

impl std::io::Read for SchedCursor {
    fn read(&mut self, buf: &mut [u8]) -> std::io::Result<usize> {
        self.reads += 1;
        match self.sched {
            Sched::Plain => {}
            Sched::SlowRead(us) => std::thread::sleep(std::time::Duration::from_micros(us)),
            Sched::YieldRead(k) => {
                for _ in 0..k {
                    std::thread::yield_now();
                }
            }
        }
        self.inner.read(buf)
    }
}

impl std::io::Seek for SchedCursor {
    fn seek(&mut self, pos: std::io::SeekFrom) -> std::io::Result<u64> {
        self.inner.seek(pos)
    }
}

/// Run the real code (hook = private impl with caller-chosen max_hash_buf).
fn run_impl(c: &Case, buf: usize) -> (ImplOut, Vec<(u32, u32)>) {
    run_impl_sched(c, buf, Sched::Plain)
}

fn run_impl_sched(c: &Case, buf: usize, sched: Sched) -> (ImplOut, Vec<(u32, u32)>) {
    if sched == Sched::Plain {
        return run_impl_plain(c, buf);
    }
    let data = c.data.clone();
    let hr = c.hash_ranges();
    let alg = c.alg.clone();
    let excl = c.excl;
    let cancel = c.cancel;
    let r = guarded(move || {
        let mut seen: Vec<(u32, u32)> = vec![];
        let mut cur = SchedCursor { inner: Cursor::new(data), sched, reads: 0 };
        let res = {
            let mut cb = |s: u32, t: u32| {
                seen.push((s, t));
                if Some(seen.len() as u32) == cancel {
                    Err(Error::OperationCancelled)
                } else {
                    Ok(())
                }
            };
            c2pa::verif_hooks::c13::hash_stream_with_buf(
                &alg,
                &mut cur,
                hr,
                excl,
                &mut cb,
                NonZeroUsize::new(buf).expect("buf >= 1"),
            )
        };
        (res.map_err(|e| err_class(&e)), seen)
    });
    match r {
        Ok((Ok(d), seen)) => (ImplOut::Ok(d), seen),
        Ok((Err(cl), seen)) => (ImplOut::Err(cl), seen),
        Err(msg) => (ImplOut::Panic(msg), vec![]),
    }
}

fn run_impl_plain(c: &Case, buf: usize) -> (ImplOut, Vec<(u32, u32)>) {
    let data = c.data.clone();
    let hr = c.hash_ranges();
    let alg = c.alg.clone();
    let excl = c.excl;
    let cancel = c.cancel;
    let r = guarded(move || {
        let mut seen: Vec<(u32, u32)> = vec![];
        let mut cur = Cursor::new(data);
        let res = {
            let mut cb = |s: u32, t: u32| {
                seen.push((s, t));
                if Some(seen.len() as u32) == cancel {
                    Err(Error::OperationCancelled)
                } else {
                    Ok(())
                }
            };
            c2pa::verif_hooks::c13::hash_stream_with_buf(
                &alg,
                &mut cur,
                hr,
                excl,
                &mut cb,
                NonZeroUsize::new(buf).expect("buf >= 1"),
            )
        };
        (res.map_err(|e| err_class(&e)), seen)
    });
    match r {
        Ok((Ok(d), seen)) => (ImplOut::Ok(d), seen),
        Ok((Err(cl), seen)) => (ImplOut::Err(cl), seen),
        Err(msg) => (ImplOut::Panic(msg), vec![]),
    }
}

fn run_public(c: &Case) -> ImplOut {
    let data = c.data.clone();
    let hr = c.hash_ranges();
    let alg = c.alg.clone();
    let excl = c.excl;
    match guarded(move || {
        let mut cur = Cursor::new(data);
        c2pa::hash_stream_by_alg(&alg, &mut cur, hr, excl).map_err(|e| err_class(&e))
    }) {
        Ok(Ok(d)) => ImplOut::Ok(d),
        Ok(Err(cl)) => ImplOut::Err(cl),
        Err(m) => ImplOut::Panic(m),
    }
}

fn digest(alg: &str, b: &[u8]) -> Option<Vec<u8>> {
    match alg {
        "sha256" => Some(Sha256::digest(b).to_vec()),
        "sha384" => Some(Sha384::digest(b).to_vec()),
        "sha512" => Some(Sha512::digest(b).to_vec()),
        _ => None,
    }
}

fn prog_str(p: &[(u32, u32)]) -> String {
    if p.is_empty() {
        return "0@0".to_string();
    }
    let t = p[0].1;
    if p.iter().enumerate().all(|(i, (s, tt))| *s as usize == i + 1 && *tt == t) {
        format!("{}@{}", p.len(), t)
    } else {
        p.iter().map(|(s, t)| format!("{s}/{t}")).collect::<Vec<_>>().join(",")
    }
}

// ---------------------------------------------------------------------------------------
// The property oracle: position-wise specification of the selected bytes.

struct Spec {
    /// some range with length > 0 reaches past the end of the data: must be rejected
    must_reject: bool,
    /// the past-end range is not the one with the largest start (F1 input kind)
    nonlast_past_end: bool,
    /// an entry the statement does not speak about reaches past the end (empty range,
    /// marker entry of an exclusion list): either outcome accepted
    may_reject: bool,
    /// selected bytes (positions beyond the data are simply absent); every marker offset
    /// inside the stream contributes at its position (the statement's unconditional reading)
    bytes: Vec<u8>,
    /// the same, but a marker on an excluded position contributes only strictly between the
    /// first and the last hashed byte (the rule the code implements)
    span_bytes: Vec<u8>,
    /// some marker sits on an excluded position outside the hashed span (the two differ)
    marker_outside_span: bool,
    /// a one-byte piece of an included run starts at a marker offset, i.e. a marker sits on
    /// the last byte of an included run (F2 input kind)
    one_byte_run_at_marker: bool,
    has_markers: bool,
    dup_markers: bool,
}

fn covers(e: &Ent, p: u64) -> bool {
    e.len > 0 && p >= e.start && (p as u128) < e.start as u128 + e.len as u128
}

fn past_end(e: &Ent, n: u64) -> bool {
    e.start as u128 + e.len as u128 > n as u128
}

fn spec(c: &Case) -> Spec {
    let n = c.data.len() as u64;
    let ents: Vec<Ent> = c.ranges.clone().unwrap_or_default();
    let mut s = Spec {
        must_reject: false,
        nonlast_past_end: false,
        may_reject: false,
        bytes: vec![],
        span_bytes: vec![],
        marker_outside_span: false,
        one_byte_run_at_marker: false,
        has_markers: false,
        dup_markers: false,
    };
    // which entries are ranges in the sense of the statement
    let is_range = |e: &Ent| if c.excl { e.off.is_none() } else { true };
    for e in &ents {
        if past_end(e, n) {
            if is_range(e) && e.len > 0 {
                s.must_reject = true;
            } else {
                s.may_reject = true;
            }
        }
    }
    // F1 input kind: the entry that comes last in start order is itself fine
    let mut by_start: Vec<&Ent> = ents.iter().collect();
    by_start.sort_by_key(|e| e.start);
    s.nonlast_past_end = s.must_reject && by_start.last().map(|e| !past_end(e, n)).unwrap_or(false);
    if c.excl {
        let markers: Vec<u64> = ents.iter().filter_map(|e| e.off).collect();
        s.has_markers = !markers.is_empty();
        let excluded = |p: u64| ents.iter().any(|e| e.off.is_none() && covers(e, p));
        let inc: Vec<bool> = (0..n).map(|p| !excluded(p)).collect();
        let first = inc.iter().position(|b| *b);
        let last = inc.iter().rposition(|b| *b);
        // hashed span: strictly between the first and the last included byte; when no
        // byte is included the span is the whole stream (strictly inside)
        let (lo, hi) = match (first, last) {
            (Some(f), Some(l)) => (f as u64, l as u64),
            _ => (0, n.saturating_sub(1)),
        };
        for p in 0..n {
            let cnt = markers.iter().filter(|m| **m == p).count();
            if cnt > 1 {
                s.dup_markers = true;
            }
            if cnt > 0 {
                // statement: the marker contributes at its position (duplicates on an excluded
                // position count once: no caller passes duplicates, the statement is silent)
                let copies = if inc[p as usize] { cnt } else { 1 };
                // code: on an excluded position only strictly inside the hashed span
                let span_copies = if inc[p as usize] {
                    cnt
                } else if lo < p && p < hi {
                    1
                } else {
                    0
                };
                if span_copies != copies {
                    s.marker_outside_span = true;
                }
                for _ in 0..copies {
                    s.bytes.extend_from_slice(&p.to_be_bytes());
                }
                for _ in 0..span_copies {
                    s.span_bytes.extend_from_slice(&p.to_be_bytes());
                }
                // the piece that starts at the marker is one byte long (the marker sits on
                // the last byte of an included run)
                let run_of_one = inc[p as usize] && (p + 1 == n || !inc[p as usize + 1]);
                if run_of_one {
                    s.one_byte_run_at_marker = true;
                }
            }
            if inc[p as usize] {
                s.bytes.push(c.data[p as usize]);
                s.span_bytes.push(c.data[p as usize]);
            }
        }
    } else {
        // inclusion: entries in start order (stable), empty ones contribute nothing,
        // an entry's marker goes immediately before its bytes
        let mut sorted: Vec<&Ent> = ents.iter().collect();
        sorted.sort_by_key(|e| e.start);
        let offs: Vec<u64> = ents.iter().filter(|e| e.len > 0).filter_map(|e| e.off).collect();
        s.has_markers = !offs.is_empty();
        for e in sorted {
            if e.len == 0 {
                continue;
            }
            if let Some(o) = e.off {
                s.bytes.extend_from_slice(&o.to_be_bytes());
            }
            if e.len == 1 && offs.contains(&e.start) {
                s.one_byte_run_at_marker = true;
            }
            let a = e.start.min(n) as usize;
            let b = (e.start as u128 + e.len as u128).min(n as u128) as usize;
            s.bytes.extend_from_slice(&c.data[a..b]);
        }
    }
    if c.ranges.as_ref().map(|v| v.is_empty()).unwrap_or(true) {
        s.bytes = c.data.clone();
    }
    if !c.excl || !s.marker_outside_span {
        s.span_bytes = s.bytes.clone();
    }
    s
}

/// Candidate explanations of a digest that is not the digest of the specification.
fn candidates(c: &Case) -> Vec<(&'static str, Vec<u8>)> {
    let n = c.data.len() as u64;
    let ents: Vec<Ent> = c.ranges.clone().unwrap_or_default();
    let mut out: Vec<(&'static str, Vec<u8>)> = vec![];
    out.push(("whole-stream", c.data.clone()));
    out.push(("nothing", vec![]));
    if c.excl {
        let markers: Vec<u64> = ents.iter().filter_map(|e| e.off).collect();
        let excluded = |p: u64| ents.iter().any(|e| e.off.is_none() && covers(e, p));
        let inc: Vec<bool> = (0..n).map(|p| !excluded(p)).collect();
        let mut plain = vec![];
        let mut allm = vec![];
        let mut second_marker = vec![];
        for p in 0..n {
            let cnt = markers.iter().filter(|m| **m == p).count();
            for _ in 0..cnt {
                allm.extend_from_slice(&p.to_be_bytes());
            }
            let run_of_one = inc[p as usize] && (p + 1 == n || !inc[p as usize + 1]);
            if inc[p as usize] {
                plain.push(c.data[p as usize]);
                allm.push(c.data[p as usize]);
            }
            if inc[p as usize] {
                for _ in 0..cnt {
                    second_marker.extend_from_slice(&p.to_be_bytes());
                }
                if cnt > 0 && run_of_one {
                    second_marker.extend_from_slice(&p.to_be_bytes());
                } else {
                    second_marker.push(c.data[p as usize]);
                }
            } else if cnt > 0 {
                // gap markers as in the specification are not reproduced here
            }
        }
        out.push(("markers-ignored", plain));
        out.push(("all-markers", allm));
        out.push(("one-byte-run-as-marker", second_marker));
    } else {
        let mut sorted: Vec<&Ent> = ents.iter().collect();
        sorted.sort_by_key(|e| e.start);
        let offs: Vec<u64> = ents.iter().filter(|e| e.len > 0).filter_map(|e| e.off).collect();
        let mut plain = vec![];
        let mut second_marker = vec![];
        let mut unsorted = vec![];
        for e in &sorted {
            if e.len == 0 {
                continue;
            }
            let a = e.start.min(n) as usize;
            let b = (e.start as u128 + e.len as u128).min(n as u128) as usize;
            plain.extend_from_slice(&c.data[a..b]);
            if let Some(o) = e.off {
                second_marker.extend_from_slice(&o.to_be_bytes());
            }
            if e.len == 1 && offs.contains(&e.start) {
                second_marker.extend_from_slice(&e.start.to_be_bytes());
            } else {
                second_marker.extend_from_slice(&c.data[a..b]);
            }
        }
        for e in &ents {
            if e.len == 0 {
                continue;
            }
            if let Some(o) = e.off {
                unsorted.extend_from_slice(&o.to_be_bytes());
            }
            let a = e.start.min(n) as usize;
            let b = (e.start as u128 + e.len as u128).min(n as u128) as usize;
            unsorted.extend_from_slice(&c.data[a..b]);
        }
        out.push(("markers-ignored", plain));
        out.push(("one-byte-run-as-marker", second_marker));
        out.push(("input-order", unsorted));
    }
    out
}

// ---------------------------------------------------------------------------------------

/// which extra comparisons a case gets
#[derive(Clone, Copy, PartialEq)]
enum Mode {
    /// other chunk sizes + the public entry point
    Full,
    /// the result was produced with a schedule-perturbing stream: compare with the plain run
    Sched(Sched),
    /// the result was produced in the process in which thread creation fails
    NoSpawn,
}

fn one(run: &mut Run, c: &Case) {
    let (out, prog) = run_impl(c, c.buf);
    judge(run, c, out, prog, Mode::Full);
}

fn judge(run: &mut Run, c: &Case, out: ImplOut, prog: Vec<(u32, u32)>, mode: Mode) {
    let req = c.req();
    let sp = spec(c);
    let alg_ok = digest(&c.alg, b"").is_some();
    let mut fails: Vec<(&'static str, String)> = vec![];
    // a digest was returned and it is the digest of the empty string
    let hashed_nothing = match &out {
        ImplOut::Ok(d) => digest(&c.alg, b"").as_deref() == Some(d.as_slice()),
        _ => false,
    };
    let line = match &out {
        ImplOut::Panic(m) => {
            fails.push(("panic", format!("implementation panicked: {m}")));
            "panic".to_string()
        }
        ImplOut::Err(cl) => {
            let expected_ok = alg_ok
                && !c.data.is_empty()
                && !sp.must_reject
                && !sp.may_reject
                && c.cancel.map(|k| k as usize > prog.len()).unwrap_or(true)
                // no worker threads: a range longer than one chunk cannot be hashed
                && !(mode == Mode::NoSpawn && *cl == "io" && c.buf < c.data.len());
            if expected_ok {
                fails.push((
                    "spurious-error",
                    format!("error class {cl} although every range lies inside the data"),
                ));
            }
            format!("err {cl} prog={}", prog_str(&prog))
        }
        ImplOut::Ok(d) => {
            if sp.must_reject {
                fails.push((
                    if sp.nonlast_past_end { "nonlast-range-past-end" } else { "range-past-end-accepted" },
                    "a range reaches past the end of the data but a digest was returned".to_string(),
                ));
            }
            if digest(&c.alg, &sp.bytes).as_deref() == Some(d.as_slice()) {
                format!("ok sel={} prog={}", hex(&sp.bytes), prog_str(&prog))
            } else if sp.marker_outside_span
                && digest(&c.alg, &sp.span_bytes).as_deref() == Some(d.as_slice())
            {
                // everything is as the statement says except that a marker on an excluded
                // position outside the hashed span was not hashed
                fails.push((
                    "marker-outside-span-dropped",
                    "a BMFF offset marker on an excluded position that is not strictly between the first and the last hashed byte does not contribute its offset".to_string(),
                ));
                format!("ok sel={} prog={}", hex(&sp.span_bytes), prog_str(&prog))
            } else {
                let class = if sp.one_byte_run_at_marker {
                    "one-byte-run-at-marker"
                } else if sp.has_markers {
                    "marker-bytes"
                } else if c.excl {
                    "exclusion-bytes"
                } else {
                    "inclusion-bytes"
                };
                let found = candidates(c)
                    .into_iter()
                    .find(|(_, b)| digest(&c.alg, b).as_deref() == Some(d.as_slice()));
                match found {
                    Some((name, b)) => {
                        fails.push((
                            class,
                            format!("digest is not the digest of the selected bytes; it is the digest of `{name}`"),
                        ));
                        format!("ok sel={} prog={}", hex(&b), prog_str(&prog))
                    }
                    None => {
                        fails.push((class, "digest is not the digest of the selected bytes".to_string()));
                        format!("ok digest={} unexplained prog={}", hex(d), prog_str(&prog))
                    }
                }
            }
        }
    };

    // progress well-formedness (observed directly)
    if !prog.is_empty() {
        let t = prog[0].1;
        let wf = prog.iter().enumerate().all(|(i, (s, tt))| *s as usize == i + 1 && *tt == t && *s <= t);
        let complete = !matches!(out, ImplOut::Ok(_)) || prog.len() as u32 == t;
        if !wf || !complete {
            fails.push(("progress-malformed", format!("progress sequence {}", prog_str(&prog))));
        }
    } else if matches!(out, ImplOut::Ok(_)) && !hashed_nothing {
        fails.push(("progress-malformed", "no progress call although bytes were hashed".to_string()));
    }

    // chunk-size / schedule independence (observed directly): other buffer sizes and the
    // public entry point give the same answer
    if let Mode::Sched(sched) = mode {
        let (o2, p2) = run_impl(c, c.buf);
        if !same(&out, &o2) || prog != p2 {
            fails.push((
                "schedule-dependent",
                format!("the result with the stream perturbation {sched:?} differs from the plain run"),
            ));
        }
        run.count("schedule_perturbed");
    }
    if mode == Mode::NoSpawn {
        // property: a failed thread creation is an error result (or irrelevant), never a
        // panic or a different digest
        let (o2, _) = run_impl(c, c.buf);
        let io = matches!(out, ImplOut::Err("io"));
        if !(same(&out, &o2) || io) || (c.buf >= c.data.len() && !same(&out, &o2)) {
            fails.push((
                "spawn-failure-changes-result",
                "with thread creation failing the result is neither the ordinary result nor an I/O error".to_string(),
            ));
        }
        run.count(if io { "nospawn_io_error" } else { "nospawn_same_result" });
    }
    if mode == Mode::Full && c.cancel.is_none() {
        let n = c.data.len().max(1);
        // (every non-final chunk costs one thread spawn: keep the chunk count small on long streams)
        let mut alts: Vec<usize> = if n <= 12 {
            vec![1, n, 2]
        } else if n <= 24 {
            vec![n.div_ceil(4), n]
        } else {
            vec![n.div_ceil(3), n + 1]
        };
        alts.retain(|b| *b != c.buf);
        alts.dedup();
        for b in alts {
            let (o2, _) = run_impl(c, b);
            if !same(&out, &o2) {
                fails.push(("chunk-size-dependent", format!("max_hash_buf {} and {} give different results", c.buf, b)));
                break;
            }
        }
        if !same(&out, &run_public(c)) {
            fails.push(("chunk-size-dependent", "public hash_stream_by_alg differs from the hook result".to_string()));
        }
    }

    // statistics
    run.count(if c.excl { "mode_excl" } else { "mode_incl" });
    run.count(match &out {
        ImplOut::Ok(_) => "out_ok",
        ImplOut::Err(_) => "out_err",
        ImplOut::Panic(_) => "out_panic",
    });
    run.count(&format!("nranges_{}", c.ranges.as_ref().map(|v| v.len().min(7)).unwrap_or(0)));
    run.count(&format!(
        "len_{}",
        match c.data.len() {
            0 => "0",
            1..=8 => "1-8",
            9..=64 => "9-64",
            65..=512 => "65-512",
            _ => "513-4096",
        }
    ));
    run.count(&format!(
        "buf_{}",
        if c.buf == 1 {
            "1"
        } else if c.buf < c.data.len() {
            "lt_len"
        } else {
            "ge_len"
        }
    ));
    if sp.has_markers {
        run.count("with_markers");
    }
    if sp.dup_markers {
        run.count("with_duplicate_markers");
    }
    if sp.one_byte_run_at_marker {
        run.count("one_byte_run_at_marker");
    }
    if sp.must_reject {
        run.count("past_end");
    }
    if c.cancel.is_some() {
        run.count("with_cancel");
    }
    if matches!(out, ImplOut::Ok(_)) && !sp.bytes.is_empty() && sp.bytes != c.data {
        let mut key: Vec<Ent> = c.ranges.clone().unwrap_or_default();
        key.sort();
        run.nontrivial(format!("{:?}|{}|{}", key, c.data.len(), c.excl));
    }
    let idx = run.case(req, line);
    for (class, detail) in fails {
        run.fail(idx, class, detail);
    }
}

fn same(a: &ImplOut, b: &ImplOut) -> bool {
    match (a, b) {
        (ImplOut::Ok(x), ImplOut::Ok(y)) => x == y,
        (ImplOut::Err(x), ImplOut::Err(y)) => x == y,
        _ => false,
    }
}

// ---------------------------------------------------------------------------------------
// generators

fn gen_len(r: &mut Rng, thorough: bool) -> usize {
    match r.below(100) {
        0 => 0,
        1..=44 => r.range(1, 16) as usize,
        45..=79 => r.range(17, 64) as usize,
        80..=95 => r.range(65, 300) as usize,
        _ => {
            if thorough {
                r.range(301, 4096) as usize
            } else {
                r.range(301, 1500) as usize
            }
        }
    }
}

fn gen_buf(r: &mut Rng, n: usize) -> usize {
    let n = n.max(1);
    if n > 24 && !r.chance(1, 50) {
        // at most ~16 chunks (thread spawns) per range on longer streams
        return match r.below(8) {
            0 => n.div_ceil(16),
            1 => r.range(n.div_ceil(16) as u64, n as u64) as usize,
            2 => n - 1,
            3 => n,
            4 => n + 1,
            5 => n.div_ceil(2),
            6 => 256 * 1024 * 1024,
            _ => usize::MAX,
        };
    }
    match r.below(12) {
        0 | 1 => 1,
        2 => 2,
        3 => 3,
        4 => 7,
        5 => r.range(1, n as u64) as usize,
        6 => n,
        7 => n + 1,
        8 => n.saturating_sub(1).max(1),
        9 => 1024,
        10 => 256 * 1024 * 1024,
        _ => usize::MAX,
    }
}

fn gen_start(r: &mut Rng, n: u64, valid: bool) -> u64 {
    if valid || r.chance(4, 5) {
        match r.below(8) {
            0 => 0,
            1 => n.saturating_sub(1),
            2 => n,
            3 => 1.min(n),
            _ => r.range(0, n),
        }
    } else {
        match r.below(7) {
            0 => n + 1,
            1 => 1u64 << 32,
            2 => u64::MAX,
            3 => u64::MAX - 10,
            4 => u64::MAX - n,
            5 => n + r.range(1, 20),
            _ => r.next(),
        }
    }
}

fn gen_length(r: &mut Rng, n: u64, start: u64, valid: bool) -> u64 {
    let room = n.saturating_sub(start);
    if valid || r.chance(4, 5) {
        match r.below(8) {
            0 => 0,
            1 => 1.min(room),
            2 => room,
            3 => 2.min(room),
            _ => r.range(0, room),
        }
    } else {
        match r.below(8) {
            0 => room + 1,
            1 => u64::MAX,
            2 => 1u64 << 32,
            3 => u64::MAX - start,
            4 => (u64::MAX - start).wrapping_add(1),
            5 => room + r.range(1, 20),
            6 => n + 1,
            _ => r.next(),
        }
    }
}

fn shuffle<T>(r: &mut Rng, v: &mut [T]) {
    for i in (1..v.len()).rev() {
        let j = r.below(i as u64 + 1) as usize;
        v.swap(i, j);
    }
}

fn gen_case(r: &mut Rng, thorough: bool) -> Case {
    let n = gen_len(r, thorough);
    let data = r.bytes(n);
    let n64 = n as u64;
    let excl = r.chance(2, 3);
    let valid = r.chance(7, 10);
    let ranges = match r.below(20) {
        0 => None,
        1 => Some(vec![]),
        _ => {
            let k = match r.below(10) {
                0..=2 => 1,
                3..=5 => 2,
                6 | 7 => 3,
                8 => r.range(4, 6),
                _ => r.range(0, 6),
            };
            let mut v: Vec<Ent> = vec![];
            for _ in 0..k {
                // adjacent / overlapping / duplicate relative to an earlier entry
                let (start, len) = if !v.is_empty() && r.chance(1, 3) {
                    let p = r.pick(&v).clone();
                    let st = match r.below(4) {
                        0 => p.start.saturating_add(p.len).min(n64),
                        1 => p.start,
                        2 => p.start.saturating_add(p.len / 2).min(n64),
                        _ => p.start.saturating_sub(1),
                    };
                    (st, gen_length(r, n64, st, valid))
                } else {
                    let st = gen_start(r, n64, valid);
                    (st, gen_length(r, n64, st, valid))
                };
                v.push(Ent { start, len, off: None });
            }
            // markers
            if excl && r.chance(2, 5) {
                let excluded = |p: u64, v: &Vec<Ent>| v.iter().any(|e| e.off.is_none() && covers(e, p));
                let base = v.clone();
                let run_starts: Vec<u64> = (0..n64)
                    .filter(|p| !excluded(*p, &base) && (*p == 0 || excluded(*p - 1, &base)))
                    .collect();
                let ex_pos: Vec<u64> = (0..n64).filter(|p| excluded(*p, &base)).collect();
                for _ in 0..r.range(1, 3) {
                    let o = match r.below(10) {
                        0 | 1 if !run_starts.is_empty() => *r.pick(&run_starts),
                        2 | 3 if !ex_pos.is_empty() => *r.pick(&ex_pos),
                        4 => 0,
                        5 => n64.saturating_sub(1),
                        6 => n64,
                        7 if !v.is_empty() => r.pick(&v).off.unwrap_or(r.range(0, n64)),
                        8 => {
                            if valid {
                                r.range(0, n64)
                            } else {
                                *r.pick(&[n64 + 1, u64::MAX, 1 << 40])
                            }
                        }
                        _ => r.range(0, n64),
                    };
                    // as produced by the BMFF code: HashRange::new(o, 1) + offset o; sometimes odd
                    let (st, ln) = match r.below(8) {
                        0 => (o, 0),
                        1 => (gen_start(r, n64, valid), 1),
                        _ => (o, 1),
                    };
                    let (st, ln) = if valid && (st as u128 + ln as u128) > n64 as u128 { (0, 0) } else { (st, ln) };
                    v.push(Ent { start: st, len: ln, off: Some(o) });
                }
            } else if !excl && r.chance(1, 5) && !v.is_empty() {
                for _ in 0..r.range(1, 2) {
                    let i = r.below(v.len() as u64) as usize;
                    let o = match r.below(4) {
                        0 => v[i].start,
                        1 => r.pick(&v).start,
                        _ => r.range(0, n64),
                    };
                    v[i].off = Some(o);
                }
            }
            shuffle(r, &mut v);
            Some(v)
        }
    };
    let alg = match r.below(12) {
        0..=6 => "sha256",
        7 | 8 => "sha384",
        9 | 10 => "sha512",
        _ => *r.pick(&["md5", "SHA256", "sha1", ""]),
    }
    .to_string();
    let alg = if alg.is_empty() { "x".to_string() } else { alg };
    let buf = gen_buf(r, n);
    let cancel = if r.chance(1, 20) { Some(r.range(1, 6) as u32) } else { None };
    Case { excl, alg, buf, cancel, ranges, data, nospawn: false }
}

/// Exhaustive small sweep: every stream length ≤ max_len, every list of ≤ 2 ranges with
/// start ∈ 0..=len+1 and length ∈ 0..=len+2, both modes, no marker or one marker at every
/// offset 0..=len, chunk sizes 1 and 2.
fn exhaustive(run: &mut Run, max_len: usize, two_ranges_up_to: usize) {
    for n in 1..=max_len {
        let data: Vec<u8> = (0..n).map(|i| 0xa0u8 + i as u8).collect();
        let n64 = n as u64;
        let mut singles: Vec<Ent> = vec![];
        for st in 0..=n64 + 1 {
            for ln in 0..=n64 + 2 {
                singles.push(Ent { start: st, len: ln, off: None });
            }
        }
        let mut lists: Vec<Vec<Ent>> = vec![];
        for a in &singles {
            lists.push(vec![a.clone()]);
        }
        if n <= two_ranges_up_to {
            for a in &singles {
                for b in &singles {
                    lists.push(vec![a.clone(), b.clone()]);
                }
            }
        }
        for l in &lists {
            for excl in [true, false] {
                let marker_choices: Vec<Option<u64>> = if excl {
                    std::iter::once(None).chain((0..=n64).map(Some)).collect()
                } else {
                    vec![None, Some(0), Some(l[0].start)]
                };
                for m in marker_choices {
                    let mut v = l.clone();
                    if let Some(o) = m {
                        if excl {
                            v.push(Ent { start: o.min(n64 - 1), len: 1, off: Some(o) });
                        } else {
                            v[0].off = Some(o);
                        }
                    }
                    let buf = 1 + (v.len() + n + m.unwrap_or(0) as usize) % 2;
                    let c = Case {
                        excl,
                        alg: "sha256".to_string(),
                        buf,
                        cancel: None,
                        ranges: Some(v),
                        data: data.clone(),
                        nospawn: false,
                    };
                    one(run, &c);
                }
            }
        }
    }
    run.count("exhaustive_small_sweep");
}

/// The two inputs of DESIGN §5 (F1, F2) and the unit-test inputs of hash_utils.rs.
fn fixed_cases(run: &mut Run) {
    let d10: Vec<u8> = (0x0a..0x14).collect();
    let mk = |excl: bool, v: Vec<(u64, u64, Option<u64>)>, data: &Vec<u8>, buf: usize| Case {
        excl,
        alg: "sha256".to_string(),
        buf,
        cancel: None,
        ranges: Some(v.into_iter().map(|(s, l, o)| Ent { start: s, len: l, off: o }).collect()),
        data: data.clone(),
        nospawn: false,
    };
    // F1
    one(run, &mk(true, vec![(0, 100, None), (5, 1, None)], &d10, 3));
    one(run, &mk(false, vec![(0, 100, None), (5, 1, None)], &d10, 3));
    one(run, &mk(false, vec![(0, u64::MAX, None), (5, 1, None)], &d10, 3));
    // F2
    one(run, &mk(true, vec![(1, 9, None), (0, 1, Some(0))], &d10, 3));
    one(run, &mk(true, vec![(0, 4, None), (5, 5, None), (4, 1, Some(4))], &d10, 2));
    one(run, &mk(false, vec![(5, 1, None), (7, 3, Some(5))], &d10, 2));
    // unit tests
    let z64 = vec![0u8; 64];
    one(run, &mk(true, vec![(u64::MAX - 10, 20, None)], &z64, 1024));
    one(run, &mk(false, vec![(u64::MAX, 1, None)], &z64, 1024));
    let big: Vec<u8> = (0..3 * 1024).map(|i| (i % 251) as u8).collect();
    one(run, &mk(true, vec![(1000, 100, None)], &big, 1024));
    let mut c = mk(true, vec![], &big, 1024);
    c.ranges = None;
    one(run, &c);
    // a marker on an excluded position outside the hashed span (Props: marker_outside_span_dropped,
    // marker_after_span_dropped)
    one(run, &mk(true, vec![(0, 2, None), (0, 1, Some(0))], &d10, 3));
    one(run, &mk(true, vec![(8, 2, None), (9, 1, Some(9))], &d10, 4));
    // all bytes excluded, markers inside / at the edges
    one(run, &mk(true, vec![(0, 10, None), (3, 1, Some(3)), (0, 1, Some(0)), (9, 1, Some(9))], &d10, 4));
    // duplicate markers inside a run and inside a gap
    one(run, &mk(true, vec![(4, 2, None), (2, 1, Some(2)), (2, 1, Some(2)), (5, 1, Some(5)), (5, 1, Some(5))], &d10, 4));
    run.count("fixed_cases");
}

pub fn run(run: &mut Run, rng: &mut Rng) {
    run.rule = "non-trivial = the implementation returned a digest and the selected byte string is neither empty nor the whole stream; distinct by (sorted entry list, stream length, mode)".to_string();
    let t0 = std::time::Instant::now();
    let mut lap = {
        let mut last = t0;
        move |run: &mut Run, what: &str| {
            let now = std::time::Instant::now();
            run.notes.push(format!("{what}: {:.1}s", (now - last).as_secs_f64()));
            last = now;
        }
    };
    fixed_cases(run);
    if run.thorough() {
        exhaustive(run, 6, 5);
    } else {
        exhaustive(run, 4, 3);
    }
    lap(run, "fixed + exhaustive sweep");
    let n = if run.thorough() { 200_000 } else { 20_000 };
    let thorough = run.thorough();
    for _ in 0..n {
        let mut r = rng.fork();
        let c = gen_case(&mut r, thorough);
        one(run, &c);
    }

    lap(run, "random cases");
    // thread pipelining: the same inputs with the schedule of the hand-off perturbed at the
    // `Read` boundary (slow / yielding reads: the worker finishes first) ...
    let n_sched = if thorough { 3_000 } else { 300 };
    for i in 0..n_sched {
        let mut r = rng.fork();
        let mut c = gen_case(&mut r, thorough);
        let len = c.data.len();
        if len >= 2 {
            // several chunks per range
            c.buf = (len / r.range(2, 6) as usize).max(1);
        }
        let sched = if i % 2 == 0 {
            Sched::SlowRead(*r.pick(&[20, 60, 150]))
        } else {
            Sched::YieldRead(r.range(1, 20) as u32)
        };
        let (out, prog) = run_impl_sched(&c, c.buf, sched);
        judge(run, &c, out, prog, Mode::Sched(sched));
    }
    // ... and long chunks (hashing a chunk takes much longer than reading the next one: the
    // main thread waits in `recv`)
    large_chunks(run, rng);
    lap(run, "schedule perturbation");

    // thread creation fails
    let n_ns = if thorough { 5_000 } else { 600 };
    let mut cases: Vec<Case> = vec![];
    // the model-level examples of Props/C13.lean
    let d10: Vec<u8> = (0x0a..0x14).collect();
    for buf in [3usize, 10] {
        cases.push(Case {
            excl: true,
            alg: "sha256".to_string(),
            buf,
            cancel: None,
            ranges: None,
            data: d10.clone(),
            nospawn: true,
        });
    }
    for _ in 0..n_ns {
        let mut r = rng.fork();
        let mut c = gen_case(&mut r, thorough);
        c.nospawn = true;
        cases.push(c);
    }
    nospawn_batch(run, &cases);
    lap(run, "no-spawn child");
}

/// 2 MiB streams hashed in 256 KiB chunks with sha512, compared with the one-shot digest of
/// the specification (too long for a model request line: implementation-side obligation).
fn large_chunks(run: &mut Run, rng: &mut Rng) {
    let mut ok = true;
    let n = 2 * 1024 * 1024usize;
    for k in 0..3u64 {
        let mut r = rng.fork();
        let data: Vec<u8> = (0..n).map(|i| (i as u64).wrapping_mul(2654435761 + k).to_le_bytes()[3]).collect();
        let a = r.range(1, 400_000);
        let b = r.range(600_000, 1_200_000);
        let ranges = vec![
            Ent { start: b, len: r.range(1, 300_000), off: None },
            Ent { start: a, len: r.range(1, 100_000), off: None },
            Ent { start: a / 2, len: 1, off: Some(a / 2) },
            Ent { start: b + 5, len: 1, off: Some(b + 5) },
        ];
        let c = Case {
            excl: k != 2,
            alg: "sha512".to_string(),
            buf: 256 * 1024,
            cancel: None,
            ranges: Some(if k != 2 { ranges } else { ranges[..2].to_vec() }),
            data,
            nospawn: false,
        };
        let sp = spec(&c);
        let (out, prog) = run_impl(&c, c.buf);
        let (out1, _) = run_impl(&c, n);
        let good = match (&out, &out1) {
            (ImplOut::Ok(d), ImplOut::Ok(d1)) => {
                d == d1
                    && digest(&c.alg, &sp.bytes).as_deref() == Some(d.as_slice())
                    && prog.len() >= 2
                    && prog.len() as u32 == prog[0].1
            }
            _ => false,
        };
        if !good {
            run.notes.push(format!(
                "large_chunks k={k}: out={} prog={} ranges={:?}",
                match &out {
                    ImplOut::Ok(d) => format!("ok {}", hex(d)),
                    ImplOut::Err(c) => format!("err {c}"),
                    ImplOut::Panic(m) => format!("panic {m}"),
                },
                prog_str(&prog),
                c.ranges
            ));
        }
        ok &= good;
        run.count("large_chunk_runs");
    }
    run.obligations
        .insert("schedule:large-chunks-digest-equals-one-shot-digest-of-spec".to_string(), ok);
}
