//! C13 — range hashing equals the digest of exactly the selected bytes.
//!
//! Request line (see lean/C2paModel/Model/C13.lean):
//!   C13 hash mode=<excl|incl> alg=<name> buf=<n> cancel=<-|k> ranges=<none|-|s:l:o,…> data=<hex|->
//!     ranges: `none` = `hash_range: None`, `-` = `Some(vec![])`, entries `start:length:offset`
//!     with `-` for "no bmff offset"; decimal u64.
//!     cancel=k: the progress callback returns Err(OperationCancelled) at its k-th call.
//! Reply:
//!   ok sel=<hex of the bytes fed to the hasher> prog=<progress>
//!   err <class> prog=<progress>
//!   panic
//!   progress = `n@t` when the callback saw (1,t),(2,t),…,(n,t) (`0@0` for no call), else `s/t,s/t,…`.
//!
//! The implementation only returns a digest. The impl reply is produced like this: the
//! harness evaluates its own position-wise specification of the selected bytes (`spec`,
//! the property oracle, independent of the Lean model), hashes it with the one-shot sha2
//! API and compares with the implementation digest. Equal: the reply is `ok sel=<spec>`.
//! Not equal: a small family of candidate byte strings is tried to describe what was
//! hashed (reply `ok sel=<candidate>` or `ok digest=<hex> unexplained`) and an oracle
//! failure is recorded, keyed by the kind of input.

use std::{io::Cursor, num::NonZeroUsize};

use c2pa::{Error, HashRange};
use sha2::{Digest, Sha256, Sha384, Sha512};
use vh::common::{guarded, hex, main_with, Rng, Run};

fn main() {
    main_with("C13", run);
}

#[derive(Clone, Debug, PartialEq, Eq, PartialOrd, Ord)]
struct Ent {
    start: u64,
    len: u64,
    off: Option<u64>,
}

#[derive(Clone, Debug)]
struct Case {
    excl: bool,
    alg: String,
    buf: usize,
    cancel: Option<u32>,
    ranges: Option<Vec<Ent>>,
    data: Vec<u8>,
}

impl Case {
    fn req(&self) -> String {
        let ranges = match &self.ranges {
            None => "none".to_string(),
            Some(v) if v.is_empty() => "-".to_string(),
            Some(v) => v
                .iter()
                .map(|e| {
                    format!(
                        "{}:{}:{}",
                        e.start,
                        e.len,
                        e.off.map(|o| o.to_string()).unwrap_or_else(|| "-".to_string())
                    )
                })
                .collect::<Vec<_>>()
                .join(","),
        };
        format!(
            "C13 hash mode={} alg={} buf={} cancel={} ranges={} data={}",
            if self.excl { "excl" } else { "incl" },
            self.alg,
            self.buf,
            self.cancel.map(|k| k.to_string()).unwrap_or_else(|| "-".to_string()),
            ranges,
            hex(&self.data)
        )
    }

    fn hash_ranges(&self) -> Option<Vec<HashRange>> {
        self.ranges.as_ref().map(|v| {
            v.iter()
                .map(|e| {
                    let mut h = HashRange::new(e.start, e.len);
                    if let Some(o) = e.off {
                        h.set_bmff_offset(o);
                    }
                    h
                })
                .collect()
        })
    }
}

fn err_class(e: &Error) -> &'static str {
    match e {
        Error::UnsupportedType => "unsupported",
        Error::OtherError(_) => "nodata",
        Error::BadParam(_) => "badparam",
        Error::IoError(_) => "io",
        Error::OperationCancelled => "cancelled",
        Error::ThreadReceiveError => "thread",
        _ => "other",
    }
}

enum ImplOut {
    Ok(Vec<u8>),
    Err(&'static str),
    Panic(String),
}

/// Run the real code (hook = private impl with caller-chosen max_hash_buf).
fn run_impl(c: &Case, buf: usize) -> (ImplOut, Vec<(u32, u32)>) {
    let data = c.data.clone();
    let hr = c.hash_ranges();
    let alg = c.alg.clone();
    let excl = c.excl;
    let cancel = c.cancel;
    let r = guarded(move || {
        let mut seen: Vec<(u32, u32)> = vec![];
        let mut cur = Cursor::new(data);
        let res = {
            let mut cb = |s: u32, t: u32| {
                seen.push((s, t));
                if Some(seen.len() as u32) == cancel {
                    Err(Error::OperationCancelled)
                } else {
                    Ok(())
                }
            };
            c2pa::verif_hooks::c13::hash_stream_with_buf(
                &alg,
                &mut cur,
                hr,
                excl,
                &mut cb,
                NonZeroUsize::new(buf).expect("buf >= 1"),
            )
        };
        (res.map_err(|e| err_class(&e)), seen)
    });
    match r {
        Ok((Ok(d), seen)) => (ImplOut::Ok(d), seen),
        Ok((Err(cl), seen)) => (ImplOut::Err(cl), seen),
        Err(msg) => (ImplOut::Panic(msg), vec![]),
    }
}

fn run_public(c: &Case) -> ImplOut {
    let data = c.data.clone();
    let hr = c.hash_ranges();
    let alg = c.alg.clone();
    let excl = c.excl;
    match guarded(move || {
        let mut cur = Cursor::new(data);
        c2pa::hash_stream_by_alg(&alg, &mut cur, hr, excl).map_err(|e| err_class(&e))
    }) {
        Ok(Ok(d)) => ImplOut::Ok(d),
        Ok(Err(cl)) => ImplOut::Err(cl),
        Err(m) => ImplOut::Panic(m),
    }
}

fn digest(alg: &str, b: &[u8]) -> Option<Vec<u8>> {
    match alg {
        "sha256" => Some(Sha256::digest(b).to_vec()),
        "sha384" => Some(Sha384::digest(b).to_vec()),
        "sha512" => Some(Sha512::digest(b).to_vec()),
        _ => None,
    }
}

fn prog_str(p: &[(u32, u32)]) -> String {
    if p.is_empty() {
        return "0@0".to_string();
    }
    let t = p[0].1;
    if p.iter().enumerate().all(|(i, (s, tt))| *s as usize == i + 1 && *tt == t) {
        format!("{}@{}", p.len(), t)
    } else {
        p.iter().map(|(s, t)| format!("{s}/{t}")).collect::<Vec<_>>().join(",")
    }
}

// ---------------------------------------------------------------------------------------
// The property oracle: position-wise specification of the selected bytes.

struct Spec {
    /// some range with length > 0 reaches past the end of the data: must be rejected
    must_reject: bool,
    /// the past-end range is not the one with the largest start (F1 input kind)
    nonlast_past_end: bool,
    /// an entry the statement does not speak about reaches past the end (empty range,
    /// marker entry of an exclusion list): either outcome accepted
    may_reject: bool,
    /// selected bytes (positions beyond the data are simply absent)
    bytes: Vec<u8>,
    /// a one-byte piece of an included run starts at a marker offset, i.e. a marker sits on
    /// the last byte of an included run (F2 input kind)
    one_byte_run_at_marker: bool,
    has_markers: bool,
    dup_markers: bool,
}

fn covers(e: &Ent, p: u64) -> bool {
    e.len > 0 && p >= e.start && (p as u128) < e.start as u128 + e.len as u128
}

fn past_end(e: &Ent, n: u64) -> bool {
    e.start as u128 + e.len as u128 > n as u128
}

fn spec(c: &Case) -> Spec {
    let n = c.data.len() as u64;
    let ents: Vec<Ent> = c.ranges.clone().unwrap_or_default();
    let mut s = Spec {
        must_reject: false,
        nonlast_past_end: false,
        may_reject: false,
        bytes: vec![],
        one_byte_run_at_marker: false,
        has_markers: false,
        dup_markers: false,
    };
    // which entries are ranges in the sense of the statement
    let is_range = |e: &Ent| if c.excl { e.off.is_none() } else { true };
    for e in &ents {
        if past_end(e, n) {
            if is_range(e) && e.len > 0 {
                s.must_reject = true;
            } else {
                s.may_reject = true;
            }
        }
    }
    // F1 input kind: the entry that comes last in start order is itself fine
    let mut by_start: Vec<&Ent> = ents.iter().collect();
    by_start.sort_by_key(|e| e.start);
    s.nonlast_past_end = s.must_reject && by_start.last().map(|e| !past_end(e, n)).unwrap_or(false);
    if c.excl {
        let markers: Vec<u64> = ents.iter().filter_map(|e| e.off).collect();
        s.has_markers = !markers.is_empty();
        let excluded = |p: u64| ents.iter().any(|e| e.off.is_none() && covers(e, p));
        let inc: Vec<bool> = (0..n).map(|p| !excluded(p)).collect();
        let first = inc.iter().position(|b| *b);
        let last = inc.iter().rposition(|b| *b);
        // hashed span: strictly between the first and the last included byte; when no
        // byte is included the span is the whole stream (strictly inside)
        let (lo, hi) = match (first, last) {
            (Some(f), Some(l)) => (f as u64, l as u64),
            _ => (0, n.saturating_sub(1)),
        };
        for p in 0..n {
            let cnt = markers.iter().filter(|m| **m == p).count();
            if cnt > 1 {
                s.dup_markers = true;
            }
            if cnt > 0 {
                let copies = if inc[p as usize] {
                    cnt
                } else if lo < p && p < hi {
                    1
                } else {
                    0
                };
                for _ in 0..copies {
                    s.bytes.extend_from_slice(&p.to_be_bytes());
                }
                // the piece that starts at the marker is one byte long (the marker sits on
                // the last byte of an included run)
                let run_of_one = inc[p as usize] && (p + 1 == n || !inc[p as usize + 1]);
                if run_of_one {
                    s.one_byte_run_at_marker = true;
                }
            }
            if inc[p as usize] {
                s.bytes.push(c.data[p as usize]);
            }
        }
    } else {
        // inclusion: entries in start order (stable), empty ones contribute nothing,
        // an entry's marker goes immediately before its bytes
        let mut sorted: Vec<&Ent> = ents.iter().collect();
        sorted.sort_by_key(|e| e.start);
        let offs: Vec<u64> = ents.iter().filter(|e| e.len > 0).filter_map(|e| e.off).collect();
        s.has_markers = !offs.is_empty();
        for e in sorted {
            if e.len == 0 {
                continue;
            }
            if let Some(o) = e.off {
                s.bytes.extend_from_slice(&o.to_be_bytes());
            }
            if e.len == 1 && offs.contains(&e.start) {
                s.one_byte_run_at_marker = true;
            }
            let a = e.start.min(n) as usize;
            let b = (e.start as u128 + e.len as u128).min(n as u128) as usize;
            s.bytes.extend_from_slice(&c.data[a..b]);
        }
    }
    if c.ranges.as_ref().map(|v| v.is_empty()).unwrap_or(true) {
        s.bytes = c.data.clone();
    }
    s
}

/// Candidate explanations of a digest that is not the digest of the specification.
fn candidates(c: &Case) -> Vec<(&'static str, Vec<u8>)> {
    let n = c.data.len() as u64;
    let ents: Vec<Ent> = c.ranges.clone().unwrap_or_default();
    let mut out: Vec<(&'static str, Vec<u8>)> = vec![];
    out.push(("whole-stream", c.data.clone()));
    out.push(("nothing", vec![]));
    if c.excl {
        let markers: Vec<u64> = ents.iter().filter_map(|e| e.off).collect();
        let excluded = |p: u64| ents.iter().any(|e| e.off.is_none() && covers(e, p));
        let inc: Vec<bool> = (0..n).map(|p| !excluded(p)).collect();
        let mut plain = vec![];
        let mut allm = vec![];
        let mut second_marker = vec![];
        for p in 0..n {
            let cnt = markers.iter().filter(|m| **m == p).count();
            for _ in 0..cnt {
                allm.extend_from_slice(&p.to_be_bytes());
            }
            let run_of_one = inc[p as usize] && (p + 1 == n || !inc[p as usize + 1]);
            if inc[p as usize] {
                plain.push(c.data[p as usize]);
                allm.push(c.data[p as usize]);
            }
            if inc[p as usize] {
                for _ in 0..cnt {
                    second_marker.extend_from_slice(&p.to_be_bytes());
                }
                if cnt > 0 && run_of_one {
                    second_marker.extend_from_slice(&p.to_be_bytes());
                } else {
                    second_marker.push(c.data[p as usize]);
                }
            } else if cnt > 0 {
                // gap markers as in the specification are not reproduced here
            }
        }
        out.push(("markers-ignored", plain));
        out.push(("all-markers", allm));
        out.push(("one-byte-run-as-marker", second_marker));
    } else {
        let mut sorted: Vec<&Ent> = ents.iter().collect();
        sorted.sort_by_key(|e| e.start);
        let offs: Vec<u64> = ents.iter().filter(|e| e.len > 0).filter_map(|e| e.off).collect();
        let mut plain = vec![];
        let mut second_marker = vec![];
        let mut unsorted = vec![];
        for e in &sorted {
            if e.len == 0 {
                continue;
            }
            let a = e.start.min(n) as usize;
            let b = (e.start as u128 + e.len as u128).min(n as u128) as usize;
            plain.extend_from_slice(&c.data[a..b]);
            if let Some(o) = e.off {
                second_marker.extend_from_slice(&o.to_be_bytes());
            }
            if e.len == 1 && offs.contains(&e.start) {
                second_marker.extend_from_slice(&e.start.to_be_bytes());
            } else {
                second_marker.extend_from_slice(&c.data[a..b]);
            }
        }
        for e in &ents {
            if e.len == 0 {
                continue;
            }
            if let Some(o) = e.off {
                unsorted.extend_from_slice(&o.to_be_bytes());
            }
            let a = e.start.min(n) as usize;
            let b = (e.start as u128 + e.len as u128).min(n as u128) as usize;
            unsorted.extend_from_slice(&c.data[a..b]);
        }
        out.push(("markers-ignored", plain));
        out.push(("one-byte-run-as-marker", second_marker));
        out.push(("input-order", unsorted));
    }
    out
}

// ---------------------------------------------------------------------------------------

fn one(run: &mut Run, c: &Case) {
    let req = c.req();
    let (out, prog) = run_impl(c, c.buf);
    let sp = spec(c);
    let alg_ok = digest(&c.alg, b"").is_some();
    let mut fails: Vec<(&'static str, String)> = vec![];
    let line = match &out {
        ImplOut::Panic(m) => {
            fails.push(("panic", format!("implementation panicked: {m}")));
            "panic".to_string()
        }
        ImplOut::Err(cl) => {
            let expected_ok = alg_ok
                && !c.data.is_empty()
                && !sp.must_reject
                && !sp.may_reject
                && c.cancel.map(|k| k as usize > prog.len()).unwrap_or(true);
            if expected_ok {
                fails.push((
                    "spurious-error",
                    format!("error class {cl} although every range lies inside the data"),
                ));
            }
            format!("err {cl} prog={}", prog_str(&prog))
        }
        ImplOut::Ok(d) => {
            if sp.must_reject {
                fails.push((
                    if sp.nonlast_past_end { "nonlast-range-past-end" } else { "range-past-end-accepted" },
                    "a range reaches past the end of the data but a digest was returned".to_string(),
                ));
            }
            if digest(&c.alg, &sp.bytes).as_deref() == Some(d.as_slice()) {
                format!("ok sel={} prog={}", hex(&sp.bytes), prog_str(&prog))
            } else {
                let class = if sp.one_byte_run_at_marker {
                    "one-byte-run-at-marker"
                } else if sp.has_markers {
                    "marker-bytes"
                } else if c.excl {
                    "exclusion-bytes"
                } else {
                    "inclusion-bytes"
                };
                let found = candidates(c)
                    .into_iter()
                    .find(|(_, b)| digest(&c.alg, b).as_deref() == Some(d.as_slice()));
                match found {
                    Some((name, b)) => {
                        fails.push((
                            class,
                            format!("digest is not the digest of the selected bytes; it is the digest of `{name}`"),
                        ));
                        format!("ok sel={} prog={}", hex(&b), prog_str(&prog))
                    }
                    None => {
                        fails.push((class, "digest is not the digest of the selected bytes".to_string()));
                        format!("ok digest={} unexplained prog={}", hex(d), prog_str(&prog))
                    }
                }
            }
        }
    };

    // progress well-formedness (observed directly)
    if !prog.is_empty() {
        let t = prog[0].1;
        let wf = prog.iter().enumerate().all(|(i, (s, tt))| *s as usize == i + 1 && *tt == t && *s <= t);
        let complete = !matches!(out, ImplOut::Ok(_)) || prog.len() as u32 == t;
        if !wf || !complete {
            fails.push(("progress-malformed", format!("progress sequence {}", prog_str(&prog))));
        }
    } else if matches!(out, ImplOut::Ok(_)) && !sp.bytes.is_empty() {
        fails.push(("progress-malformed", "no progress call although bytes were hashed".to_string()));
    }

    // chunk-size / schedule independence (observed directly): other buffer sizes and the
    // public entry point give the same answer
    if c.cancel.is_none() {
        let n = c.data.len().max(1);
        // (every non-final chunk costs one thread spawn: keep the chunk count small on long streams)
        let mut alts: Vec<usize> = if n <= 24 { vec![1, n, 2] } else { vec![n.div_ceil(3), n + 1] };
        alts.retain(|b| *b != c.buf);
        alts.dedup();
        for b in alts {
            let (o2, _) = run_impl(c, b);
            if !same(&out, &o2) {
                fails.push(("chunk-size-dependent", format!("max_hash_buf {} and {} give different results", c.buf, b)));
                break;
            }
        }
        if !same(&out, &run_public(c)) {
            fails.push(("chunk-size-dependent", "public hash_stream_by_alg differs from the hook result".to_string()));
        }
    }

    // statistics
    run.count(if c.excl { "mode_excl" } else { "mode_incl" });
    run.count(match &out {
        ImplOut::Ok(_) => "out_ok",
        ImplOut::Err(_) => "out_err",
        ImplOut::Panic(_) => "out_panic",
    });
    run.count(&format!("nranges_{}", c.ranges.as_ref().map(|v| v.len().min(7)).unwrap_or(0)));
    run.count(&format!(
        "len_{}",
        match c.data.len() {
            0 => "0",
            1..=8 => "1-8",
            9..=64 => "9-64",
            65..=512 => "65-512",
            _ => "513-4096",
        }
    ));
    run.count(&format!(
        "buf_{}",
        if c.buf == 1 {
            "1"
        } else if c.buf < c.data.len() {
            "lt_len"
        } else {
            "ge_len"
        }
    ));
    if sp.has_markers {
        run.count("with_markers");
    }
    if sp.dup_markers {
        run.count("with_duplicate_markers");
    }
    if sp.one_byte_run_at_marker {
        run.count("one_byte_run_at_marker");
    }
    if sp.must_reject {
        run.count("past_end");
    }
    if c.cancel.is_some() {
        run.count("with_cancel");
    }
    if matches!(out, ImplOut::Ok(_)) && !sp.bytes.is_empty() && sp.bytes != c.data {
        let mut key: Vec<Ent> = c.ranges.clone().unwrap_or_default();
        key.sort();
        run.nontrivial(format!("{:?}|{}|{}", key, c.data.len(), c.excl));
    }
    let idx = run.case(req, line);
    for (class, detail) in fails {
        run.fail(idx, class, detail);
    }
}

fn same(a: &ImplOut, b: &ImplOut) -> bool {
    match (a, b) {
        (ImplOut::Ok(x), ImplOut::Ok(y)) => x == y,
        (ImplOut::Err(x), ImplOut::Err(y)) => x == y,
        _ => false,
    }
}

// ---------------------------------------------------------------------------------------
// generators

fn gen_len(r: &mut Rng, thorough: bool) -> usize {
    match r.below(100) {
        0 => 0,
        1..=44 => r.range(1, 16) as usize,
        45..=79 => r.range(17, 64) as usize,
        80..=95 => r.range(65, 300) as usize,
        _ => {
            if thorough {
                r.range(301, 4096) as usize
            } else {
                r.range(301, 1500) as usize
            }
        }
    }
}

fn gen_buf(r: &mut Rng, n: usize) -> usize {
    let n = n.max(1);
    if n > 48 && !r.chance(1, 50) {
        // at most ~16 chunks (thread spawns) per range on longer streams
        return match r.below(8) {
            0 => n.div_ceil(16),
            1 => r.range(n.div_ceil(16) as u64, n as u64) as usize,
            2 => n - 1,
            3 => n,
            4 => n + 1,
            5 => n.div_ceil(2),
            6 => 256 * 1024 * 1024,
            _ => usize::MAX,
        };
    }
    match r.below(12) {
        0 | 1 => 1,
        2 => 2,
        3 => 3,
        4 => 7,
        5 => r.range(1, n as u64) as usize,
        6 => n,
        7 => n + 1,
        8 => n.saturating_sub(1).max(1),
        9 => 1024,
        10 => 256 * 1024 * 1024,
        _ => usize::MAX,
    }
}

fn gen_start(r: &mut Rng, n: u64, valid: bool) -> u64 {
    if valid || r.chance(4, 5) {
        match r.below(8) {
            0 => 0,
            1 => n.saturating_sub(1),
            2 => n,
            3 => 1.min(n),
            _ => r.range(0, n),
        }
    } else {
        match r.below(7) {
            0 => n + 1,
            1 => 1u64 << 32,
            2 => u64::MAX,
            3 => u64::MAX - 10,
            4 => u64::MAX - n,
            5 => n + r.range(1, 20),
            _ => r.next(),
        }
    }
}

fn gen_length(r: &mut Rng, n: u64, start: u64, valid: bool) -> u64 {
    let room = n.saturating_sub(start);
    if valid || r.chance(4, 5) {
        match r.below(8) {
            0 => 0,
            1 => 1.min(room),
            2 => room,
            3 => 2.min(room),
            _ => r.range(0, room),
        }
    } else {
        match r.below(8) {
            0 => room + 1,
            1 => u64::MAX,
            2 => 1u64 << 32,
            3 => u64::MAX - start,
            4 => (u64::MAX - start).wrapping_add(1),
            5 => room + r.range(1, 20),
            6 => n + 1,
            _ => r.next(),
        }
    }
}

fn shuffle<T>(r: &mut Rng, v: &mut [T]) {
    for i in (1..v.len()).rev() {
        let j = r.below(i as u64 + 1) as usize;
        v.swap(i, j);
    }
}

fn gen_case(r: &mut Rng, thorough: bool) -> Case {
    let n = gen_len(r, thorough);
    let data = r.bytes(n);
    let n64 = n as u64;
    let excl = r.chance(2, 3);
    let valid = r.chance(7, 10);
    let ranges = match r.below(20) {
        0 => None,
        1 => Some(vec![]),
        _ => {
            let k = match r.below(10) {
                0..=2 => 1,
                3..=5 => 2,
                6 | 7 => 3,
                8 => r.range(4, 6),
                _ => r.range(0, 6),
            };
            let mut v: Vec<Ent> = vec![];
            for _ in 0..k {
                // adjacent / overlapping / duplicate relative to an earlier entry
                let (start, len) = if !v.is_empty() && r.chance(1, 3) {
                    let p = r.pick(&v).clone();
                    let st = match r.below(4) {
                        0 => p.start.saturating_add(p.len).min(n64),
                        1 => p.start,
                        2 => p.start.saturating_add(p.len / 2).min(n64),
                        _ => p.start.saturating_sub(1),
                    };
                    (st, gen_length(r, n64, st, valid))
                } else {
                    let st = gen_start(r, n64, valid);
                    (st, gen_length(r, n64, st, valid))
                };
                v.push(Ent { start, len, off: None });
            }
            // markers
            if excl && r.chance(2, 5) {
                let excluded = |p: u64, v: &Vec<Ent>| v.iter().any(|e| e.off.is_none() && covers(e, p));
                let base = v.clone();
                let run_starts: Vec<u64> = (0..n64)
                    .filter(|p| !excluded(*p, &base) && (*p == 0 || excluded(*p - 1, &base)))
                    .collect();
                let ex_pos: Vec<u64> = (0..n64).filter(|p| excluded(*p, &base)).collect();
                for _ in 0..r.range(1, 3) {
                    let o = match r.below(10) {
                        0 | 1 if !run_starts.is_empty() => *r.pick(&run_starts),
                        2 | 3 if !ex_pos.is_empty() => *r.pick(&ex_pos),
                        4 => 0,
                        5 => n64.saturating_sub(1),
                        6 => n64,
                        7 if !v.is_empty() => r.pick(&v).off.unwrap_or(r.range(0, n64)),
                        8 => {
                            if valid {
                                r.range(0, n64)
                            } else {
                                *r.pick(&[n64 + 1, u64::MAX, 1 << 40])
                            }
                        }
                        _ => r.range(0, n64),
                    };
                    // as produced by the BMFF code: HashRange::new(o, 1) + offset o; sometimes odd
                    let (st, ln) = match r.below(8) {
                        0 => (o, 0),
                        1 => (gen_start(r, n64, valid), 1),
                        _ => (o, 1),
                    };
                    let (st, ln) = if valid && (st as u128 + ln as u128) > n64 as u128 { (0, 0) } else { (st, ln) };
                    v.push(Ent { start: st, len: ln, off: Some(o) });
                }
            } else if !excl && r.chance(1, 5) && !v.is_empty() {
                for _ in 0..r.range(1, 2) {
                    let i = r.below(v.len() as u64) as usize;
                    let o = match r.below(4) {
                        0 => v[i].start,
                        1 => r.pick(&v).start,
                        _ => r.range(0, n64),
                    };
                    v[i].off = Some(o);
                }
            }
            shuffle(r, &mut v);
            Some(v)
        }
    };
    let alg = match r.below(12) {
        0..=6 => "sha256",
        7 | 8 => "sha384",
        9 | 10 => "sha512",
        _ => *r.pick(&["md5", "SHA256", "sha1", ""]),
    }
    .to_string();
    let alg = if alg.is_empty() { "x".to_string() } else { alg };
    let buf = gen_buf(r, n);
    let cancel = if r.chance(1, 20) { Some(r.range(1, 6) as u32) } else { None };
    Case { excl, alg, buf, cancel, ranges, data }
}

/// Exhaustive small sweep: every stream length ≤ max_len, every list of ≤ 2 ranges with
/// start ∈ 0..=len+1 and length ∈ 0..=len+2, both modes, no marker or one marker at every
/// offset 0..=len, chunk sizes 1 and 2.
fn exhaustive(run: &mut Run, max_len: usize, two_ranges_up_to: usize) {
    for n in 1..=max_len {
        let data: Vec<u8> = (0..n).map(|i| 0xa0u8 + i as u8).collect();
        let n64 = n as u64;
        let mut singles: Vec<Ent> = vec![];
        for st in 0..=n64 + 1 {
            for ln in 0..=n64 + 2 {
                singles.push(Ent { start: st, len: ln, off: None });
            }
        }
        let mut lists: Vec<Vec<Ent>> = vec![];
        for a in &singles {
            lists.push(vec![a.clone()]);
        }
        if n <= two_ranges_up_to {
            for a in &singles {
                for b in &singles {
                    lists.push(vec![a.clone(), b.clone()]);
                }
            }
        }
        for l in &lists {
            for excl in [true, false] {
                let marker_choices: Vec<Option<u64>> = if excl {
                    std::iter::once(None).chain((0..=n64).map(Some)).collect()
                } else {
                    vec![None, Some(0), Some(l[0].start)]
                };
                for m in marker_choices {
                    let mut v = l.clone();
                    if let Some(o) = m {
                        if excl {
                            v.push(Ent { start: o.min(n64 - 1), len: 1, off: Some(o) });
                        } else {
                            v[0].off = Some(o);
                        }
                    }
                    let buf = 1 + (v.len() + n + m.unwrap_or(0) as usize) % 2;
                    let c = Case {
                        excl,
                        alg: "sha256".to_string(),
                        buf,
                        cancel: None,
                        ranges: Some(v),
                        data: data.clone(),
                    };
                    one(run, &c);
                }
            }
        }
    }
    run.count("exhaustive_small_sweep");
}

/// The two inputs of DESIGN §5 (F1, F2) and the unit-test inputs of hash_utils.rs.
fn fixed_cases(run: &mut Run) {
    let d10: Vec<u8> = (0x0a..0x14).collect();
    let mk = |excl: bool, v: Vec<(u64, u64, Option<u64>)>, data: &Vec<u8>, buf: usize| Case {
        excl,
        alg: "sha256".to_string(),
        buf,
        cancel: None,
        ranges: Some(v.into_iter().map(|(s, l, o)| Ent { start: s, len: l, off: o }).collect()),
        data: data.clone(),
    };
    // F1
    one(run, &mk(true, vec![(0, 100, None), (5, 1, None)], &d10, 3));
    one(run, &mk(false, vec![(0, 100, None), (5, 1, None)], &d10, 3));
    one(run, &mk(false, vec![(0, u64::MAX, None), (5, 1, None)], &d10, 3));
    // F2
    one(run, &mk(true, vec![(1, 9, None), (0, 1, Some(0))], &d10, 3));
    one(run, &mk(true, vec![(0, 4, None), (5, 5, None), (4, 1, Some(4))], &d10, 2));
    one(run, &mk(false, vec![(5, 1, None), (7, 3, Some(5))], &d10, 2));
    // unit tests
    let z64 = vec![0u8; 64];
    one(run, &mk(true, vec![(u64::MAX - 10, 20, None)], &z64, 1024));
    one(run, &mk(false, vec![(u64::MAX, 1, None)], &z64, 1024));
    let big: Vec<u8> = (0..3 * 1024).map(|i| (i % 251) as u8).collect();
    one(run, &mk(true, vec![(1000, 100, None)], &big, 1024));
    let mut c = mk(true, vec![], &big, 1024);
    c.ranges = None;
    one(run, &c);
    // all bytes excluded, markers inside / at the edges
    one(run, &mk(true, vec![(0, 10, None), (3, 1, Some(3)), (0, 1, Some(0)), (9, 1, Some(9))], &d10, 4));
    // duplicate markers inside a run and inside a gap
    one(run, &mk(true, vec![(4, 2, None), (2, 1, Some(2)), (2, 1, Some(2)), (5, 1, Some(5)), (5, 1, Some(5))], &d10, 4));
    run.count("fixed_cases");
}

pub fn run(run: &mut Run, rng: &mut Rng) {
    run.rule = "non-trivial = the implementation returned a digest and the selected byte string is neither empty nor the whole stream; distinct by (sorted entry list, stream length, mode)".to_string();
    fixed_cases(run);
    if run.thorough() {
        exhaustive(run, 6, 5);
    } else {
        exhaustive(run, 4, 3);
    }
    let n = if run.thorough() { 200_000 } else { 25_000 };
    let thorough = run.thorough();
    for _ in 0..n {
        let mut r = rng.fork();
        let c = gen_case(&mut r, thorough);
        one(run, &c);
    }
}
