//! C03 — signing round trip: the signed output validates and reports what was signed.
//!
//!   c03 <tier> <seed> <outdir>
//!   c03 explore                    (developer aid: prints one report)
//!
//! Implementation level (oracle, independent of the model): for generated manifest definitions
//! (titles incl. unicode, claim generators, 0–6 assertions of several kinds incl. custom
//! JSON/CBOR with nested values, duplicate labels, ingredients 0–2, thumbnail resource, claim
//! version 1/2, hash alg sha256/384/512) × every writable fixture format × seven signing algs
//! (test certificates) + the ephemeral Ed25519 signer × settings (trust anchors on/off, box hash
//! through compressed manifests): `Builder::sign`, then `Reader::with_stream`; the state must be
//! Valid (Trusted with the test root configured) and the active manifest must report exactly
//! what was supplied.
//!
//! Model level (correspondence): for every data-hash signing the container split of the output
//! (real `get_object_locations_from_stream`), the first-pass locations of the source and the
//! final DataHash assertion read back from the signed store (hook c03) are compared with
//! `C2pa.C03.flow` (Model/C03.lean): predicted exclusion, DataHash CBOR size of placeholder and
//! final assertion, pad/pad2 lengths chosen by `pad_to_size`.

use std::io::Cursor;

use c2pa::{Builder, Context, EphemeralSigner, Reader, SigningAlg};
use serde_json::{json, Value};
use sha2::Digest;
use vh::common::{canon_json, fixtures, guarded, main_with, Rng, Run};
use vh::sign::unsigned_sources;

const ALGS: [(&str, SigningAlg); 7] = [
    ("es256", SigningAlg::Es256),
    ("es384", SigningAlg::Es384),
    ("es512", SigningAlg::Es512),
    ("ps256", SigningAlg::Ps256),
    ("ps384", SigningAlg::Ps384),
    ("ps512", SigningAlg::Ps512),
    ("ed25519", SigningAlg::Ed25519),
];

fn test_signer(alg: &str) -> c2pa::Result<c2pa::BoxedSigner> {
    let (name, a) = ALGS.iter().find(|(n, _)| *n == alg).expect("alg");
    let cert = std::fs::read(fixtures().join(format!("certs/{name}.pub")))?;
    let key = std::fs::read(fixtures().join(format!("certs/{name}.pem")))?;
    c2pa::create_signer::from_keys(&cert, &key, *a, None)
}

fn trust_settings() -> String {
    let anchors = std::fs::read_to_string(fixtures().join("certs/trust/test_cert_root_bundle.pem")).unwrap_or_default();
    json!({"trust": {"trust_anchors": anchors}, "verify": {"verify_trust": true, "remote_manifest_fetch": false, "ocsp_fetch": false}}).to_string()
}

fn base_settings() -> String {
    json!({"verify": {"verify_trust": true, "remote_manifest_fetch": false, "ocsp_fetch": false}}).to_string()
}

// ---------------------------------------------------------------------------------------------
// generators

const TITLES: [&str; 12] = [
    "plain title.jpg",
    "",
    "ünïcödé – title — ✓",
    "日本語のタイトル",
    "عنوان عربي",
    "emoji 🦀🚀 title",
    "quotes \" and \\ backslash / slash",
    "line\nbreak\tand tab",
    "<xml> & 'apos' &amp;",
    "a",
    " leading and trailing ",
    "ＦＵＬＬＷＩＤＴＨ e\u{301} combining",
];

fn gen_string(r: &mut Rng) -> String {
    match r.below(8) {
        0 => String::new(),
        1 => "x".repeat(r.range(1, 300) as usize),
        2 => TITLES[r.below(TITLES.len() as u64) as usize].to_string(),
        3 => format!("v{}", r.below(100000)),
        4 => "é".repeat(r.range(20, 30) as usize),
        5 => "http://example.com/a?b=1&c=2#frag".to_string(),
        6 => "y".repeat(*r.pick(&[22usize, 23, 24, 25, 254, 255, 256, 257]) as usize),
        _ => "hello world".to_string(),
    }
}

fn gen_value(r: &mut Rng, depth: u32, floats: bool) -> Value {
    let k = if depth == 0 { r.below(6) } else { r.below(8) };
    match k {
        0 => Value::Null,
        1 => Value::Bool(r.chance(1, 2)),
        2 => match r.below(7) {
            0 => json!(0),
            1 => json!(r.below(24)),
            2 => json!(*r.pick(&[23u64, 24, 255, 256, 65535, 65536, 4294967295, 4294967296, i64::MAX as u64])),
            3 => json!(-(r.below(1000) as i64) - 1),
            4 => json!(*r.pick(&[-24i64, -25, -256, -257, -65536, -65537, i64::MIN])),
            _ => json!(r.next() as i64),
        },
        3 => {
            if floats {
                json!(*r.pick(&[0.5f64, -3.25, 1.0e10, 1.1, 3.141592653589793, 65504.0, 1.0e-7, -0.0, 100000.5]))
            } else {
                json!(r.below(1000))
            }
        }
        4 | 5 => Value::String(gen_string(r)),
        6 => Value::Array((0..r.below(5)).map(|_| gen_value(r, depth - 1, floats)).collect()),
        _ => {
            let mut m = serde_json::Map::new();
            for i in 0..r.below(5) {
                let key = match r.below(4) {
                    0 => format!("k{i}"),
                    1 => format!("ключ{i}"),
                    2 => format!("key with space {i}"),
                    _ => format!("{}{i}", "k".repeat(r.range(1, 30) as usize)),
                };
                m.insert(key, gen_value(r, depth - 1, floats));
            }
            Value::Object(m)
        }
    }
}

fn gen_object(r: &mut Rng, floats: bool) -> Value {
    let mut m = serde_json::Map::new();
    for i in 0..r.range(1, 5) {
        m.insert(format!("f{i}"), gen_value(r, 2, floats));
    }
    Value::Object(m)
}

#[derive(Clone, Debug)]
struct Supplied {
    title: Option<String>,
    format: String,
    cgi: Vec<Value>,
    /// label, data, kind ("Json"/"Cbor"), is-actions
    assertions: Vec<(String, Value, &'static str)>,
    /// title, format, relationship, instance_id
    ingredients: Vec<(String, String, String, String)>,
    thumbnail: Option<(String, Vec<u8>)>,
    claim_version: u8,
    hash_alg: Option<&'static str>,
}

const CUSTOM_LABELS: [&str; 11] = [
    "org.verif.custom.extra",
    "verif.custom",
    "org.verif",
    "org.verif.custom",
    "org.verif.custom",
    "com.example.test-assert",
    "org.verif.with_underscore",
    "org.verif.UPPER.Case9",
    "org.verif.a.b.c.d.e.f.g",
    "org.verif.data",
    "x.y",
];

fn gen_supplied(r: &mut Rng, format: &str, thorough: bool) -> Supplied {
    let title = if r.chance(1, 12) { None } else { Some(TITLES[r.below(TITLES.len() as u64) as usize].to_string()) };
    let claim_version = if r.chance(1, 4) { 1 } else { 2 };
    let mut cgi = vec![];
    // a version 2 claim allows exactly one claim_generator_info entry (Claim::build)
    for i in 0..(if claim_version == 2 { 1 } else { r.range(1, 2) }) {
        let mut g = json!({"name": if i == 0 { "verif harness".to_string() } else { gen_string(r) + "g" }, "version": format!("{}.{}", r.below(10), r.below(100))});
        if r.chance(1, 3) {
            g["org.verif.extra"] = json!(gen_string(r));
        }
        cgi.push(g);
    }
    let n_ing = r.below(3) as usize;
    let mut ingredients = vec![];
    for i in 0..n_ing {
        let rel = *r.pick(&["componentOf", "inputTo"]);
        ingredients.push((
            format!("ingredient {i} {}", TITLES[r.below(TITLES.len() as u64) as usize]),
            r.pick(&["image/jpeg", "image/png", "application/octet-stream", "video/mp4"]).to_string(),
            rel.to_string(),
            format!("xmp:iid:verif-{}-{i}", r.below(1_000_000)),
        ));
    }
    let mut assertions: Vec<(String, Value, &'static str)> = vec![];
    // the actions assertion (needed: a claim must carry c2pa.created / c2pa.opened)
    let mut actions = vec![json!({"action": "c2pa.created", "digitalSourceType": "http://cv.iptc.org/newscodes/digitalsourcetype/digitalCapture"})];
    for _ in 0..r.below(3) {
        let mut a = json!({"action": *r.pick(&["c2pa.edited", "c2pa.color_adjustments", "c2pa.cropped", "c2pa.filtered", "org.verif.custom_action"])});
        if r.chance(1, 2) {
            a["parameters"] = json!({"org.verif.p": gen_value(r, 1, false)});
        }
        if r.chance(1, 3) {
            a["description"] = json!(gen_string(r));
        }
        if r.chance(1, 4) {
            a["when"] = json!("2024-05-06T07:08:09Z");
        }
        actions.push(a);
    }
    // the typed actions path is taken for every label starting with `c2pa.actions` and always writes `c2pa.actions.v2`
    let actions_label = if r.chance(1, 5) { "c2pa.actions.v2" } else { "c2pa.actions" };
    assertions.push((actions_label.to_string(), json!({"actions": actions}), "Cbor"));
    let n = if thorough { r.below(7) } else { r.below(5) } as usize;
    for _ in 0..n {
        match r.below(9) {
            0 | 1 | 2 => {
                let l = *r.pick(&CUSTOM_LABELS);
                assertions.push((l.to_string(), gen_object(r, true), "Json"));
            }
            3 | 4 | 5 => {
                let l = *r.pick(&CUSTOM_LABELS);
                let fl = r.chance(1, 2);
                assertions.push((l.to_string(), gen_object(r, fl), "Cbor"));
            }
            6 => assertions.push((
                "cawg.training-mining".to_string(),
                json!({"entries": {"cawg.ai_inference": {"use": "notAllowed"}, "cawg.ai_generative_training": {"use": "constrained", "constraint_info": gen_string(r)}}}),
                "Cbor",
            )),
            7 => assertions.push((
                "stds.schema-org.CreativeWork".to_string(),
                json!({"@context": "http://schema.org/", "@type": "CreativeWork", "author": [{"@type": "Person", "name": gen_string(r)}]}),
                "Json",
            )),
            _ => assertions.push((
                "org.verif.big".to_string(),
                json!({"blob": "z".repeat(*r.pick(&[1000usize, 65000, 66000, 200000])), "n": r.below(1000)}),
                if r.chance(1, 2) { "Json" } else { "Cbor" },
            )),
        }
    }
    let thumbnail = if r.chance(1, 3) {
        let bytes = std::fs::read(fixtures().join("thumbnail.jpg")).unwrap_or_else(|_| vec![0xff, 0xd8, 0xff, 0xd9]);
        Some(("image/jpeg".to_string(), bytes))
    } else {
        None
    };
    Supplied {
        title,
        format: format.to_string(),
        cgi,
        assertions,
        ingredients,
        thumbnail,
        claim_version,
        hash_alg: *r.pick(&[None, None, Some("sha256"), Some("sha384"), Some("sha512")]),
    }
}

fn definition_json(s: &Supplied) -> Value {
    let mut d = json!({
        "format": s.format,
        "claim_generator_info": s.cgi,
        "claim_version": s.claim_version,
        "assertions": s.assertions.iter().map(|(l, data, kind)| {
            let mut a = json!({"label": l, "data": data});
            if *kind == "Json" { a["kind"] = json!("Json"); }
            a
        }).collect::<Vec<_>>(),
        "ingredients": s.ingredients.iter().map(|(t, f, rel, iid)| json!({"title": t, "format": f, "relationship": rel, "instance_id": iid})).collect::<Vec<_>>(),
    });
    if let Some(t) = &s.title {
        d["title"] = json!(t);
    }
    if let Some(a) = s.hash_alg {
        d["hash_alg"] = json!(a);
    }
    if let Some((f, _)) = &s.thumbnail {
        d["thumbnail"] = json!({"format": f, "identifier": "verif-thumb.jpg"});
    }
    d
}

// ---------------------------------------------------------------------------------------------
// implementation driver

struct Signed {
    asset: Vec<u8>,
    manifest: Vec<u8>,
}

/// where the manifest store goes: embedded, sidecar (`no_embed`), remote (`no_embed` + URL,
/// XMP reference written), embedded + remote URL
#[derive(Clone, Copy, Debug, PartialEq)]
enum Mode {
    Embed,
    Sidecar,
    Remote,
    EmbedRemote,
}

const REMOTE_URL: &str = "https://verif.invalid/manifests/c03.c2pa";

fn sign(s: &Supplied, src: &[u8], signer_alg: &str, settings: &str, mode: Mode) -> c2pa::Result<Signed> {
    let ctx = Context::new().with_settings(settings)?;
    let mut b = Builder::from_context(ctx).with_definition(definition_json(s).to_string().as_str())?;
    if let Some((_, bytes)) = &s.thumbnail {
        b.add_resource("verif-thumb.jpg", Cursor::new(bytes.clone()))?;
    }
    match mode {
        Mode::Embed => {}
        Mode::Sidecar => {
            b.set_no_embed(true);
        }
        Mode::Remote => {
            b.set_no_embed(true);
            b.set_remote_url(REMOTE_URL);
        }
        Mode::EmbedRemote => {
            b.set_remote_url(REMOTE_URL);
        }
    }
    let mut out = Cursor::new(Vec::new());
    let manifest = if signer_alg == "ephemeral" {
        let signer = EphemeralSigner::new("verif.test")?;
        b.sign(&signer, &s.format, &mut Cursor::new(src.to_vec()), &mut out)?
    } else {
        let signer = test_signer(signer_alg)?;
        b.sign(signer.as_ref(), &s.format, &mut Cursor::new(src.to_vec()), &mut out)?
    };
    Ok(Signed { asset: out.into_inner(), manifest })
}

fn read(fmt: &str, data: &[u8], settings: &str) -> Result<(String, Value, Reader), String> {
    let ctx = Context::new().with_settings(settings).map_err(|e| format!("{e:?}"))?;
    let r = Reader::from_context(ctx).with_stream(fmt, Cursor::new(data.to_vec())).map_err(|e| format!("{e:?}"))?;
    let v: Value = serde_json::from_str(&r.json()).map_err(|e| e.to_string())?;
    Ok((format!("{:?}", r.validation_state()), v, r))
}

/// read a sidecar / remote manifest store against its asset
fn read_detached(fmt: &str, manifest: &[u8], data: &[u8], settings: &str) -> Result<(String, Value, Reader), String> {
    let ctx = Context::new().with_settings(settings).map_err(|e| format!("{e:?}"))?;
    let r = Reader::from_context(ctx).with_manifest_data_and_stream(manifest, fmt, Cursor::new(data.to_vec())).map_err(|e| format!("{e:?}"))?;
    let v: Value = serde_json::from_str(&r.json()).map_err(|e| e.to_string())?;
    Ok((format!("{:?}", r.validation_state()), v, r))
}

/// `label#instance` of a stored label such as `c2pa.ingredient.v3__1`
fn label_inst(l: &str) -> String {
    match l.rsplit_once("__") {
        Some((base, n)) if n.parse::<u64>().is_ok() => format!("{base}#{n}"),
        _ => format!("{l}#0"),
    }
}

/// implementation reply of the `report` request
fn report_reply(m: &Value) -> String {
    let reported: Vec<String> = m
        .get("assertions")
        .and_then(|x| x.as_array())
        .map(|a| a.iter().map(|x| format!("{}#{}", x.get("label").and_then(|l| l.as_str()).unwrap_or("?"), x.get("instance").and_then(|i| i.as_u64()).unwrap_or(0))).collect())
        .unwrap_or_default();
    let ing: Vec<String> = m
        .get("ingredients")
        .and_then(|x| x.as_array())
        .map(|a| a.iter().map(|x| label_inst(x.get("label").and_then(|l| l.as_str()).unwrap_or("?"))).collect())
        .unwrap_or_default();
    let thumb = m
        .get("thumbnail")
        .and_then(|t| t.get("identifier"))
        .and_then(|x| x.as_str())
        .map(|id| label_inst(id.rsplit('/').next().unwrap_or("?")))
        .unwrap_or("-".into());
    format!(
        "{} {} ing={} thumb={}",
        if m.get("format").is_some() { "fmt" } else { "nofmt" },
        if reported.is_empty() { "-".to_string() } else { reported.join(",") },
        if ing.is_empty() { "-".to_string() } else { ing.join(",") },
        thumb
    )
}

fn report_req(s: &Supplied) -> String {
    let labels: Vec<&str> = s.assertions.iter().map(|(l, _, _)| l.as_str()).collect();
    format!(
        "C03 report v={} labels={} ing={} thumb={}",
        s.claim_version,
        if labels.is_empty() { "-".to_string() } else { labels.join(",") },
        s.ingredients.len(),
        if s.thumbnail.is_some() { 1 } else { 0 }
    )
}

/// `<state> A=<success>;<informational>;<failure> D=-` of the active manifest (the format of
/// the C04 model's `resultsStr`)
fn codes_reply(state: &str, report: &Value) -> String {
    let am = &report["validation_results"]["activeManifest"];
    let list = |k: &str| -> String {
        am.get(k).and_then(|x| x.as_array()).map(|a| a.iter().filter_map(|c| c.get("code").and_then(|x| x.as_str())).collect::<Vec<_>>().join(",")).unwrap_or_default()
    };
    // ingredient deltas that hold no failure code (unsigned ingredients log the informational
    // `ingredient.unknownProvenance`) do not influence the state and are not modelled
    let failing = report["validation_results"]
        .get("ingredientDeltas")
        .and_then(|x| x.as_array())
        .map(|a| a.iter().filter(|d| d["validationDeltas"]["failure"].as_array().map(|f| !f.is_empty()).unwrap_or(false)).count())
        .unwrap_or(0);
    let deltas = if failing == 0 { "-".to_string() } else { format!("{failing}-failing-deltas") };
    format!("{} A={};{};{} D={deltas}", state.to_lowercase(), list("success"), list("informational"), list("failure"))
}

/// The JSON report renders byte strings as base64 text: an object member that is a non-empty
/// array of integers 0..=255 is indistinguishable from a byte string and comes back as standard
/// base64. The same rendering is applied (independently written) to the supplied side;
/// everything else is compared literally.
fn render_bytes(v: &Value) -> Value {
    fn b64(bytes: &[u8]) -> String {
        const T: &[u8; 64] = b"ABCDEFGHIJKLMNOPQRSTUVWXYZabcdefghijklmnopqrstuvwxyz0123456789+/";
        let mut out = String::new();
        for ch in bytes.chunks(3) {
            let n = (ch[0] as u32) << 16 | (*ch.get(1).unwrap_or(&0) as u32) << 8 | *ch.get(2).unwrap_or(&0) as u32;
            out.push(T[(n >> 18) as usize & 63] as char);
            out.push(T[(n >> 12) as usize & 63] as char);
            out.push(if ch.len() > 1 { T[(n >> 6) as usize & 63] as char } else { '=' });
            out.push(if ch.len() > 2 { T[n as usize & 63] as char } else { '=' });
        }
        out
    }
    match v {
        Value::Object(m) => Value::Object(
            m.iter()
                .map(|(k, x)| {
                    let y = match x {
                        Value::Array(a) if !a.is_empty() && a.iter().all(|e| e.as_u64().map(|n| n <= 255).unwrap_or(false)) => {
                            Value::String(b64(&a.iter().map(|e| e.as_u64().unwrap_or(0) as u8).collect::<Vec<_>>()))
                        }
                        other => render_bytes(other),
                    };
                    (k.clone(), y)
                })
                .collect(),
        ),
        Value::Array(a) => Value::Array(a.iter().map(render_bytes).collect()),
        other => other.clone(),
    }
}

fn same_json(a: &Value, b: &Value) -> bool {
    canon_json(&render_bytes(&json!({"w": a}))) == canon_json(&json!({"w": b}))
}

/// Oracle: compare the reported active manifest with what was supplied. Returns (class, detail).
fn compare_report(s: &Supplied, report: &Value, reader: &Reader) -> Vec<(&'static str, String)> {
    let mut bad = vec![];
    let active = report.get("active_manifest").and_then(|x| x.as_str()).unwrap_or("");
    let m = &report["manifests"][active];
    if m.is_null() {
        bad.push(("report-no-active-manifest", format!("active_manifest={active:?}")));
        return bad;
    }
    // title
    let rt = m.get("title").and_then(|x| x.as_str()).map(|x| x.to_string());
    if rt != s.title {
        bad.push(("report-title-differs", format!("supplied {:?} reported {:?}", s.title, rt)));
    }
    let rf = m.get("format").and_then(|x| x.as_str());
    if (s.claim_version == 1 || rf.is_some()) && rf != Some(s.format.as_str()) {
        bad.push(("report-format-differs", format!("supplied {} reported {:?}", s.format, m.get("format"))));
    }
    // claim generator info
    let rg = m.get("claim_generator_info").and_then(|x| x.as_array()).cloned().unwrap_or_default();
    if rg.len() != s.cgi.len() {
        bad.push(("report-generator-differs", format!("supplied {} entries, reported {}", s.cgi.len(), rg.len())));
    } else {
        for (i, (a, b)) in s.cgi.iter().zip(rg.iter()).enumerate() {
            let mut b2 = b.clone();
            if i == 0 {
                if let Some(o) = b2.as_object_mut() {
                    o.remove("org.contentauth.c2pa_rs");
                }
            }
            if !same_json(a, &b2) {
                bad.push(("report-generator-differs", format!("entry {i}: supplied {a} reported {b}")));
            }
        }
    }
    // assertions: exactly the supplied ones, in order
    let ra = m.get("assertions").and_then(|x| x.as_array()).cloned().unwrap_or_default();
    let mut used = vec![false; ra.len()];
    for (l, data, kind) in &s.assertions {
        let found = ra.iter().enumerate().position(|(i, a)| {
            !used[i] && a.get("label").and_then(|x| x.as_str()) == Some(norm_label(l)) && assertion_data_matches(l, data, &a["data"])
        });
        match found {
            Some(i) => {
                used[i] = true;
                let rk = ra[i].get("kind").and_then(|x| x.as_str()).unwrap_or("Cbor");
                if rk != *kind {
                    bad.push(("report-assertion-kind-differs", format!("{l}: supplied kind {kind}, reported {rk}")));
                }
            }
            None => {
                let same_label: Vec<String> = ra.iter().filter(|a| a.get("label").and_then(|x| x.as_str()) == Some(norm_label(l))).map(|a| a["data"].to_string()).collect();
                if same_label.is_empty() {
                    bad.push(("report-missing-assertion", format!("label {l} not reported; reported labels {:?}", ra.iter().map(|a| a["label"].to_string()).collect::<Vec<_>>())));
                } else {
                    let d = data.to_string();
                    bad.push(("report-assertion-data-differs", format!("label {l}: supplied {} reported {}", &d[..d.len().min(300)], &same_label[0][..same_label[0].len().min(300)])));
                }
            }
        }
    }
    for (i, a) in ra.iter().enumerate() {
        if !used[i] {
            bad.push(("report-extra-assertion", format!("reported but not supplied: {}", a["label"])));
        }
    }
    // order of the reported assertions = order supplied
    let supplied_labels: Vec<&str> = s.assertions.iter().map(|(l, _, _)| norm_label(l)).collect();
    let reported_labels: Vec<&str> = ra.iter().filter_map(|a| a.get("label").and_then(|x| x.as_str())).collect();
    if bad.is_empty() && supplied_labels != reported_labels {
        bad.push(("report-assertion-order-differs", format!("supplied {supplied_labels:?} reported {reported_labels:?}")));
    }
    // ingredients
    let ri = m.get("ingredients").and_then(|x| x.as_array()).cloned().unwrap_or_default();
    if ri.len() != s.ingredients.len() {
        bad.push(("report-ingredient-count-differs", format!("supplied {} reported {}", s.ingredients.len(), ri.len())));
    } else {
        for ((t, f, rel, iid), r) in s.ingredients.iter().zip(ri.iter()) {
            let g = |k: &str| r.get(k).and_then(|x| x.as_str()).unwrap_or("<none>").to_string();
            if g("title") != *t || g("format") != *f || g("relationship") != *rel || g("instance_id") != *iid {
                bad.push(("report-ingredient-differs", format!("supplied ({t},{f},{rel},{iid}) reported {r}")));
            }
            if r.get("validation_status").is_some() || r.get("active_manifest").is_some() {
                bad.push(("report-ingredient-differs", format!("unsigned ingredient reports manifest/validation data: {r}")));
            }
        }
    }
    // thumbnail
    match (&s.thumbnail, m.get("thumbnail")) {
        (None, None) => {}
        (Some((f, bytes)), Some(t)) => {
            if t.get("format").and_then(|x| x.as_str()) != Some(f.as_str()) {
                bad.push(("report-thumbnail-differs", format!("format supplied {f} reported {t}")));
            }
            let id = t.get("identifier").and_then(|x| x.as_str()).unwrap_or("");
            let mut out = Cursor::new(Vec::new());
            match reader.resource_to_stream(id, &mut out) {
                Ok(_) if out.get_ref() == bytes => {}
                Ok(_) => bad.push(("report-thumbnail-differs", format!("bytes differ: supplied {} reported {}", bytes.len(), out.get_ref().len()))),
                Err(e) => bad.push(("report-thumbnail-differs", format!("resource {id} unreadable: {e:?}"))),
            }
        }
        (a, b) => bad.push(("report-thumbnail-differs", format!("supplied {:?} reported {:?}", a.as_ref().map(|x| &x.0), b))),
    }
    if m.get("redactions").is_some() {
        bad.push(("report-redactions-differ", format!("none supplied, reported {}", m["redactions"])));
    }
    bad
}

/// documented re-labelling: the typed actions assertion is written with its current version
fn norm_label(l: &str) -> &str {
    if l.starts_with("c2pa.actions") {
        "c2pa.actions.v2"
    } else {
        l
    }
}

fn assertion_data_matches(label: &str, supplied: &Value, reported: &Value) -> bool {
    if label.starts_with("c2pa.actions") {
        // the builder may decorate actions (settings); every supplied action must be there,
        // in order, with every supplied member unchanged, and no other action
        let sa = supplied["actions"].as_array().cloned().unwrap_or_default();
        let ra = reported["actions"].as_array().cloned().unwrap_or_default();
        if sa.len() != ra.len() {
            return false;
        }
        for (a, b) in sa.iter().zip(ra.iter()) {
            for (k, v) in a.as_object().into_iter().flatten() {
                if !same_json(v, &b[k]) {
                    return false;
                }
            }
        }
        true
    } else {
        same_json(supplied, reported)
    }
}

fn sha(alg: &str, parts: &[&[u8]]) -> Vec<u8> {
    match alg {
        "sha384" => {
            let mut h = sha2::Sha384::new();
            parts.iter().for_each(|p| h.update(p));
            h.finalize().to_vec()
        }
        "sha512" => {
            let mut h = sha2::Sha512::new();
            parts.iter().for_each(|p| h.update(p));
            h.finalize().to_vec()
        }
        _ => {
            let mut h = sha2::Sha256::new();
            parts.iter().for_each(|p| h.update(p));
            h.finalize().to_vec()
        }
    }
}

fn is_bmff(fmt: &str) -> bool {
    matches!(fmt, "video/mp4" | "image/avif" | "image/heic" | "image/heif" | "audio/mp4" | "video/quicktime")
}

fn main() {
    let args: Vec<String> = std::env::args().collect();
    if args.len() >= 2 && args[1] == "explore" {
        let mut r = Rng::new(args.get(2).and_then(|x| x.parse().ok()).unwrap_or(7));
        let fmt = args.get(3).map(|x| x.as_str()).unwrap_or("image/jpeg");
        let file = unsigned_sources().into_iter().find(|(f, _)| *f == fmt).map(|(_, n)| n).unwrap_or("IMG_0003.jpg");
        let src = std::fs::read(fixtures().join(file)).expect("src");
        let s = gen_supplied(&mut r, fmt, true);
        println!("{}", serde_json::to_string_pretty(&definition_json(&s)).unwrap().chars().take(6000).collect::<String>());
        match sign(&s, &src, "es256", &trust_settings(), Mode::Embed) {
            Ok(signed) => {
                let (st, rep, reader) = read(fmt, &signed.asset, &trust_settings()).expect("read");
                println!("state {st}\n{}", serde_json::to_string_pretty(&rep).unwrap().chars().take(12000).collect::<String>());
                println!("oracle: {:?}", compare_report(&s, &rep, &reader));
                println!("hooks: {:?}", c2pa::verif_hooks::c03::active_data_hashes(&signed.manifest).map(|(a, v)| (a, v.iter().map(|(d, n)| (d.exclusions.clone(), d.pad.len(), d.pad2.as_ref().map(|p| p.len()), *n)).collect::<Vec<_>>())));
                println!("loc src {:?}", c2pa::verif_hooks::c07::object_locations(fmt, &mut Cursor::new(src.clone())));
                println!("loc out {:?}", c2pa::verif_hooks::c07::object_locations(fmt, &mut Cursor::new(signed.asset.clone())));
            }
            Err(e) => println!("sign failed: {e:?}"),
        }
        return;
    }
    main_with("C03", run);
}

struct Case<'a> {
    fmt: &'a str,
    src: &'a [u8],
    supplied: Supplied,
    signer: &'a str,
    trusted: bool,
    box_hash: bool,
    mode: Mode,
    /// also read a tampered copy back
    tamper: bool,
}

fn settings_for(c: &Case) -> String {
    let mut v: Value = serde_json::from_str(&if c.trusted { trust_settings() } else { base_settings() }).unwrap();
    if c.box_hash {
        v["core"] = json!({"prefer_compress_manifests": true});
    }
    v.to_string()
}

fn locs_str(l: &[(usize, usize, u8)]) -> String {
    if l.is_empty() {
        "-".into()
    } else {
        l.iter().map(|(o, n, k)| format!("{o}:{n}:{k}")).collect::<Vec<_>>().join(",")
    }
}

fn one_case(run: &mut Run, c: &Case, tag: &str) {
    let settings = settings_for(c);
    let key = format!("{tag} fmt={} signer={} v={} alg={:?} box={} trust={} mode={:?} n_asn={} n_ing={} thumb={}", c.fmt, c.signer, c.supplied.claim_version, c.supplied.hash_alg, c.box_hash, c.trusted, c.mode, c.supplied.assertions.len(), c.supplied.ingredients.len(), c.supplied.thumbnail.is_some());
    run.count(&format!("format:{}", c.fmt));
    run.count(&format!("signer:{}", c.signer));
    run.count(&format!("hash_alg:{}", c.supplied.hash_alg.unwrap_or("default")));
    run.count(&format!("claim_version:{}", c.supplied.claim_version));
    run.count(&format!("mode:{:?}", c.mode));
    run.count(if c.box_hash { "binding:box-hash(compressed)" } else if is_bmff(c.fmt) { "binding:bmff-hash" } else { "binding:data-hash" });
    run.count(&format!("assertions:{}", c.supplied.assertions.len()));
    run.count(&format!("ingredients:{}", c.supplied.ingredients.len()));
    let detached = matches!(c.mode, Mode::Sidecar | Mode::Remote);
    // the report-model request: labels in supplied order, ingredient count, thumbnail
    let req = report_req(&c.supplied);
    let s2 = c.supplied.clone();
    let (src2, signer2, settings2, mode2) = (c.src.to_vec(), c.signer.to_string(), settings.clone(), c.mode);
    let signed = match guarded(move || sign(&s2, &src2, &signer2, &settings2, mode2)) {
        Err(p) => {
            let idx = run.case(req, "panic".into());
            run.fail(idx, "panic", format!("{key}: panic while signing: {p}"));
            return;
        }
        Ok(Err(c2pa::Error::XmpNotSupported)) if c.mode != Mode::Embed && c.mode != Mode::Sidecar => {
            // the format has no remote-reference writer: not a supported combination
            run.count(&format!("remote-ref-unsupported:{}", c.fmt));
            return;
        }
        Ok(Err(e)) => {
            let idx = run.case(req, "sign-error".into());
            let es = format!("{e:?}");
            run.fail(idx, "sign-failed", format!("{key}: signing a well-formed definition failed: {}", &es[..es.len().min(300)]));
            return;
        }
        Ok(Ok(s)) => s,
    };
    let (fmt2, asset2, manifest2, settings2) = (c.fmt.to_string(), signed.asset.clone(), signed.manifest.clone(), settings.clone());
    let rd = guarded(move || if detached { read_detached(&fmt2, &manifest2, &asset2, &settings2) } else { read(&fmt2, &asset2, &settings2) });
    let (state, report, reader) = match rd {
        Err(p) => {
            let idx = run.case(req, "panic".into());
            run.fail(idx, "panic", format!("{key}: panic while reading the signed asset: {p}"));
            return;
        }
        Ok(Err(e)) => {
            let idx = run.case(req, "read-error".into());
            run.fail(idx, "signed-asset-unreadable", format!("{key}: {e}"));
            return;
        }
        Ok(Ok(x)) => x,
    };
    // implementation reply of the report request
    let active = report.get("active_manifest").and_then(|x| x.as_str()).unwrap_or("").to_string();
    let m = &report["manifests"][&active];
    let idx = run.case(req, report_reply(m));
    // --- oracle ---
    let want = if c.trusted && c.signer != "ephemeral" { "Trusted" } else { "Valid" };
    if state != "Valid" && state != "Trusted" {
        let fails = report["validation_results"]["activeManifest"]["failure"].to_string();
        run.fail(idx, "signed-asset-not-valid", format!("{key}: state {state}; failures {}", &fails[..fails.len().min(400)]));
    } else if state != want {
        run.fail(idx, "state-not-as-configured", format!("{key}: state {state}, expected {want}"));
    }
    let bad = compare_report(&c.supplied, &report, &reader);
    for (class, detail) in &bad {
        run.fail(idx, class, format!("{key}: {detail}"));
    }
    // signature algorithm reported
    if c.signer != "ephemeral" {
        let ra = m["signature_info"]["alg"].as_str().unwrap_or("").to_lowercase();
        if ra != c.signer {
            run.fail(idx, "report-signature-alg-differs", format!("{key}: reported alg {ra}"));
        }
    }
    // the store returned by sign is the one embedded (embedded modes) / nothing is embedded
    match (detached, c2pa::jumbf_io::load_jumbf_from_memory(c.fmt, &signed.asset)) {
        (false, Ok(j)) if j == signed.manifest => {}
        (false, Ok(j)) => run.fail(idx, "returned-manifest-differs-from-embedded", format!("{key}: returned {} bytes, embedded {} bytes", signed.manifest.len(), j.len())),
        (false, Err(e)) => run.fail(idx, "signed-asset-unreadable", format!("{key}: load_jumbf: {e:?}")),
        (true, Ok(j)) => run.fail(idx, "detached-output-holds-a-store", format!("{key}: the output of a no-embed signing holds a {}-byte store", j.len())),
        (true, Err(_)) => {}
    }
    if bad.is_empty() && (state == "Valid" || state == "Trusted") {
        run.nontrivial(key.clone());
    }
    let data_hash_path = !c.box_hash && !is_bmff(c.fmt);
    // --- validation codes read back (model: C03.readBack = C06 signature codes + hashed URIs + binding, C04 state) ---
    // one hashed-URI check per stored assertion: thumbnail, ingredients, supplied assertions, hard binding
    let n_uris = c.supplied.assertions.len() + c.supplied.ingredients.len() + usize::from(c.supplied.thumbnail.is_some()) + 1;
    let trust_bit = if c.trusted && c.signer != "ephemeral" { 1 } else { 0 };
    // --- container-level correspondence (data-hash path) ---
    if data_hash_path {
        let hashes = c2pa::verif_hooks::c03::active_data_hashes(&signed.manifest);
        let l0 = c2pa::verif_hooks::c07::object_locations(c.fmt, &mut Cursor::new(c.src.to_vec()));
        let l1 = c2pa::verif_hooks::c07::object_locations(c.fmt, &mut Cursor::new(signed.asset.clone()));
        if let (Ok((alg, hs)), Ok(l0), Ok(l1)) = (hashes, l0, l1) {
            if hs.len() == 1 {
                let (dh, len) = &hs[0];
                // `additionalExclusionsPresent` is logged when the DataHash holds more than one exclusion
                let extra = if dh.exclusions.as_ref().map(|e| e.len() > 1).unwrap_or(false) { 1 } else { 0 };
                run.case(format!("C03 readback trust={trust_bit} sig=1 uris={n_uris} bind=match extra={extra}"), codes_reply(&state, &report));
                run.count("readback-cases");
                // EmbedRemote: the first pass runs on source + XMP reference, which is not observable from outside
                let req = match c.mode {
                    Mode::Embed => Some(format!("C03 flow alg={alg} src={} out={} locs0={} locs1={}", c.src.len(), signed.asset.len(), locs_str(&l0), locs_str(&l1))),
                    // no-embed: the output is the intermediate stream; its locations are the first-pass ones
                    Mode::Sidecar | Mode::Remote => Some(format!("C03 noembed alg={alg} len={} locs={}", signed.asset.len(), locs_str(&l1))),
                    Mode::EmbedRemote => None,
                };
                let ex: Vec<String> = dh.exclusions.clone().unwrap_or_default().iter().map(|r| format!("{}:{}", r.start(), r.length())).collect();
                let imp = format!("ok excl={} size={} pad={} pad2={}", if ex.is_empty() { "-".to_string() } else { ex.join(",") }, len, dh.pad.len(), dh.pad2.as_ref().map(|p| p.len().to_string()).unwrap_or("-".into()));
                let fi = match req {
                    Some(req) => {
                        run.count(if detached { "noembed-flow-cases" } else { "flow-cases" });
                        run.case(req, imp)
                    }
                    None => idx,
                };
                // binding oracle, computed independently: digest of the bytes outside the exclusions
                let mut ranges: Vec<(usize, usize)> = dh.exclusions.clone().unwrap_or_default().iter().map(|r| (r.start() as usize, r.length() as usize)).collect();
                ranges.sort();
                let mut parts: Vec<&[u8]> = vec![];
                let mut pos = 0usize;
                for (s, n) in &ranges {
                    if *s >= pos && s + n <= signed.asset.len() {
                        parts.push(&signed.asset[pos..*s]);
                        pos = s + n;
                    }
                }
                parts.push(&signed.asset[pos..]);
                if sha(&alg, &parts) != dh.hash {
                    run.fail(fi, "binding-not-over-complement-of-exclusions", format!("{key}: stored hash is not the {alg} digest of the bytes outside {ranges:?}"));
                }
                if detached && ranges.iter().any(|(_, n)| *n > 0) {
                    run.fail(fi, "detached-binding-has-exclusions", format!("{key}: a no-embed signing stored exclusions {ranges:?}"));
                }
                if let Some(want) = c.supplied.hash_alg {
                    if want != alg {
                        run.fail(fi, "hash-alg-not-used", format!("{key}: definition asked for {want}, claim uses {alg}"));
                    }
                }
                // --- tampered copy: one byte outside the exclusions flipped ---
                if c.tamper {
                    let end = ranges.iter().map(|(s, n)| s + n).max().unwrap_or(0);
                    let at = end + (signed.asset.len() - end) / 2;
                    if at < signed.asset.len() && !ranges.iter().any(|(s, n)| at >= *s && at < s + n) {
                        let mut t = signed.asset.clone();
                        t[at] ^= 0x01;
                        let (fmt2, manifest2, settings2) = (c.fmt.to_string(), signed.manifest.clone(), settings.clone());
                        let rd = guarded(move || if detached { read_detached(&fmt2, &manifest2, &t, &settings2) } else { read(&fmt2, &t, &settings2) });
                        match rd {
                            Ok(Ok((tstate, treport, _))) => {
                                let req = format!("C03 readback trust={trust_bit} sig=1 uris={n_uris} bind=mismatch extra={extra}");
                                let ti = run.case(req, codes_reply(&tstate, &treport));
                                run.count("tamper:reported");
                                if tstate == "Valid" || tstate == "Trusted" {
                                    run.fail(ti, "tampered-asset-reads-valid", format!("{key}: byte {at} flipped (outside {ranges:?}), state still {tstate}"));
                                }
                            }
                            // the container parser may reject the flipped byte: the asset is not accepted, which is fine
                            Ok(Err(_)) => run.count("tamper:rejected-by-parser"),
                            Err(p) => {
                                run.fail(idx, "panic", format!("{key}: panic while reading the tampered asset (byte {at}): {p}"));
                            }
                        }
                    }
                }
            } else {
                run.fail(idx, "unexpected-hard-bindings", format!("{key}: {} data hash assertions", hs.len()));
            }
        } else {
            run.notes.push(format!("{key}: flow probe unavailable"));
        }
    }
}

/// `n` (≥ 64) bytes that start like a C2PA manifest store: `jumb` superbox, `jumd` description
/// box with the C2PA UUID and label, then one box of random bytes
fn fake_store(r: &mut Rng, n: usize) -> Vec<u8> {
    let n = n.max(64);
    let mut v = Vec::with_capacity(n);
    v.extend_from_slice(&(n as u32).to_be_bytes());
    v.extend_from_slice(b"jumb");
    v.extend_from_slice(&30u32.to_be_bytes());
    v.extend_from_slice(b"jumd");
    v.extend_from_slice(&[0x63, 0x32, 0x70, 0x61, 0x00, 0x11, 0x00, 0x10, 0x80, 0x00, 0x00, 0xaa, 0x00, 0x38, 0x9b, 0x71]);
    v.push(0x03);
    v.extend_from_slice(b"c2pa\0");
    let rest = n - v.len();
    v.extend_from_slice(&(rest as u32).to_be_bytes());
    v.extend_from_slice(b"free");
    v.extend_from_slice(&r.bytes(rest - 8));
    v
}

/// The handler laws the Lean theorems assume (`C2pa.C03.Laws`), evaluated on the real
/// `save_jumbf_to_stream` / `get_object_locations_from_stream` of a format: for two payloads of
/// equal length, embedding the second over the first keeps the asset length, the reported
/// locations and every byte outside the C2PA region; the region is non-empty, inside the asset,
/// and the store read back is the second payload.
fn handler_laws(run: &mut Run, fmt: &str, src: &[u8], j: &[u8], j2: &[u8]) {
    // an implementation-side oracle only (no model request): failures are attached to the last case
    let idx = run.reqs.len().saturating_sub(1);
    let fmt_s = fmt.to_string();
    let (src_v, jv, j2v) = (src.to_vec(), j.to_vec(), j2.to_vec());
    let res = guarded(move || -> c2pa::Result<(Vec<u8>, Vec<u8>, Vec<(usize, usize, u8)>, Vec<(usize, usize, u8)>, Vec<u8>)> {
        let out0 = c2pa::jumbf_io::save_jumbf_to_memory(&fmt_s, &src_v, &jv)?;
        let out1 = c2pa::jumbf_io::save_jumbf_to_memory(&fmt_s, &out0, &j2v)?;
        let l0 = c2pa::verif_hooks::c07::object_locations(&fmt_s, &mut Cursor::new(out0.clone()))?;
        let l1 = c2pa::verif_hooks::c07::object_locations(&fmt_s, &mut Cursor::new(out1.clone()))?;
        let back = c2pa::jumbf_io::load_jumbf_from_memory(&fmt_s, &out1)?;
        Ok((out0, out1, l0, l1, back))
    });
    run.count("laws-cases");
    match res {
        Err(p) => {
            run.fail(idx, "panic", format!("handler laws fmt={fmt}: {p}"));
        }
        Ok(Err(e)) => {
            run.fail(idx, "handler-law-embed-failed", format!("fmt={fmt} n={}: {e:?}", j.len()));
        }
        Ok(Ok((out0, out1, l0, l1, back))) => {
            let cai: Vec<(usize, usize)> = l0.iter().filter(|x| x.2 == 0).map(|x| (x.0, x.1)).collect();
            let start = cai.iter().map(|x| x.0).min().unwrap_or(0);
            let end = cai.iter().map(|x| x.0 + x.1).max().unwrap_or(0);
            if cai.is_empty() || end <= start || end > out0.len() {
                run.fail(idx, "handler-law-reported", format!("fmt={fmt}: C2PA region {cai:?} empty or outside the {}-byte asset", out0.len()));
                return;
            }
            if out1.len() != out0.len() {
                run.fail(idx, "handler-law-stable-length", format!("fmt={fmt}: {} bytes after the first embed, {} after the second (equal payload lengths)", out0.len(), out1.len()));
                return;
            }
            if l0 != l1 {
                run.fail(idx, "handler-law-stable-layout", format!("fmt={fmt}: locations {l0:?} then {l1:?}"));
            }
            if let Some(x) = (0..out0.len()).find(|x| (*x < start || *x >= end) && out0[*x] != out1[*x]) {
                run.fail(idx, "handler-law-stable-bytes", format!("fmt={fmt}: byte {x} outside the region [{start},{end}) changed"));
            }
            if back != j2 {
                run.fail(idx, "handler-law-replace", format!("fmt={fmt}: the store read back is not the second payload"));
            }
            run.nontrivial(format!("laws fmt={fmt} n={}", j.len()));
        }
    }
}

pub fn run(run: &mut Run, rng: &mut Rng) {
    run.rule = "a generated manifest definition (title incl. unicode/empty/none, 1–2 claim generators, actions + 0–6 custom JSON/CBOR/standard assertions with nested values, duplicate and substring-related labels, 0–2 ingredients, optional thumbnail resource, claim version 1/2, hash alg default/sha256/384/512) is signed into a fixture asset with one of 8 signers (7 test-certificate algs + ephemeral Ed25519) under trust/no-trust and data-hash/box-hash settings, read back, and the reported state and active manifest compared with what was supplied; non-trivial = signing and reading succeeded and every comparison held; distinct by (section, format, signer, versions, settings, definition shape)".to_string();
    let thorough = run.thorough();
    let max_len = if thorough { 3_000_000 } else { 1_200_000 };
    let sources: Vec<(&'static str, Vec<u8>)> = unsigned_sources().into_iter().filter_map(|(f, n)| std::fs::read(fixtures().join(n)).ok().filter(|d| d.len() <= max_len).map(|d| (f, d))).collect();
    let signers = ["es256", "es384", "es512", "ps256", "ps384", "ps512", "ed25519", "ephemeral"];
    // A: every format once (thorough: three times), signer and settings rotating
    let rounds = if thorough { 3 } else { 1 };
    let mut k = 0usize;
    for round in 0..rounds {
        for (fmt, src) in &sources {
            let mut r = rng.fork();
            let supplied = gen_supplied(&mut r, fmt, thorough);
            let c = Case { fmt, src, supplied, signer: signers[k % signers.len()], trusted: k % 2 == 0, box_hash: (k + round) % 5 == 4, mode: Mode::Embed, tamper: true };
            one_case(run, &c, &format!("A{round}"));
            k += 1;
        }
    }
    // B: many definitions on the small formats
    let small: Vec<&(&'static str, Vec<u8>)> = sources.iter().filter(|(_, d)| d.len() <= 70_000).collect();
    let n = if thorough { 15000 } else { 800 };
    for i in 0..n {
        let mut r = rng.fork();
        let (fmt, src) = *r.pick(&small);
        let supplied = gen_supplied(&mut r, fmt, thorough);
        let mode = match r.below(8) { 0 => Mode::Sidecar, 1 => Mode::Remote, 2 => Mode::EmbedRemote, _ => Mode::Embed };
        let c = Case { fmt, src, supplied, signer: signers[r.below(signers.len() as u64) as usize], trusted: r.chance(1, 2), box_hash: mode == Mode::Embed && r.chance(1, 6), mode, tamper: r.chance(1, 6) };
        one_case(run, &c, &format!("B{i}"));
    }
    // C: signer × hash alg matrix on one small format
    if let Some((fmt, src)) = small.first().map(|x| (x.0, &x.1)) {
        for s in signers {
            for h in [Some("sha256"), Some("sha384"), Some("sha512")] {
                if !thorough && s != "ephemeral" && h == Some("sha256") && s.ends_with("384") {
                    continue;
                }
                let mut r = rng.fork();
                let mut supplied = gen_supplied(&mut r, fmt, false);
                supplied.hash_alg = h;
                let c = Case { fmt, src, supplied, signer: s, trusted: true, box_hash: false, mode: Mode::Embed, tamper: false };
                one_case(run, &c, "C");
            }
        }
    }
    // D: integers above i64::MAX in a custom payload (CBOR has unsigned 64-bit integers)
    if let Some((fmt, src)) = small.first().map(|x| (x.0, &x.1)) {
        for kind in ["Cbor", "Json"] {
            let mut r = rng.fork();
            let mut supplied = gen_supplied(&mut r, fmt, false);
            supplied.assertions.truncate(1);
            supplied.assertions.push(("org.verif.u64".to_string(), json!({"big": u64::MAX, "edge": (i64::MAX as u64) + 1}), kind));
            let (s2, src2) = (supplied.clone(), src.to_vec());
            let res = guarded(move || sign(&s2, &src2, "ephemeral", &base_settings(), Mode::Embed));
            let req = report_req(&supplied);
            match res {
                Ok(Ok(signed)) => match read(fmt, &signed.asset, &base_settings()) {
                    Ok((_, report, reader)) => {
                        let active = report.get("active_manifest").and_then(|x| x.as_str()).unwrap_or("").to_string();
                        let m = &report["manifests"][&active];
                        let idx = run.case(req, report_reply(m));
                        for (class, detail) in compare_report(&supplied, &report, &reader) {
                            run.fail(idx, class, format!("D kind={kind}: {detail}"));
                        }
                        run.count("u64-above-i64:accepted");
                    }
                    Err(e) => {
                        let idx = run.case(req, "read-error".into());
                        run.fail(idx, "signed-asset-unreadable", format!("D kind={kind}: {e}"));
                    }
                },
                Ok(Err(e)) => {
                    // no model request: the definition never reaches the claim
                    let es = format!("{e:?}");
                    let idx = run.reqs.len().saturating_sub(1);
                    run.fail(idx, "definition-int-above-i64-rejected", format!("D kind={kind}: a custom assertion holding an integer above i64::MAX is rejected: {}", &es[..es.len().min(200)]));
                    run.count("u64-above-i64:rejected");
                }
                Err(p) => {
                    let idx = run.reqs.len().saturating_sub(1);
                    run.fail(idx, "panic", format!("D kind={kind}: {p}"));
                }
            }
        }
    }
    // E: every format in the three detached / remote modes (once; thorough: with two signers)
    for (k, (fmt, src)) in sources.iter().enumerate() {
        for (mi, mode) in [Mode::Sidecar, Mode::Remote, Mode::EmbedRemote].into_iter().enumerate() {
            if !thorough && src.len() > 300_000 && mode != Mode::Sidecar {
                continue;
            }
            let mut r = rng.fork();
            let supplied = gen_supplied(&mut r, fmt, false);
            let c = Case { fmt, src, supplied, signer: signers[(k + mi) % signers.len()], trusted: (k + mi) % 2 == 0, box_hash: false, mode, tamper: mode != Mode::EmbedRemote };
            one_case(run, &c, &format!("E{mi}"));
        }
    }
    // F: the handler laws the theorems assume, on the real handlers of the data-hash formats
    let mut law_formats = 0;
    for (fmt, src) in &sources {
        if is_bmff(fmt) {
            continue;
        }
        law_formats += 1;
        let sizes: Vec<usize> = if thorough { vec![64, 255, 256, 1000, 20_000, 65_000, 65_519, 65_520, 65_535, 70_000, 200_000] } else if src.len() > 300_000 { vec![1000] } else { vec![64, 1000, 65_520, 70_000] };
        for n in sizes {
            let mut r = rng.fork();
            // payloads with the head of a C2PA JUMBF superbox (the JPEG writer looks for it), random body; equal lengths
            let j = fake_store(&mut r, n);
            let mut j2 = fake_store(&mut r, n);
            if j2 == j {
                let last = j2.len() - 1;
                j2[last] ^= 0xff;
            }
            handler_laws(run, fmt, src, &j, &j2);
        }
    }
    run.obligations.insert("handler-laws-checked-on-every-data-hash-format".to_string(), law_formats >= 8);
    run.obligations.insert("every-writable-format-signed".to_string(), sources.len() >= 10);
    run.notes.push("claim v2 has no dc:format in its CDDL (claim.rs serialize_v2), so `format` is compared for v1 claims and, for v2, only when the reader reports one".to_string());
    run.notes.push(format!("formats exercised: {}", sources.iter().map(|(f, d)| format!("{f}({}B)", d.len())).collect::<Vec<_>>().join(" ")));
}
