//! C15 — embeddable signing returns bytes of exactly the placeholder size.
//!
//! Request line (see lean/C2paModel/Model/C15.lean):
//!   C15 flow alg=<n> hash=<n> pre=<-|dh> excl=<none|-|s:l,s:l,…> rehash=<0|1> da=<-|r:c,r:c,…> [fmt=… real=… reserve=… title=…]
//!     alg    = length of the hash algorithm name ("sha256" -> 6), hash = digest length of that algorithm
//!     pre    = `-`: `Builder::placeholder` adds its own DataHash (ten dummy (0,2) exclusions);
//!              otherwise a DataHash the caller added before `placeholder` (pre-sized), as
//!              name;hash;pad;exclusions with exclusions `s:l,…` or `-`
//!     excl   = argument of `set_data_hash_exclusions` (`none` = not called, `-` = empty list)
//!     rehash = 1: the hash is (re)computed / stored afterwards (`update_hash_from_stream`, or the
//!              caller stores a DataHash with the digest when the offsets are synthetic)
//!     da     = dynamic assertions of the signer: reserve_size : length of the content returned
//!     da     entries may carry a third field `:c|:j|:b` — the kind of the content (CBOR, JSON, Binary)
//!     lost=1 : the Builder is rebuilt from its serialised JSON between `placeholder` and
//!              `set_data_hash_exclusions` (the recorded placeholder length is not serialised)
//!   C15 oflow guarded=<0|1> s0=<n> s1=<n> da=…   — caller-supplied BoxHash binding; s0/s1 = CBOR size of
//!              the BoxHash assertion when `placeholder` / `sign_embeddable` ran
//!   C15 legacy alg=<n> hash=<n> pre=<-|dh> excl=<-|s:l,…>  — data_hashed_placeholder + sign_data_hashed_embeddable
//!   reply: `ok slack=<n>` (same JUMBF length as the placeholder, n trailing zero bytes after the JUMBF)
//!          | `ok shorter=<d>` | `ok longer=<d>` (JUMBF bytes) | `err toolarge` | `err toosmall` | anything else
//!   fmt/real/reserve/title are not read by the model (they must not matter).

use std::io::Cursor;

use std::sync::Arc;

use c2pa::{
    assertions::{BoxHash, BoxMap, DataHash},
    dynamic_assertion::{DynamicAssertion, DynamicAssertionContent, PartialClaim},
    verif_hooks::{
        c14::data_hash_assertion_data,
        c15::{box_hash_assertion_data, builder_box_hash, builder_data_hash},
    },
    Builder, Context, EphemeralSigner, HashRange, Reader, Signer, SigningAlg, ValidationState,
};
use serde_bytes::ByteBuf;
use vh::common::{guarded, main_with, Rng, Run};

fn main() {
    main_with("C15", run);
}

// ---------------------------------------------------------------------------------------------
// signer with a chosen reserve and dynamic assertions of chosen sizes
// ---------------------------------------------------------------------------------------------

#[derive(Clone, Copy, PartialEq, Debug)]
enum Kind {
    Cbor,
    Json,
    Binary,
}

impl Kind {
    fn tag(self) -> &'static str {
        match self {
            Kind::Cbor => "c",
            Kind::Json => "j",
            Kind::Binary => "b",
        }
    }
}

struct Da {
    label: String,
    reserve: usize,
    content: usize,
    kind: Kind,
}

/// Valid JSON text of exactly `c >= 1` bytes.
fn json_of_size(c: usize) -> String {
    if c == 1 {
        "7".to_string()
    } else {
        format!("\"{}\"", "j".repeat(c - 2))
    }
}

fn hdr(n: usize) -> usize {
    if n < 24 {
        1
    } else if n < 256 {
        2
    } else if n < 65536 {
        3
    } else {
        5
    }
}

/// Valid CBOR of exactly `c >= 1` bytes (a byte string, or a one-element array around one).
fn cbor_of_size(c: usize) -> Vec<u8> {
    fn bstr(n: usize) -> Vec<u8> {
        let mut v = Vec::with_capacity(n + 5);
        if n < 24 {
            v.push(0x40 | n as u8);
        } else if n < 256 {
            v.extend([0x58, n as u8]);
        } else if n < 65536 {
            v.push(0x59);
            v.extend((n as u16).to_be_bytes());
        } else {
            v.push(0x5a);
            v.extend((n as u32).to_be_bytes());
        }
        v.extend(std::iter::repeat(0x5au8).take(n));
        v
    }
    for n in [c.saturating_sub(1), c.saturating_sub(2), c.saturating_sub(3), c.saturating_sub(5)] {
        if hdr(n) + n == c {
            return bstr(n);
        }
    }
    let mut v = vec![0x81];
    v.extend(cbor_of_size(c - 1));
    v
}

impl DynamicAssertion for Da {
    fn label(&self) -> String {
        self.label.clone()
    }

    fn reserve_size(&self) -> c2pa::Result<usize> {
        Ok(self.reserve)
    }

    fn content(&self, _label: &str, _size: Option<usize>, _claim: &PartialClaim) -> c2pa::Result<DynamicAssertionContent> {
        Ok(match self.kind {
            Kind::Cbor => DynamicAssertionContent::Cbor(cbor_of_size(self.content)),
            Kind::Json => DynamicAssertionContent::Json(json_of_size(self.content)),
            Kind::Binary => DynamicAssertionContent::Binary("application/octet-stream".into(), vec![0xb1; self.content]),
        })
    }
}

struct OwnSigner {
    inner: EphemeralSigner,
    reserve: usize,
    das: Vec<(usize, usize, Kind)>,
}

impl Signer for OwnSigner {
    fn sign(&self, data: &[u8]) -> c2pa::Result<Vec<u8>> {
        self.inner.sign(data)
    }

    fn alg(&self) -> SigningAlg {
        self.inner.alg()
    }

    fn certs(&self) -> c2pa::Result<Vec<Vec<u8>>> {
        self.inner.certs()
    }

    fn reserve_size(&self) -> usize {
        self.reserve
    }

    fn dynamic_assertions(&self) -> Vec<Box<dyn DynamicAssertion>> {
        self.das
            .iter()
            .enumerate()
            .map(|(i, (r, c, k))| {
                Box::new(Da { label: format!("org.verif.da{i}"), reserve: *r, content: *c, kind: *k }) as Box<dyn DynamicAssertion>
            })
            .collect()
    }
}

// ---------------------------------------------------------------------------------------------
// cases
// ---------------------------------------------------------------------------------------------

#[derive(Clone)]
struct PreDh {
    /// the caller cleared `name` / `alg` (public `Option` fields) after `DataHash::new`
    no_name: bool,
    no_alg: bool,
    name_len: usize,
    hash_len: usize,
    pad: usize,
    exclusions: Vec<(u64, u64)>,
}

#[derive(Clone)]
struct Case {
    fmt: &'static str,
    /// real: the composed placeholder is spliced into an asset, hashed, patched and read back
    real: bool,
    alg: &'static str,
    pre: Option<PreDh>,
    /// None = set_data_hash_exclusions not called; for `real` the first range is replaced by the
    /// manifest's own range
    excl: Option<Vec<(u64, u64)>>,
    rehash: bool,
    das: Vec<(usize, usize, Kind)>,
    reserve_extra: usize,
    title_len: usize,
    /// Some(n): the caller adds a BoxHash with n dummy boxes before `placeholder` (real assets only)
    boxhash: Option<usize>,
    /// the Builder is serialised to JSON and rebuilt after `placeholder`
    lost: bool,
    /// data_hashed_placeholder + sign_data_hashed_embeddable instead of placeholder + sign_embeddable
    legacy: bool,
}

fn hash_len(alg: &str) -> usize {
    match alg {
        "sha384" => 48,
        "sha512" => 64,
        _ => 32,
    }
}

fn excl_str(v: &[(u64, u64)]) -> String {
    if v.is_empty() {
        "-".to_string()
    } else {
        v.iter().map(|(s, l)| format!("{s}:{l}")).collect::<Vec<_>>().join(",")
    }
}

fn definition(alg: &str, title_len: usize) -> String {
    format!(
        r#"{{
  "claim_generator_info": [{{"name": "verif-c15", "version": "1"}}],
  "title": "{}",
  "hash_alg": "{}",
  "assertions": [
    {{"label": "c2pa.actions", "data": {{"actions": [{{"action": "c2pa.created", "digitalSourceType": "http://cv.iptc.org/newscodes/digitalsourcetype/digitalCapture"}}]}}}}
  ]
}}"#,
        "t".repeat(title_len),
        alg
    )
}

/// Undo `compose_manifest`: the (possibly zero padded) JUMBF bytes inside the composed form.
fn decompose(fmt: &str, composed: &[u8]) -> Option<Vec<u8>> {
    match fmt {
        // compose_manifest is the identity for these handlers
        "c2pa" | "image/tiff" | "image/jxl" | "application/pdf" => Some(composed.to_vec()),
        "image/png" => {
            let n = u32::from_be_bytes(composed.get(0..4)?.try_into().ok()?) as usize;
            if composed.get(4..8)? != b"caBX" || composed.len() != n + 12 {
                return None;
            }
            Some(composed.get(8..8 + n)?.to_vec())
        }
        "image/gif" => {
            // 21 ff 0b "C2PA_GIF" 01 00 00, data sub-blocks, 00
            if composed.get(0..14)? != [0x21, 0xff, 0x0b, b'C', b'2', b'P', b'A', b'_', b'G', b'I', b'F', 1, 0, 0] {
                return None;
            }
            let mut out = vec![];
            let mut i = 14;
            loop {
                let n = *composed.get(i)? as usize;
                i += 1;
                if n == 0 {
                    break;
                }
                out.extend_from_slice(composed.get(i..i + n)?);
                i += n;
            }
            if i != composed.len() {
                return None;
            }
            Some(out)
        }
        "image/jpeg" => {
            let mut out = vec![];
            let mut i = 0;
            let mut seq = 0u32;
            while i < composed.len() {
                if composed.get(i..i + 2)? != [0xff, 0xeb] {
                    return None;
                }
                let lp = u16::from_be_bytes(composed.get(i + 2..i + 4)?.try_into().ok()?) as usize;
                let body = composed.get(i + 4..i + 2 + lp)?;
                // CI(2) En(2) Z(4)
                let z = u32::from_be_bytes(body.get(4..8)?.try_into().ok()?);
                seq += 1;
                if z != seq {
                    return None;
                }
                let payload = if z == 1 { body.get(8..)? } else { body.get(16..)? };
                out.extend_from_slice(payload);
                i += 2 + lp;
            }
            Some(out)
        }
        _ => None,
    }
}

struct Assets {
    jpeg: Vec<u8>,
    png: Vec<u8>,
    gif: Vec<u8>,
    jxl: Vec<u8>,
}

impl Assets {
    fn get(&self, fmt: &str) -> &Vec<u8> {
        match fmt {
            "image/jpeg" => &self.jpeg,
            "image/gif" => &self.gif,
            "image/jxl" => &self.jxl,
            _ => &self.png,
        }
    }

    /// where the composed manifest is spliced in
    fn splice_offset(&self, fmt: &str) -> usize {
        match fmt {
            "image/jpeg" => 2, // after SOI
            "image/png" => 33, // after signature + IHDR
            "image/jxl" => {
                // after the signature box and the ftyp box
                let ftyp = u32::from_be_bytes(self.jxl[12..16].try_into().unwrap()) as usize;
                12 + ftyp
            }
            "image/gif" => {
                // after header, logical screen descriptor and global colour table
                let packed = self.gif[10];
                13 + if packed & 0x80 != 0 { 3 * (1usize << ((packed & 7) + 1)) } else { 0 }
            }
            _ => 0,
        }
    }
}

thread_local! {
    /// set by `judge`: the box list of the patched asset differs from the one with the placeholder
    static STRUCTURE_CHANGED: std::cell::Cell<bool> = const { std::cell::Cell::new(false) };
}

enum Outcome {
    Ok { slack: usize },
    Longer(usize),
    Shorter(usize),
    TooLarge,
    TooSmall,
    OtherErr(String),
}

struct FlowResult {
    outcome: Outcome,
    /// Some(state string) when the patched asset was read back
    readback: Option<Result<ValidationState, String>>,
    /// CBOR size of the hard-binding assertion at placeholder() / at signing
    ph_bind_cbor: usize,
    new_bind_cbor: usize,
    ph_len: usize,
    /// the real update_hash_from_stream ran (not the caller-digest replacement)
    real_rehash: bool,
}

fn err_class(e: &c2pa::Error) -> Outcome {
    match e {
        c2pa::Error::BadParam(m) if m.contains("larger than the placeholder") => Outcome::TooLarge,
        c2pa::Error::JumbfCreationError => Outcome::TooSmall,
        other => Outcome::OtherErr(format!("{other:?}").chars().take(160).collect()),
    }
}

fn dummy_box_hash(n: usize) -> BoxHash {
    BoxHash {
        boxes: (0..n)
            .map(|i| BoxMap {
                names: vec![format!("DUMMY{i:03}")],
                alg: Some("sha256".into()),
                hash: ByteBuf::from(vec![0u8; 32]),
                excluded: None,
                pad: ByteBuf::from(vec![]),
                range_start: 0,
                range_len: 0,
            })
            .collect(),
    }
}

fn bind_cbor(builder: &Builder, boxhash: bool) -> Result<usize, String> {
    if boxhash {
        let bh = builder_box_hash(builder).map_err(|e| format!("box hash {e}"))?;
        Ok(box_hash_assertion_data(&bh).map_err(|e| format!("{e}"))?.len())
    } else {
        let dh = builder_data_hash(builder).map_err(|e| format!("data hash {e}"))?;
        Ok(data_hash_assertion_data(&dh).map_err(|e| format!("{e}"))?.len())
    }
}

/// Compare the signed bytes with the placeholder bytes (JUMBF level), check the zero padding,
/// patch the asset in place and read it back.
fn judge(
    fmt: &str,
    ph: &[u8],
    signed: c2pa::Result<Vec<u8>>,
    asset: Option<&mut Vec<u8>>,
    off: usize,
) -> Result<(Outcome, Option<Result<ValidationState, String>>), String> {
    let bytes = match signed {
        Err(e) => return Ok((err_class(&e), None)),
        Ok(b) => b,
    };
    let ph_inner = decompose(fmt, ph).ok_or("decompose placeholder")?;
    let inner = decompose(fmt, &bytes).ok_or("decompose signed")?;
    // composed lengths must order the same way as the JUMBF lengths
    if (bytes.len() > ph.len()) != (inner.len() > ph_inner.len()) || (bytes.len() < ph.len()) != (inner.len() < ph_inner.len()) {
        return Err(format!("composed {} vs {} but JUMBF {} vs {}", bytes.len(), ph.len(), inner.len(), ph_inner.len()));
    }
    if inner.len() > ph_inner.len() {
        return Ok((Outcome::Longer(inner.len() - ph_inner.len()), None));
    }
    if inner.len() < ph_inner.len() {
        return Ok((Outcome::Shorter(ph_inner.len() - inner.len()), None));
    }
    let lbox = u32::from_be_bytes(inner.get(0..4).ok_or("lbox")?.try_into().unwrap()) as usize;
    if lbox > inner.len() || inner[lbox..].iter().any(|b| *b != 0) {
        return Err(format!("padding not zero / LBox {lbox} of {}", inner.len()));
    }
    let mut readback = None;
    if let Some(a) = asset {
        let names = |a: &Vec<u8>| -> Option<Vec<String>> {
            c2pa::verif_hooks::c07::box_map(fmt, &mut Cursor::new(a.clone()))?.ok().map(|m| m.into_iter().map(|b| b.names.join("+")).collect())
        };
        let before = names(a);
        a[off..off + bytes.len()].copy_from_slice(&bytes);
        // observation (not part of the statement): does the container still list the same boxes?
        STRUCTURE_CHANGED.with(|c| c.set(before.is_some() && names(a) != before));
        let st = Reader::from_context(Context::new())
            .with_stream(fmt, Cursor::new(a.clone()))
            .map(|r| r.validation_state())
            .map_err(|e| format!("{e:?}").chars().take(160).collect::<String>());
        readback = Some(st);
    }
    Ok((Outcome::Ok { slack: inner.len() - lbox }, readback))
}

fn run_legacy(case: &Case, assets: &Assets) -> Result<FlowResult, String> {
    let inner = EphemeralSigner::new("c15.test").map_err(|e| format!("signer {e}"))?;
    let reserve = inner.reserve_size() + case.reserve_extra;
    let signer = OwnSigner { inner, reserve, das: vec![] };
    let ctx = Context::new()
        .with_settings(r#"{"builder": {"thumbnail": {"enabled": false}}}"#)
        .map_err(|e| format!("settings {e}"))?;
    let mut builder = Builder::from_context(ctx)
        .with_definition(definition(case.alg, case.title_len))
        .map_err(|e| format!("definition {e}"))?;
    if let Some(pre) = &case.pre {
        // update_data_hash looks the assertion up by the fixed name "jumbf manifest"
        let mut dh = DataHash::new("jumbf manifest", case.alg);
        for (s, l) in &pre.exclusions {
            dh.add_exclusion(HashRange::new(*s, *l));
        }
        dh.set_hash(vec![0x11; pre.hash_len]);
        dh.add_padding(vec![0; pre.pad]);
        builder.add_assertion(DataHash::LABEL, &dh).map_err(|e| format!("add pre {e}"))?;
    }
    let ph = builder.data_hashed_placeholder(reserve, case.fmt).map_err(|e| format!("legacy placeholder {e}"))?;
    let ph_bind_cbor = bind_cbor(&builder, false)?;
    let off = assets.splice_offset(case.fmt);
    let mut excl = case.excl.clone().unwrap_or_default();
    let mut asset = None;
    let mut dh = DataHash::new("caller", case.alg);
    if case.real {
        let src = assets.get(case.fmt);
        let mut a = Vec::with_capacity(src.len() + ph.len());
        a.extend_from_slice(&src[..off]);
        a.extend_from_slice(&ph);
        a.extend_from_slice(&src[off..]);
        excl = vec![(off as u64, ph.len() as u64)];
        dh.add_exclusion(HashRange::new(off as u64, ph.len() as u64));
        dh.gen_hash_from_stream(&mut Cursor::new(a.clone())).map_err(|e| format!("hash {e}"))?;
        asset = Some(a);
    } else {
        for (s, l) in &excl {
            dh.add_exclusion(HashRange::new(*s, *l));
        }
        dh.set_hash(vec![0x22; hash_len(case.alg)]);
    }
    let _ = excl;
    let new_bind_cbor = data_hash_assertion_data(&dh).map_err(|e| format!("{e}"))?.len();
    let signed = builder.sign_data_hashed_embeddable(&signer, &dh, case.fmt);
    let (outcome, readback) = judge(case.fmt, &ph, signed, asset.as_mut(), off)?;
    Ok(FlowResult { outcome, readback, ph_bind_cbor, new_bind_cbor, ph_len: ph.len(), real_rehash: false })
}

fn run_flow(case: &Case, assets: &Assets) -> Result<FlowResult, String> {
    if case.legacy {
        return run_legacy(case, assets);
    }
    let inner = EphemeralSigner::new("c15.test").map_err(|e| format!("signer {e}"))?;
    let reserve = inner.reserve_size() + case.reserve_extra;
    let signer = OwnSigner { inner, reserve, das: case.das.clone() };
    let ctx = Arc::new(
        Context::new()
            .with_settings(r#"{"builder": {"thumbnail": {"enabled": false}}}"#)
            .map_err(|e| format!("settings {e}"))?
            .with_signer(signer),
    );
    let mut builder = Builder::from_shared_context(&ctx)
        .with_definition(definition(case.alg, case.title_len))
        .map_err(|e| format!("definition {e}"))?;
    if let Some(pre) = &case.pre {
        let mut dh = DataHash::new(&"n".repeat(pre.name_len), case.alg);
        for (s, l) in &pre.exclusions {
            dh.add_exclusion(HashRange::new(*s, *l));
        }
        dh.set_hash(vec![0x11; pre.hash_len]);
        dh.add_padding(vec![0; pre.pad]);
        if pre.no_name {
            dh.name = None;
        }
        if pre.no_alg {
            dh.alg = None;
        }
        builder.add_assertion(DataHash::LABEL, &dh).map_err(|e| format!("add pre {e}"))?;
    }
    if let Some(n) = case.boxhash {
        builder.add_assertion(BoxHash::LABEL, &dummy_box_hash(n)).map_err(|e| format!("add box hash {e}"))?;
    }
    let ph = builder.placeholder(case.fmt).map_err(|e| format!("placeholder {e}"))?;
    let ph_bind_cbor = bind_cbor(&builder, case.boxhash.is_some())?;

    if case.lost {
        // the Builder's own serialisation, read back the way a definition is loaded
        let json = serde_json::to_string(&builder).map_err(|e| format!("to json {e}"))?;
        builder = Builder::from_shared_context(&ctx).with_definition(json.as_str()).map_err(|e| format!("from json {e}"))?;
    }

    // embed
    let mut asset: Option<Vec<u8>> = None;
    let off = assets.splice_offset(case.fmt);
    let mut excl = case.excl.clone();
    if case.real {
        let src = assets.get(case.fmt);
        let mut a = Vec::with_capacity(src.len() + ph.len());
        a.extend_from_slice(&src[..off]);
        a.extend_from_slice(&ph);
        a.extend_from_slice(&src[off..]);
        if let Some(list) = excl.as_mut() {
            // first range := the manifest; the others are shifted behind it and clipped to the file
            let end = a.len() as u64;
            let base = (off + ph.len()) as u64;
            for (i, r) in list.iter_mut().enumerate() {
                if i == 0 {
                    *r = (off as u64, ph.len() as u64);
                } else {
                    let s = (base + r.0).min(end - 1);
                    *r = (s, r.1.min(end - s).max(1));
                }
            }
        }
        asset = Some(a);
    }
    if let Some(list) = &excl {
        builder
            .set_data_hash_exclusions(list.iter().map(|(s, l)| HashRange::new(*s, *l)).collect())
            .map_err(|e| format!("set excl {e}"))?;
    }
    let mut real_rehash = false;
    if case.rehash {
        if let Some(a) = &asset {
            builder
                .update_hash_from_stream(case.fmt, &mut Cursor::new(a.clone()))
                .map_err(|e| format!("update hash {e}"))?;
            real_rehash = true;
        } else {
            // synthetic offsets: the real update_hash_from_stream on a stream of zeros when every
            // range lies inside one of reasonable size …
            let cur = builder_data_hash(&builder).map_err(|e| format!("cur dh {e}"))?;
            let ranges = cur.exclusions.clone().unwrap_or_default();
            let need = ranges.iter().map(|r| r.start().saturating_add(r.length())).max().unwrap_or(0);
            if need < (1 << 20) {
                let mut z = Cursor::new(vec![0u8; need as usize + 16]);
                if builder.update_hash_from_stream(case.fmt, &mut z).is_ok() {
                    real_rehash = true;
                }
            }
            if !real_rehash {
                // … otherwise a caller-supplied digest: the replacement update_hash_from_stream does
                let mut dh = DataHash::new(cur.name.as_deref().unwrap_or("jumbf manifest"), cur.alg.as_deref().unwrap_or(case.alg));
                for e in ranges {
                    dh.add_exclusion(e);
                }
                dh.set_hash(vec![0x22; hash_len(case.alg)]);
                builder.definition.assertions.retain(|a| !a.label.starts_with(DataHash::LABEL));
                builder.add_assertion(DataHash::LABEL, &dh).map_err(|e| format!("add dh {e}"))?;
            }
        }
    }
    let new_bind_cbor = bind_cbor(&builder, case.boxhash.is_some())?;

    let signed = builder.sign_embeddable(case.fmt);
    let (outcome, readback) = judge(case.fmt, &ph, signed, asset.as_mut(), off)?;
    Ok(FlowResult { outcome, readback, ph_bind_cbor, new_bind_cbor, ph_len: ph.len(), real_rehash })
}

fn pre_str(p: &Option<PreDh>) -> String {
    match p {
        None => "-".to_string(),
        Some(p) if p.no_name || p.no_alg => format!(
            "{};{};{};{};{}",
            if p.no_name { "-".to_string() } else { p.name_len.to_string() },
            if p.no_alg { "-" } else { "d" },
            p.hash_len,
            p.pad,
            excl_str(&p.exclusions)
        ),
        Some(p) => format!("{};{};{};{}", p.name_len, p.hash_len, p.pad, excl_str(&p.exclusions)),
    }
}

fn do_case(run: &mut Run, case: &Case, assets: &Assets, tag: &str) {
    let excl = match &case.excl {
        None => "none".to_string(),
        Some(v) => excl_str(v),
    };
    let da = if case.das.is_empty() {
        "-".to_string()
    } else {
        case.das.iter().map(|(r, c, k)| format!("{r}:{c}:{}", k.tag())).collect::<Vec<_>>().join(",")
    };
    run.count(&format!("flow:{tag}"));
    run.count(&format!("fmt:{}", case.fmt));
    let res = guarded(std::panic::AssertUnwindSafe(|| run_flow(case, assets)));
    let trailer = format!("fmt={} real={} reserve=+{} title={}", case.fmt, case.real as u8, case.reserve_extra, case.title_len);
    // `excl`: the effective exclusion list; `r`: the measured binding sizes (BoxHash flows)
    let mk_req = |excl: &str, r: Option<&FlowResult>| {
        if case.legacy {
            format!("C15 legacy alg={} hash={} pre={} excl={} {trailer}", case.alg.len(), hash_len(case.alg), pre_str(&case.pre), excl)
        } else if case.boxhash.is_some() {
            let (s0, s1) = r.map(|r| (r.ph_bind_cbor, r.new_bind_cbor)).unwrap_or((0, 0));
            format!("C15 oflow guarded=1 s0={s0} s1={s1} da={da} dummy={} {trailer}", case.boxhash.unwrap_or(0))
        } else {
            format!(
                "C15 flow alg={} hash={} pre={} excl={} rehash={} da={} lost={} {trailer}",
                case.alg.len(),
                hash_len(case.alg),
                pre_str(&case.pre),
                excl,
                case.rehash as u8,
                da,
                case.lost as u8,
            )
        }
    };
    match res {
        Err(p) => {
            let idx = run.case(mk_req(&excl, None), "panic".into());
            run.fail(idx, "panic", format!("embeddable flow panicked: {p}"));
        }
        Ok(Err(e)) => {
            let idx = run.case(mk_req(&excl, None), format!("harness-error {}", e.replace(' ', "_")));
            run.fail(idx, "flow-setup-error", e);
        }
        Ok(Ok(r)) => {
            let eff = if case.real {
                match &case.excl {
                    None => "none".to_string(),
                    Some(v) => {
                        // same rewriting as run_flow (deterministic in placeholder length and asset)
                        let src_len = assets.get(case.fmt).len();
                        let off = assets.splice_offset(case.fmt) as u64;
                        let end = (src_len + r.ph_len) as u64;
                        let base = off + r.ph_len as u64;
                        let eff: Vec<(u64, u64)> = v
                            .iter()
                            .enumerate()
                            .map(|(i, (s, l))| {
                                if i == 0 || case.legacy {
                                    (off, r.ph_len as u64)
                                } else {
                                    let st = (base + s).min(end - 1);
                                    (st, (*l).min(end - st).max(1))
                                }
                            })
                            .collect();
                        excl_str(&eff)
                    }
                }
            } else {
                excl.clone()
            };
            let reply = match &r.outcome {
                Outcome::Ok { slack } => format!("ok slack={slack}"),
                Outcome::Longer(d) => format!("ok longer={d}"),
                Outcome::Shorter(d) => format!("ok shorter={d}"),
                Outcome::TooLarge => "err toolarge".to_string(),
                Outcome::TooSmall => "err toosmall".to_string(),
                Outcome::OtherErr(e) => format!("err other:{}", e.replace(' ', "_")),
            };
            let idx = run.case(mk_req(&eff, Some(&r)), reply);
            run.nontrivial(format!(
                "{}|{}|{}|{}|{}|{:?}|{}|{}",
                case.fmt,
                pre_str(&case.pre),
                eff,
                da,
                case.rehash,
                case.boxhash,
                case.lost,
                case.legacy
            ));
            if r.real_rehash {
                run.count("rehash:real-update_hash_from_stream");
            } else if case.rehash && !case.legacy {
                run.count("rehash:caller-digest");
            }
            if r.new_bind_cbor > r.ph_bind_cbor {
                run.count("binding:larger-than-placeholder");
            } else if r.new_bind_cbor == r.ph_bind_cbor {
                run.count("binding:equal");
            } else {
                run.count("binding:smaller");
            }
            if case.lost {
                // A Builder rebuilt from its JSON never ran placeholder(): sign_embeddable documents
                // "Mode 2" (size determined by the content). Not judged by the size contract; the model
                // must predict the exact difference (compared by the differential run).
                match &r.outcome {
                    Outcome::Longer(_) => run.count("mode2:longer-than-earlier-placeholder"),
                    Outcome::Shorter(_) => run.count("mode2:shorter-than-earlier-placeholder"),
                    Outcome::Ok { slack } if *slack == 0 => run.count("mode2:same-length"),
                    Outcome::Ok { .. } => run.fail(idx, "mode2-padded", "a Builder without recorded placeholder length zero padded its result".into()),
                    Outcome::TooLarge | Outcome::TooSmall => run.fail(idx, "mode2-size-error", "size error without a recorded placeholder length".into()),
                    Outcome::OtherErr(e) => run.fail(idx, "embeddable-unexpected-error", e.clone()),
                }
                return;
            }
            // the property, on the implementation: exact length or an error — never longer/shorter
            let suffix = if case.legacy {
                "-legacy"
            } else if case.boxhash.is_some() {
                "-boxhash"
            } else {
                ""
            };
            match &r.outcome {
                Outcome::Longer(d) => run.fail(idx, &format!("embeddable-longer{suffix}"), format!(
                    "signing returned {d} JUMBF bytes more than the placeholder ({} composed bytes); binding CBOR {} vs placeholder {}",
                    r.ph_len, r.new_bind_cbor, r.ph_bind_cbor)),
                Outcome::Shorter(d) => run.fail(idx, &format!("embeddable-shorter{suffix}"), format!(
                    "signing returned {d} JUMBF bytes fewer than the placeholder ({} composed bytes)", r.ph_len)),
                Outcome::OtherErr(e) => run.fail(idx, "embeddable-unexpected-error", e.clone()),
                Outcome::TooLarge => run.count("outcome:err-toolarge"),
                Outcome::TooSmall => run.count("outcome:err-toosmall"),
                Outcome::Ok { .. } => run.count("outcome:ok-same-length"),
            }
            if r.readback.is_some() && STRUCTURE_CHANGED.with(|c| c.replace(false)) {
                run.count(&format!("structure:box-list-changed-by-zero-padding:{}", case.fmt));
            }
            if let Some(rb) = &r.readback {
                match rb {
                    Ok(ValidationState::Valid) | Ok(ValidationState::Trusted) => {
                        run.count("readback:valid");
                        run.count(&format!("readback:valid:{}", case.fmt));
                    }
                    Ok(s) => {
                        // class: the DataHash flow keeps the plain key; BoxHash flows are keyed by format
                        let class = if case.boxhash.is_some() {
                            format!("embeddable-not-valid-boxhash-{}", case.fmt.rsplit('/').next().unwrap_or(case.fmt))
                        } else {
                            format!("embeddable-not-valid{suffix}")
                        };
                        run.fail(idx, &class, format!("patched asset reads back {s:?}"))
                    }
                    Err(e) => run.fail(idx, "embeddable-read-error", e.clone()),
                }
            }
        }
    }
}

fn pick_val(rng: &mut Rng, big: bool) -> u64 {
    match rng.below(if big { 7 } else { 3 }) {
        0 => rng.below(24),
        1 => rng.range(24, 255),
        2 => rng.range(256, 65535),
        3 => rng.range(65536, 200_000),
        4 => rng.range(65536, u32::MAX as u64),
        5 => rng.range(1 << 32, 1 << 40),
        _ => (rng.next() >> 1) | (1 << 62),
    }
}

const REAL_FMTS: [&str; 4] = ["image/jpeg", "image/png", "image/gif", "image/jxl"];
/// every non-BMFF format whose handler composes manifests
const ALL_FMTS: [&str; 7] = ["c2pa", "image/jpeg", "image/png", "image/gif", "image/jxl", "image/tiff", "application/pdf"];

fn run(run: &mut Run, rng: &mut Rng) {
    run.rule = "a case is non-trivial when the placeholder call and the signing call both ran, i.e. the size contract was decided (distinct by format, pre-added DataHash, effective exclusion list, dynamic assertions, rehash, BoxHash binding, JSON round trip, legacy API)".into();
    let rd = |n: &str| std::fs::read(vh::common::fixtures().join(n)).unwrap_or_default();
    let assets = Assets { jpeg: rd("no_manifest.jpg"), png: rd("sample1.png"), gif: rd("sample1.gif"), jxl: rd("sample1.jxl") };
    run.obligations.insert(
        "fixtures-available".into(),
        assets.jpeg.len() > 70000 && assets.png.len() > 70000 && assets.gif.len() > 1000 && assets.jxl.len() > 100,
    );
    if assets.jpeg.is_empty() || assets.png.is_empty() || assets.gif.is_empty() || assets.jxl.is_empty() {
        return;
    }
    // every format with composed-manifest support is either exercised or a BMFF format (BmffHash binding)
    let composed: Vec<String> = Builder::supported_mime_types()
        .into_iter()
        .filter(|m| c2pa::verif_hooks::c07::compose_manifest(m, &[0u8; 16]).is_some())
        .collect();
    run.notes.push(format!("formats with composed-manifest support: {}", composed.len()));
    let thorough = run.thorough();
    let base = Case {
        fmt: "image/jpeg",
        real: true,
        alg: "sha256",
        pre: None,
        excl: Some(vec![(0, 0)]),
        rehash: true,
        das: vec![],
        reserve_extra: 0,
        title_len: 3,
        boxhash: None,
        lost: false,
        legacy: false,
    };

    // 1. documented workflow: one exclusion = the manifest, each real format, each hash algorithm
    for fmt in REAL_FMTS {
        for alg in ["sha256", "sha384", "sha512"] {
            do_case(run, &Case { fmt, alg, ..base.clone() }, &assets, "documented");
        }
    }

    // 2. real assets, 1..12 exclusions, offsets inside the asset (small and > 65535)
    let reps = if thorough { 60 } else { 6 };
    for fmt in REAL_FMTS {
        let small_asset = fmt == "image/gif" || fmt == "image/jxl";
        for k in 1..=12usize {
            for rep in 0..(if small_asset { reps / 3 } else { reps }) {
                let far = rep % 2 == 1 || k % 2 == 0;
                let mut list = vec![(0u64, 0u64)];
                let mut pos = 0u64;
                for _ in 1..k {
                    let gap = if far && !small_asset { rng.range(3000, 7000) } else { rng.range(1, 20) };
                    let len = match rng.below(3) {
                        0 => rng.range(1, 23),
                        1 => rng.range(24, 255),
                        _ => rng.range(256, if small_asset { 400 } else { 2000 }),
                    };
                    pos += gap;
                    list.push((pos, len));
                    pos += len;
                }
                let das = if rep == 2 { vec![(100, 100, Kind::Cbor)] } else { vec![] };
                do_case(
                    run,
                    &Case { fmt, excl: Some(list), das, reserve_extra: (rep * 977) % 3000, title_len: 3 + rep * 7, ..base.clone() },
                    &assets,
                    "real-multi",
                );
            }
        }
    }

    // 3. F9 witness and neighbours: ten exclusions with values >= 24 (synthetic offsets)
    for (s, l) in [(24u64, 1u64), (24, 24), (23, 23), (0, 2), (256, 256), (65536, 70000), (1 << 32, 1 << 33)] {
        for k in [1usize, 5, 6, 9, 10, 11, 12] {
            do_case(
                run,
                &Case { fmt: "c2pa", real: false, excl: Some(vec![(s, l); k]), ..base.clone() },
                &assets,
                "synthetic-uniform",
            );
        }
    }

    // 4. synthetic exclusion lists 0..12 with mixed value sizes, all formats with length check
    let n = if thorough { 60000 } else { 3000 };
    for i in 0..n {
        let k = rng.below(13) as usize;
        let big = rng.chance(1, 2);
        let list: Vec<(u64, u64)> = (0..k).map(|_| (pick_val(rng, big), pick_val(rng, big))).collect();
        let fmt = *rng.pick(&ALL_FMTS);
        let alg = *rng.pick(&["sha256", "sha256", "sha384", "sha512"]);
        let excl = if rng.chance(1, 12) { None } else { Some(list) };
        let rehash = rng.chance(5, 6);
        let kind = *rng.pick(&[Kind::Cbor, Kind::Cbor, Kind::Json, Kind::Binary]);
        let das = match rng.below(6) {
            0 => vec![(rng.range(1, 300) as usize, rng.range(1, 300) as usize, kind)],
            1 => {
                let r = rng.range(20, 70000) as usize;
                vec![(r, r, kind)]
            }
            _ => vec![],
        };
        do_case(
            run,
            &Case { fmt, real: false, alg, pre: None, excl, rehash, das, reserve_extra: (i * 331) % 5000, title_len: 1 + i % 40, ..base.clone() },
            &assets,
            "synthetic-mixed",
        );
    }

    // 5. caller pre-sized DataHash (pad / many dummy exclusions) then real-size exclusions
    let n = if thorough { 15000 } else { 800 };
    for _ in 0..n {
        let pk = rng.below(14) as usize;
        let pv = *rng.pick(&[0u64, 23, 24, 255, 65536, 1 << 32]);
        let pre = PreDh {
            no_name: rng.chance(1, 8),
            no_alg: rng.chance(1, 8),
            name_len: *rng.pick(&[14usize, 14, 1, 30]),
            hash_len: *rng.pick(&[32usize, 32, 0, 64]),
            pad: *rng.pick(&[0usize, 0, 10, 100]),
            exclusions: vec![(pv, pv); pk],
        };
        let k = rng.below(13) as usize;
        let big = rng.chance(1, 2);
        let list: Vec<(u64, u64)> = (0..k).map(|_| (pick_val(rng, big), pick_val(rng, big))).collect();
        let excl = if rng.chance(1, 8) { None } else { Some(list) };
        do_case(
            run,
            &Case { fmt: "c2pa", real: false, pre: Some(pre), excl, rehash: rng.chance(3, 4), ..base.clone() },
            &assets,
            "pre-sized",
        );
    }

    // 6. dynamic assertions around the CBOR head boundaries of reserve_size and content, each content kind
    let mut rs: Vec<usize> = vec![0, 1, 2, 10, 22, 23, 24, 25, 26, 27, 100, 254, 255, 256, 257, 258, 259, 260, 1000, 65535, 65536, 65537, 65538, 65539, 65540, 65541, 66000];
    if !thorough {
        rs.retain(|r| *r < 300 || *r > 65530);
    }
    for r in rs {
        for dc in [-2i64, -1, 0, 1, 2] {
            let c = r as i64 + dc;
            if c < 1 {
                continue;
            }
            for kind in [Kind::Cbor, Kind::Json, Kind::Binary] {
                if kind != Kind::Cbor && dc.abs() == 2 {
                    continue;
                }
                do_case(
                    run,
                    &Case { fmt: "c2pa", real: false, das: vec![(r, c as usize, kind)], excl: Some(vec![(0, 2); 10]), ..base.clone() },
                    &assets,
                    "dynamic-assertion",
                );
            }
        }
    }
    // real asset + dynamic assertions (one of each kind)
    for fmt in REAL_FMTS {
        do_case(run, &Case { fmt, das: vec![(500, 500, Kind::Cbor), (64, 60, Kind::Json), (80, 90, Kind::Binary)], ..base.clone() }, &assets, "real-da");
    }

    // 7. caller-supplied BoxHash before placeholder(): empty, too small, ample (real assets: the boxes are hashed)
    for fmt in REAL_FMTS {
        for dummy in [0usize, 1, 3, 10, 40, 150, 400] {
            do_case(run, &Case { fmt, boxhash: Some(dummy), excl: None, ..base.clone() }, &assets, "boxhash-presized");
        }
        do_case(run, &Case { fmt, boxhash: Some(400), excl: None, das: vec![(120, 100, Kind::Cbor)], ..base.clone() }, &assets, "boxhash-presized");
    }

    // 8. the Builder rebuilt from its JSON between placeholder() and sign_embeddable() ("Mode 2")
    for fmt in REAL_FMTS {
        do_case(run, &Case { fmt, lost: true, ..base.clone() }, &assets, "json-roundtrip");
    }
    for (s, l) in [(0u64, 2u64), (24, 1), (70000, 70000)] {
        for k in [0usize, 1, 5, 10, 12] {
            do_case(run, &Case { fmt: "c2pa", real: false, lost: true, excl: Some(vec![(s, l); k]), ..base.clone() }, &assets, "json-roundtrip");
        }
    }

    // 9. legacy API: data_hashed_placeholder + sign_data_hashed_embeddable
    for fmt in ["image/jpeg", "image/png"] {
        for alg in ["sha256", "sha512"] {
            do_case(run, &Case { fmt, alg, legacy: true, ..base.clone() }, &assets, "legacy");
        }
    }
    let n = if thorough { 6000 } else { 400 };
    for i in 0..n {
        let k = rng.below(12) as usize;
        let big = rng.chance(1, 3);
        let list: Vec<(u64, u64)> = (0..k).map(|_| (pick_val(rng, big), pick_val(rng, big))).collect();
        let alg = *rng.pick(&["sha256", "sha256", "sha384", "sha512"]);
        let pre = if rng.chance(1, 4) {
            let pk = rng.below(14) as usize;
            let pv = *rng.pick(&[0u64, 24, 65536]);
            Some(PreDh { no_name: false, no_alg: false, name_len: 14, hash_len: *rng.pick(&[32usize, 0, 64]), pad: *rng.pick(&[0usize, 10, 100]), exclusions: vec![(pv, pv); pk] })
        } else {
            None
        };
        do_case(
            run,
            &Case { fmt: *rng.pick(&ALL_FMTS), real: false, alg, pre, excl: Some(list), legacy: true, reserve_extra: (i * 131) % 2000, ..base.clone() },
            &assets,
            "legacy",
        );
    }
}
