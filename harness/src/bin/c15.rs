//! C15 — embeddable signing returns bytes of exactly the placeholder size.
//!
//! Request line (see lean/C2paModel/Model/C15.lean):
//!   C15 flow alg=<n> hash=<n> pre=<-|dh> excl=<none|-|s:l,s:l,…> rehash=<0|1> da=<-|r:c,r:c,…> [fmt=… real=… reserve=… title=…]
//!     alg    = length of the hash algorithm name ("sha256" -> 6), hash = digest length of that algorithm
//!     pre    = `-`: `Builder::placeholder` adds its own DataHash (ten dummy (0,2) exclusions);
//!              otherwise a DataHash the caller added before `placeholder` (pre-sized), as
//!              name;hash;pad;exclusions with exclusions `s:l,…` or `-`
//!     excl   = argument of `set_data_hash_exclusions` (`none` = not called, `-` = empty list)
//!     rehash = 1: the hash is (re)computed / stored afterwards (`update_hash_from_stream`, or the
//!              caller stores a DataHash with the digest when the offsets are synthetic)
//!     da     = dynamic assertions of the signer: reserve_size : length of the content returned
//!   reply: `ok slack=<n>` (same length as the placeholder, n trailing zero bytes after the JUMBF)
//!          | `err toolarge` | anything else = a different length / another error
//!   fmt/real/reserve/title are not read by the model (they must not matter).

use std::io::Cursor;

use c2pa::{
    assertions::DataHash,
    dynamic_assertion::{DynamicAssertion, DynamicAssertionContent, PartialClaim},
    verif_hooks::{c14::data_hash_assertion_data, c15::builder_data_hash},
    Builder, Context, EphemeralSigner, HashRange, Reader, Signer, SigningAlg, ValidationState,
};
use vh::common::{guarded, main_with, Rng, Run};

fn main() {
    main_with("C15", run);
}

// ---------------------------------------------------------------------------------------------
// signer with a chosen reserve and dynamic assertions of chosen sizes
// ---------------------------------------------------------------------------------------------

struct Da {
    label: String,
    reserve: usize,
    content: usize,
}

fn hdr(n: usize) -> usize {
    if n < 24 {
        1
    } else if n < 256 {
        2
    } else if n < 65536 {
        3
    } else {
        5
    }
}

/// Valid CBOR of exactly `c >= 1` bytes (a byte string, or a one-element array around one).
fn cbor_of_size(c: usize) -> Vec<u8> {
    fn bstr(n: usize) -> Vec<u8> {
        let mut v = Vec::with_capacity(n + 5);
        if n < 24 {
            v.push(0x40 | n as u8);
        } else if n < 256 {
            v.extend([0x58, n as u8]);
        } else if n < 65536 {
            v.push(0x59);
            v.extend((n as u16).to_be_bytes());
        } else {
            v.push(0x5a);
            v.extend((n as u32).to_be_bytes());
        }
        v.extend(std::iter::repeat(0x5au8).take(n));
        v
    }
    for n in [c.saturating_sub(1), c.saturating_sub(2), c.saturating_sub(3), c.saturating_sub(5)] {
        if hdr(n) + n == c {
            return bstr(n);
        }
    }
    let mut v = vec![0x81];
    v.extend(cbor_of_size(c - 1));
    v
}

impl DynamicAssertion for Da {
    fn label(&self) -> String {
        self.label.clone()
    }

    fn reserve_size(&self) -> c2pa::Result<usize> {
        Ok(self.reserve)
    }

    fn content(&self, _label: &str, _size: Option<usize>, _claim: &PartialClaim) -> c2pa::Result<DynamicAssertionContent> {
        Ok(DynamicAssertionContent::Cbor(cbor_of_size(self.content)))
    }
}

struct OwnSigner {
    inner: EphemeralSigner,
    reserve: usize,
    das: Vec<(usize, usize)>,
}

impl Signer for OwnSigner {
    fn sign(&self, data: &[u8]) -> c2pa::Result<Vec<u8>> {
        self.inner.sign(data)
    }

    fn alg(&self) -> SigningAlg {
        self.inner.alg()
    }

    fn certs(&self) -> c2pa::Result<Vec<Vec<u8>>> {
        self.inner.certs()
    }

    fn reserve_size(&self) -> usize {
        self.reserve
    }

    fn dynamic_assertions(&self) -> Vec<Box<dyn DynamicAssertion>> {
        self.das
            .iter()
            .enumerate()
            .map(|(i, (r, c))| {
                Box::new(Da { label: format!("org.verif.da{i}"), reserve: *r, content: *c }) as Box<dyn DynamicAssertion>
            })
            .collect()
    }
}

// ---------------------------------------------------------------------------------------------
// cases
// ---------------------------------------------------------------------------------------------

#[derive(Clone)]
struct PreDh {
    name_len: usize,
    hash_len: usize,
    pad: usize,
    exclusions: Vec<(u64, u64)>,
}

#[derive(Clone)]
struct Case {
    fmt: &'static str,
    /// real: the composed placeholder is spliced into an asset, hashed, patched and read back
    real: bool,
    alg: &'static str,
    pre: Option<PreDh>,
    /// None = set_data_hash_exclusions not called; for `real` the first range is replaced by the
    /// manifest's own range
    excl: Option<Vec<(u64, u64)>>,
    rehash: bool,
    das: Vec<(usize, usize)>,
    reserve_extra: usize,
    title_len: usize,
}

fn hash_len(alg: &str) -> usize {
    match alg {
        "sha384" => 48,
        "sha512" => 64,
        _ => 32,
    }
}

fn excl_str(v: &[(u64, u64)]) -> String {
    if v.is_empty() {
        "-".to_string()
    } else {
        v.iter().map(|(s, l)| format!("{s}:{l}")).collect::<Vec<_>>().join(",")
    }
}

fn definition(alg: &str, title_len: usize) -> String {
    format!(
        r#"{{
  "claim_generator_info": [{{"name": "verif-c15", "version": "1"}}],
  "title": "{}",
  "hash_alg": "{}",
  "assertions": [
    {{"label": "c2pa.actions", "data": {{"actions": [{{"action": "c2pa.created", "digitalSourceType": "http://cv.iptc.org/newscodes/digitalsourcetype/digitalCapture"}}]}}}}
  ]
}}"#,
        "t".repeat(title_len),
        alg
    )
}

/// Undo `compose_manifest`: the (possibly zero padded) JUMBF bytes inside the composed form.
fn decompose(fmt: &str, composed: &[u8]) -> Option<Vec<u8>> {
    match fmt {
        "c2pa" => Some(composed.to_vec()),
        "image/png" => {
            let n = u32::from_be_bytes(composed.get(0..4)?.try_into().ok()?) as usize;
            if composed.get(4..8)? != b"caBX" || composed.len() != n + 12 {
                return None;
            }
            Some(composed.get(8..8 + n)?.to_vec())
        }
        "image/jpeg" => {
            let mut out = vec![];
            let mut i = 0;
            let mut seq = 0u32;
            while i < composed.len() {
                if composed.get(i..i + 2)? != [0xff, 0xeb] {
                    return None;
                }
                let lp = u16::from_be_bytes(composed.get(i + 2..i + 4)?.try_into().ok()?) as usize;
                let body = composed.get(i + 4..i + 2 + lp)?;
                // CI(2) En(2) Z(4)
                let z = u32::from_be_bytes(body.get(4..8)?.try_into().ok()?);
                seq += 1;
                if z != seq {
                    return None;
                }
                let payload = if z == 1 { body.get(8..)? } else { body.get(16..)? };
                out.extend_from_slice(payload);
                i += 2 + lp;
            }
            Some(out)
        }
        _ => None,
    }
}

fn splice_offset(fmt: &str) -> usize {
    match fmt {
        "image/jpeg" => 2,  // after SOI
        "image/png" => 33,  // after signature + IHDR
        _ => 0,
    }
}

struct Assets {
    jpeg: Vec<u8>,
    png: Vec<u8>,
}

enum Outcome {
    Ok { slack: usize },
    Longer(usize),
    Shorter(usize),
    TooLarge,
    OtherErr(String),
}

struct FlowResult {
    outcome: Outcome,
    /// Some(state string) when the patched asset was read back
    readback: Option<Result<ValidationState, String>>,
    ph_dh_cbor: usize,
    new_dh_cbor: usize,
    ph_len: usize,
}

fn err_class(e: &c2pa::Error) -> Outcome {
    match e {
        c2pa::Error::BadParam(m) if m.contains("larger than the placeholder") => Outcome::TooLarge,
        other => Outcome::OtherErr(format!("{other:?}").chars().take(160).collect()),
    }
}

fn run_flow(case: &Case, assets: &Assets) -> Result<FlowResult, String> {
    let inner = EphemeralSigner::new("c15.test").map_err(|e| format!("signer {e}"))?;
    let reserve = inner.reserve_size() + case.reserve_extra;
    let signer = OwnSigner { inner, reserve, das: case.das.clone() };
    let ctx = Context::new()
        .with_settings(r#"{"builder": {"thumbnail": {"enabled": false}}}"#)
        .map_err(|e| format!("settings {e}"))?
        .with_signer(signer);
    let mut builder = Builder::from_context(ctx)
        .with_definition(definition(case.alg, case.title_len))
        .map_err(|e| format!("definition {e}"))?;
    if let Some(pre) = &case.pre {
        let mut dh = DataHash::new(&"n".repeat(pre.name_len), case.alg);
        for (s, l) in &pre.exclusions {
            dh.add_exclusion(HashRange::new(*s, *l));
        }
        dh.set_hash(vec![0x11; pre.hash_len]);
        dh.add_padding(vec![0; pre.pad]);
        builder.add_assertion(DataHash::LABEL, &dh).map_err(|e| format!("add pre {e}"))?;
    }
    let ph = builder.placeholder(case.fmt).map_err(|e| format!("placeholder {e}"))?;
    let ph_dh = builder_data_hash(&builder).map_err(|e| format!("ph dh {e}"))?;
    let ph_dh_cbor = data_hash_assertion_data(&ph_dh).map_err(|e| format!("{e}"))?.len();

    // embed
    let mut asset: Option<Vec<u8>> = None;
    let off = splice_offset(case.fmt);
    let mut excl = case.excl.clone();
    if case.real {
        let src = if case.fmt == "image/jpeg" { &assets.jpeg } else { &assets.png };
        let mut a = Vec::with_capacity(src.len() + ph.len());
        a.extend_from_slice(&src[..off]);
        a.extend_from_slice(&ph);
        a.extend_from_slice(&src[off..]);
        if let Some(list) = excl.as_mut() {
            // first range := the manifest; the others are shifted behind it and clipped to the file
            let end = a.len() as u64;
            let base = (off + ph.len()) as u64;
            for (i, r) in list.iter_mut().enumerate() {
                if i == 0 {
                    *r = (off as u64, ph.len() as u64);
                } else {
                    let s = (base + r.0).min(end - 1);
                    *r = (s, r.1.min(end - s).max(1));
                }
            }
        }
        asset = Some(a);
    }
    if let Some(list) = &excl {
        builder
            .set_data_hash_exclusions(list.iter().map(|(s, l)| HashRange::new(*s, *l)).collect())
            .map_err(|e| format!("set excl {e}"))?;
    }
    if case.rehash {
        if let Some(a) = &asset {
            builder
                .update_hash_from_stream(case.fmt, &mut Cursor::new(a.clone()))
                .map_err(|e| format!("update hash {e}"))?;
        } else {
            // caller-supplied digest (synthetic offsets): same replacement update_hash_from_stream does
            let cur = builder_data_hash(&builder).map_err(|e| format!("cur dh {e}"))?;
            let mut dh = DataHash::new(cur.name.as_deref().unwrap_or("jumbf manifest"), cur.alg.as_deref().unwrap_or(case.alg));
            for e in cur.exclusions.clone().unwrap_or_default() {
                dh.add_exclusion(e);
            }
            dh.set_hash(vec![0x22; hash_len(case.alg)]);
            builder.definition.assertions.retain(|a| !a.label.starts_with(DataHash::LABEL));
            builder.add_assertion(DataHash::LABEL, &dh).map_err(|e| format!("add dh {e}"))?;
        }
    }
    let new_dh = builder_data_hash(&builder).map_err(|e| format!("new dh {e}"))?;
    let new_dh_cbor = data_hash_assertion_data(&new_dh).map_err(|e| format!("{e}"))?.len();

    let signed = builder.sign_embeddable(case.fmt);
    let mut readback = None;
    let outcome = match signed {
        Err(e) => err_class(&e),
        Ok(bytes) => {
            if bytes.len() > ph.len() {
                Outcome::Longer(bytes.len() - ph.len())
            } else if bytes.len() < ph.len() {
                Outcome::Shorter(ph.len() - bytes.len())
            } else {
                let inner = decompose(case.fmt, &bytes).ok_or("decompose")?;
                let lbox = u32::from_be_bytes(inner.get(0..4).ok_or("lbox")?.try_into().unwrap()) as usize;
                if lbox > inner.len() || inner[lbox..].iter().any(|b| *b != 0) {
                    return Err(format!("padding not zero / LBox {lbox} of {}", inner.len()));
                }
                if let Some(a) = asset.as_mut() {
                    a[off..off + bytes.len()].copy_from_slice(&bytes);
                    let st = Reader::from_context(Context::new())
                        .with_stream(case.fmt, Cursor::new(a.clone()))
                        .map(|r| r.validation_state())
                        .map_err(|e| format!("{e:?}").chars().take(160).collect::<String>());
                    readback = Some(st);
                }
                Outcome::Ok { slack: inner.len() - lbox }
            }
        }
    };
    Ok(FlowResult { outcome, readback, ph_dh_cbor, new_dh_cbor, ph_len: ph.len() })
}

fn pre_str(p: &Option<PreDh>) -> String {
    match p {
        None => "-".to_string(),
        Some(p) => format!("{};{};{};{}", p.name_len, p.hash_len, p.pad, excl_str(&p.exclusions)),
    }
}

fn do_case(run: &mut Run, case: &Case, assets: &Assets, tag: &str) {
    let excl = match &case.excl {
        None => "none".to_string(),
        Some(v) => excl_str(v),
    };
    let da = if case.das.is_empty() {
        "-".to_string()
    } else {
        case.das.iter().map(|(r, c)| format!("{r}:{c}")).collect::<Vec<_>>().join(",")
    };
    run.count(&format!("flow:{tag}"));
    run.count(&format!("fmt:{}", case.fmt));
    let res = guarded(std::panic::AssertUnwindSafe(|| run_flow(case, assets)));
    // for `real` cases the exclusion list is rewritten against the asset; report the effective one
    let mk_req = |excl: &str| {
        format!(
            "C15 flow alg={} hash={} pre={} excl={} rehash={} da={} fmt={} real={} reserve=+{} title={}",
            case.alg.len(),
            hash_len(case.alg),
            pre_str(&case.pre),
            excl,
            case.rehash as u8,
            da,
            case.fmt,
            case.real as u8,
            case.reserve_extra,
            case.title_len
        )
    };
    // effective exclusions for real cases need the placeholder length: recompute after the run
    match res {
        Err(p) => {
            let idx = run.case(mk_req(&excl), "panic".into());
            run.fail(idx, "panic", format!("embeddable flow panicked: {p}"));
        }
        Ok(Err(e)) => {
            let idx = run.case(mk_req(&excl), format!("harness-error {}", e.replace(' ', "_")));
            run.fail(idx, "flow-setup-error", e);
        }
        Ok(Ok(r)) => {
            let eff = if case.real {
                match &case.excl {
                    None => "none".to_string(),
                    Some(v) => {
                        // same rewriting as run_flow (deterministic in placeholder length and asset)
                        let src_len = if case.fmt == "image/jpeg" { assets.jpeg.len() } else { assets.png.len() };
                        let off = splice_offset(case.fmt) as u64;
                        let end = (src_len + r.ph_len) as u64;
                        let base = off + r.ph_len as u64;
                        let eff: Vec<(u64, u64)> = v
                            .iter()
                            .enumerate()
                            .map(|(i, (s, l))| {
                                if i == 0 {
                                    (off, r.ph_len as u64)
                                } else {
                                    let st = (base + s).min(end - 1);
                                    (st, (*l).min(end - st).max(1))
                                }
                            })
                            .collect();
                        excl_str(&eff)
                    }
                }
            } else {
                excl.clone()
            };
            let reply = match &r.outcome {
                Outcome::Ok { slack } => format!("ok slack={slack}"),
                Outcome::Longer(d) => format!("ok longer={d}"),
                Outcome::Shorter(d) => format!("ok shorter={d}"),
                Outcome::TooLarge => "err toolarge".to_string(),
                Outcome::OtherErr(e) => format!("err other:{}", e.replace(' ', "_")),
            };
            let idx = run.case(mk_req(&eff), reply);
            run.nontrivial(format!("{}|{}|{}|{}|{}", case.fmt, pre_str(&case.pre), eff, da, case.rehash));
            if r.new_dh_cbor > r.ph_dh_cbor {
                run.count("dh:larger-than-placeholder");
            } else if r.new_dh_cbor == r.ph_dh_cbor {
                run.count("dh:equal");
            } else {
                run.count("dh:smaller");
            }
            // the property, on the implementation: exact length or an error — never longer/shorter
            match &r.outcome {
                Outcome::Longer(d) => run.fail(idx, "embeddable-longer", format!(
                    "sign_embeddable returned {d} bytes more than placeholder ({} bytes); DataHash CBOR {} vs placeholder {}",
                    r.ph_len, r.new_dh_cbor, r.ph_dh_cbor)),
                Outcome::Shorter(d) => run.fail(idx, "embeddable-shorter", format!(
                    "sign_embeddable returned {d} bytes fewer than placeholder ({} bytes)", r.ph_len)),
                Outcome::OtherErr(e) => run.fail(idx, "embeddable-unexpected-error", e.clone()),
                Outcome::TooLarge => run.count("outcome:err-toolarge"),
                Outcome::Ok { .. } => run.count("outcome:ok-same-length"),
            }
            if let Some(rb) = &r.readback {
                match rb {
                    Ok(ValidationState::Valid) | Ok(ValidationState::Trusted) => run.count("readback:valid"),
                    Ok(s) => run.fail(idx, "embeddable-not-valid", format!("patched asset reads back {s:?}")),
                    Err(e) => run.fail(idx, "embeddable-read-error", e.clone()),
                }
            }
        }
    }
}

fn pick_val(rng: &mut Rng, big: bool) -> u64 {
    match rng.below(if big { 7 } else { 3 }) {
        0 => rng.below(24),
        1 => rng.range(24, 255),
        2 => rng.range(256, 65535),
        3 => rng.range(65536, 200_000),
        4 => rng.range(65536, u32::MAX as u64),
        5 => rng.range(1 << 32, 1 << 40),
        _ => (rng.next() >> 1) | (1 << 62),
    }
}

fn run(run: &mut Run, rng: &mut Rng) {
    run.rule = "a case is non-trivial when placeholder() and sign_embeddable() both ran, i.e. the size contract was decided (distinct by format, pre-added DataHash, effective exclusion list, dynamic assertions, rehash)".into();
    let jpeg = std::fs::read(vh::common::fixtures().join("no_manifest.jpg")).unwrap_or_default();
    let png = std::fs::read(vh::common::fixtures().join("sample1.png")).unwrap_or_default();
    run.obligations.insert("fixtures-available".into(), jpeg.len() > 70000 && png.len() > 70000);
    if jpeg.is_empty() || png.is_empty() {
        return;
    }
    let assets = Assets { jpeg, png };
    let thorough = run.thorough();
    let base = Case {
        fmt: "image/jpeg",
        real: true,
        alg: "sha256",
        pre: None,
        excl: Some(vec![(0, 0)]),
        rehash: true,
        das: vec![],
        reserve_extra: 0,
        title_len: 3,
    };

    // 1. documented workflow: one exclusion = the manifest (JPEG, PNG), each hash algorithm
    for fmt in ["image/jpeg", "image/png"] {
        for alg in ["sha256", "sha384", "sha512"] {
            do_case(run, &Case { fmt, alg, ..base.clone() }, &assets, "documented");
        }
    }

    // 2. real assets, 1..12 exclusions, offsets inside the asset (small and > 65535)
    let reps = if thorough { 60 } else { 6 };
    for fmt in ["image/jpeg", "image/png"] {
        for k in 1..=12usize {
            for rep in 0..reps {
                let far = rep % 2 == 1 || k % 2 == 0;
                let mut list = vec![(0u64, 0u64)];
                let mut pos = 0u64;
                for _ in 1..k {
                    let gap = if far { rng.range(3000, 7000) } else { rng.range(1, 20) };
                    let len = match rng.below(3) {
                        0 => rng.range(1, 23),
                        1 => rng.range(24, 255),
                        _ => rng.range(256, 2000),
                    };
                    pos += gap;
                    list.push((pos, len));
                    pos += len;
                }
                let das = if rep == 2 { vec![(100, 100)] } else { vec![] };
                do_case(
                    run,
                    &Case { fmt, excl: Some(list), das, reserve_extra: (rep * 977) % 3000, title_len: 3 + rep * 7, ..base.clone() },
                    &assets,
                    "real-multi",
                );
            }
        }
    }

    // 3. F9 witness and neighbours: ten exclusions with values >= 24 (synthetic offsets, caller digest)
    for (s, l) in [(24u64, 1u64), (24, 24), (23, 23), (0, 2), (256, 256), (65536, 70000), (1 << 32, 1 << 33)] {
        for k in [1usize, 5, 9, 10, 11, 12] {
            do_case(
                run,
                &Case { fmt: "c2pa", real: false, excl: Some(vec![(s, l); k]), ..base.clone() },
                &assets,
                "synthetic-uniform",
            );
        }
    }

    // 4. synthetic exclusion lists 0..12 with mixed value sizes, all formats with length check
    let n = if thorough { 60000 } else { 3000 };
    for i in 0..n {
        let k = rng.below(13) as usize;
        let big = rng.chance(1, 2);
        let list: Vec<(u64, u64)> = (0..k).map(|_| (pick_val(rng, big), pick_val(rng, big))).collect();
        let fmt = *rng.pick(&["c2pa", "image/jpeg", "image/png"]);
        let alg = *rng.pick(&["sha256", "sha256", "sha384", "sha512"]);
        let excl = if rng.chance(1, 12) { None } else { Some(list) };
        let rehash = rng.chance(5, 6);
        let das = match rng.below(6) {
            0 => vec![(rng.range(1, 300) as usize, rng.range(1, 300) as usize)],
            1 => {
                let r = rng.range(20, 70000) as usize;
                vec![(r, r)]
            }
            _ => vec![],
        };
        do_case(
            run,
            &Case { fmt, real: false, alg, pre: None, excl, rehash, das, reserve_extra: (i * 331) % 5000, title_len: 1 + i % 40 },
            &assets,
            "synthetic-mixed",
        );
    }

    // 5. caller pre-sized DataHash (pad / many dummy exclusions) then real-size exclusions
    let n = if thorough { 15000 } else { 800 };
    for _ in 0..n {
        let pk = rng.below(14) as usize;
        let pv = *rng.pick(&[0u64, 23, 24, 255, 65536, 1 << 32]);
        let pre = PreDh {
            name_len: *rng.pick(&[14usize, 14, 1, 30]),
            hash_len: *rng.pick(&[32usize, 32, 0, 64]),
            pad: *rng.pick(&[0usize, 0, 10, 100]),
            exclusions: vec![(pv, pv); pk],
        };
        let k = rng.below(13) as usize;
        let big = rng.chance(1, 2);
        let list: Vec<(u64, u64)> = (0..k).map(|_| (pick_val(rng, big), pick_val(rng, big))).collect();
        let excl = if rng.chance(1, 8) { None } else { Some(list) };
        do_case(
            run,
            &Case { fmt: "c2pa", real: false, pre: Some(pre), excl, rehash: rng.chance(3, 4), ..base.clone() },
            &assets,
            "pre-sized",
        );
    }

    // 6. dynamic assertions around the CBOR head boundaries of reserve_size and content
    let mut rs: Vec<usize> = vec![1, 2, 10, 22, 23, 24, 25, 26, 27, 100, 254, 255, 256, 257, 258, 259, 260, 1000, 65535, 65536, 65537, 65538, 65539, 65540, 65541, 66000];
    if !thorough {
        rs.retain(|r| *r < 300 || *r > 65530);
    }
    for r in rs {
        for dc in [-2i64, -1, 0, 1, 2] {
            let c = r as i64 + dc;
            if c < 1 {
                continue;
            }
            do_case(
                run,
                &Case { fmt: "c2pa", real: false, das: vec![(r, c as usize)], excl: Some(vec![(0, 2); 10]), ..base.clone() },
                &assets,
                "dynamic-assertion",
            );
        }
    }
    // real asset + dynamic assertion of exactly its reserve
    for fmt in ["image/jpeg", "image/png"] {
        do_case(run, &Case { fmt, das: vec![(500, 500), (64, 60)], ..base.clone() }, &assets, "real-da");
    }
}
