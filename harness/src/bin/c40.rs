//! C40 — synchronous and asynchronous APIs behave identically.
//!
//! Two parts.
//!
//! 1. **Model vs the real macro.** Six `#[async_generic]` functions over a tracing state are
//!    expanded at compile time by the real `async-generic` crate (the one the SDK uses). The same
//!    bodies are `testProg 0..5` of lean/C2paModel/Model/C40.lean. For every function, flavour,
//!    condition mask, loop counter and failing step the trace of the real expansion is compared
//!    with the model's `evalF`:
//!      C40 run fn=<k> fl=sync|async conds=<mask> ctr=<n> fail=<step|->  ->  <trace>;ok | err<step>
//!
//! 2. **Property oracle on the SDK.** Every public operation that exists in both flavours is
//!    driven through both entry points on the same inputs, with signers that are the *same*
//!    signing code behind the `Signer` and the `AsyncSigner` trait (a tiny single-threaded
//!    `block_on`); outcomes (error class, or canonical abstracted report of the produced asset /
//!    of the read, and the progress-callback trace) must be equal:
//!      C40 cmp op=<op> cfg=<…>   ->  same | differ        (the model's answer is `same`:
//!                                                          the prediction of `twins_equal`)
//!    A difference is an oracle failure of class `sync-async-differ:<op>`.
//!
//! 3. **Hand-written pairs and the inventory.** `fn X_async` functions that appear in the source
//!    are not macro expansions. The harness scans sdk/src on its own (line based, no lexer) and
//!    the model answers from the regenerated table:
//!      C40 inv attrs=<n> pairs=<file:X,…> orphans=<file:X,…>   ->  ok | <differences>
//!      C40 hand file=<f> fn=<X>                                 ->  <kind of the reviewed entry>
//!      C40 handops                                              ->  <differential operations the
//!                                                                   reviewed entries name>
//!    and drives the pairs whose bodies differ through both forms: `Ingredient::from_stream` vs
//!    `from_stream_async` / `from_memory_async` (thread-local settings, one thread per call),
//!    and — through `Reader::with_stream(_async)` with identity decoding on and the same scripted
//!    transport behind `SyncHttpResolver` and `AsyncHttpResolver` — the hand-written
//!    `IcaSignatureVerifier::check_signature(_async)` and `did_web::resolve(_async)`.

use std::{
    future::Future,
    io::Cursor,
    sync::{Arc, Mutex},
};

use async_generic::async_generic;
use async_trait::async_trait;
use c2pa::{
    assertions::{BoxHash, DataHash},
    dynamic_assertion::{AsyncDynamicAssertion, DynamicAssertion, DynamicAssertionContent, PartialClaim},
    hash_stream_by_alg,
    http::{
        http::{Request, Response},
        AsyncHttpResolver, HttpResolverError, SyncHttpResolver,
    },
    AsyncSigner, Builder, Context, Error, HashRange, Ingredient, ProgressPhase, Reader, Signer, SigningAlg,
};
use vh::common::{canon_json, fixtures, guarded, main_with, Rng, Run};
use vh::sign::{definition, unsigned_sources};

fn main() {
    main_with("C40", run);
}

fn block_on<F: Future>(f: F) -> F::Output {
    tokio::runtime::Builder::new_current_thread()
        .enable_all()
        .build()
        .expect("runtime")
        .block_on(f)
}

// ---------------------------------------------------------------------------------------------
// Part 1: the real macro on tracing functions (mirrors testProg / tInterp of the Lean model)

struct Tr {
    trace: Vec<String>,
    conds: u64,
    ctr: u64,
    fail: Option<u32>,
}

impl Tr {
    fn step(&mut self, tag: &str, id: u32, n: u32) -> Result<(), u32> {
        if self.fail == Some(id) {
            return Err(id);
        }
        self.trace.push(format!("{tag}{n}"));
        if id == 8 {
            self.ctr = self.ctr.saturating_sub(1);
        }
        Ok(())
    }

    fn p(&mut self, n: u32) -> Result<(), u32> {
        self.step("p", n, n)
    }

    fn c(&self, c: u32) -> bool {
        if c == 1 {
            self.ctr > 0
        } else {
            (self.conds >> c) & 1 == 1
        }
    }
}

fn l(t: &mut Tr, n: u32) -> Result<(), u32> {
    t.step("L", 100 + n, n)
}

async fn l_async(t: &mut Tr, n: u32) -> Result<(), u32> {
    t.step("A", 200 + n, n)
}

#[async_generic]
fn f0(t: &mut Tr) -> Result<(), u32> {
    t.p(0)?;
    if _sync {
        l(t, 1)?;
    } else {
        l_async(t, 1).await?;
    }
    t.p(2)?;
    Ok(())
}

#[async_generic]
fn f1(t: &mut Tr) -> Result<(), u32> {
    t.p(0)?;
    if t.c(0) {
        if _sync {
            l(t, 1)?;
            if _sync {
                l(t, 2)?;
            } else {
                l_async(t, 3).await?;
            }
        } else {
            l_async(t, 1).await?;
            if _sync {
                l(t, 4)?;
            } else {
                l_async(t, 2).await?;
            }
        }
    } else {
        t.p(5)?;
    }
    t.p(6)?;
    Ok(())
}

#[async_generic]
fn f2(t: &mut Tr) -> Result<(), u32> {
    while t.c(1) {
        if _sync {
            l(t, 7)?;
        } else {
            l_async(t, 7).await?;
        }
        t.p(8)?;
    }
    t.p(3)?;
    Ok(())
}

#[async_generic]
fn f5(t: &mut Tr) -> Result<(), u32> {
    if _sync {
        if t.c(2) {
            return l(t, 11);
        }
    } else {
        if t.c(2) {
            return l_async(t, 11).await;
        }
    }
    t.p(12)?;
    Ok(())
}

#[async_generic]
fn f3(t: &mut Tr) -> Result<(), u32> {
    t.p(4)?;
    if _sync {
        f0(t)?;
    } else {
        f0_async(t).await?;
    }
    if _sync {
        f5(t)?;
    } else {
        f5_async(t).await?;
    }
    t.p(5)?;
    Ok(())
}

#[async_generic]
fn f4(t: &mut Tr) -> Result<(), u32> {
    t.p(0)?;
    if _sync {
    } else {
        t.p(9)?;
    }
    t.p(2)?;
    Ok(())
}

fn run_macro_fn(k: u32, is_async: bool, t: &mut Tr) -> Result<(), u32> {
    match (k, is_async) {
        (0, false) => f0(t),
        (0, true) => block_on(f0_async(t)),
        (1, false) => f1(t),
        (1, true) => block_on(f1_async(t)),
        (2, false) => f2(t),
        (2, true) => block_on(f2_async(t)),
        (3, false) => f3(t),
        (3, true) => block_on(f3_async(t)),
        (4, false) => f4(t),
        (4, true) => block_on(f4_async(t)),
        (5, false) => f5(t),
        (_, true) => block_on(f5_async(t)),
        _ => f5(t),
    }
}

fn macro_cases(run: &mut Run) {
    let fails: [Option<u32>; 20] = [
        None, Some(0), Some(2), Some(3), Some(4), Some(5), Some(6), Some(8), Some(9), Some(12), Some(101), Some(102), Some(104),
        Some(107), Some(111), Some(201), Some(202), Some(203), Some(207), Some(211),
    ];
    for k in 0..6u32 {
        for is_async in [false, true] {
            for conds in 0..8u64 {
                for ctr in 0..4u64 {
                    for fail in fails {
                        let mut t = Tr { trace: vec![], conds, ctr, fail };
                        let res = run_macro_fn(k, is_async, &mut t);
                        let imp = match res {
                            Ok(()) => format!("{};ok", t.trace.join(",")),
                            Err(e) => format!("err{e}"),
                        };
                        let req = format!(
                            "C40 run fn={k} fl={} conds={conds} ctr={ctr} fail={}",
                            if is_async { "async" } else { "sync" },
                            fail.map(|f| f.to_string()).unwrap_or_else(|| "-".into())
                        );
                        run.case(req, imp);
                        run.count("macro_run");
                    }
                }
            }
        }
    }
}

// ---------------------------------------------------------------------------------------------
// Part 2: the SDK through both entry points

#[derive(Clone, Copy, PartialEq, Debug)]
enum Fail {
    None,
    SignErr,
    Oversize,
    NoCerts,
    Garbage,
}

/// How the signer answers `send_timestamp_request` / `time_authority_url`.
#[derive(Clone, Copy, PartialEq, Debug)]
enum Ts {
    /// trait defaults: no time stamp
    None,
    /// custom `send_timestamp_request` that fails
    Err,
    /// custom `send_timestamp_request` that returns bytes that are not a time-stamp response
    Garbage,
    /// `time_authority_url` (nothing listens there) + custom request headers and body, sent by the
    /// trait's default `send_timestamp_request`
    Url,
}

/// Optional signer capabilities (everything the `Signer` / `AsyncSigner` traits let a signer
/// override beyond sign/alg/certs/reserve_size).
#[derive(Clone, Copy, PartialEq, Debug)]
struct Caps {
    /// `ocsp_val` returns a pre-fetched OCSP response
    ocsp: bool,
    ts: Ts,
    extra_reserve: usize,
    direct_cose: bool,
    dynamic: bool,
}

const NO_CAPS: Caps = Caps { ocsp: false, ts: Ts::None, extra_reserve: 0, direct_cose: false, dynamic: false };

struct Core {
    inner: c2pa::BoxedSigner,
    fail: Fail,
    caps: Caps,
    /// which capability methods the SDK called (set)
    calls: Mutex<std::collections::BTreeSet<&'static str>>,
}

impl Core {
    fn called(&self, what: &'static str) {
        self.calls.lock().unwrap().insert(what);
    }

    fn calls(&self) -> String {
        self.calls.lock().unwrap().iter().copied().collect::<Vec<_>>().join("+")
    }

    fn reserve(&self) -> usize {
        self.inner.reserve_size() + self.caps.extra_reserve + if self.caps.ocsp { ocsp_bytes().len() + 64 } else { 0 }
    }

    fn ocsp_val(&self) -> Option<Vec<u8>> {
        self.called("ocsp_val");
        self.caps.ocsp.then(ocsp_bytes)
    }

    fn time_authority_url(&self) -> Option<String> {
        self.called("time_authority_url");
        (self.caps.ts == Ts::Url).then(|| "http://127.0.0.1:9/tsa".to_string())
    }

    fn timestamp_request_headers(&self) -> Option<Vec<(String, String)>> {
        self.called("timestamp_request_headers");
        (self.caps.ts == Ts::Url).then(|| vec![("X-Verif".to_string(), "c40".to_string())])
    }

    /// `None` = use the trait's default
    fn timestamp_request_body(&self, message: &[u8]) -> Option<Vec<u8>> {
        self.called("timestamp_request_body");
        (self.caps.ts == Ts::Url).then(|| message.iter().rev().copied().collect())
    }

    /// `None` = use the trait's default
    fn send_timestamp_request(&self) -> Option<Option<c2pa::Result<Vec<u8>>>> {
        self.called("send_timestamp_request");
        match self.caps.ts {
            Ts::Err => Some(Some(Err(Error::BadParam("tsa refuses".into())))),
            Ts::Garbage => Some(Some(Ok(vec![0x30, 0x03, 0x02, 0x01, 0x00]))),
            Ts::None => Some(None),
            Ts::Url => None,
        }
    }

    fn direct_cose(&self) -> bool {
        self.called("direct_cose_handling");
        self.caps.direct_cose
    }

    fn sign(&self, data: &[u8]) -> c2pa::Result<Vec<u8>> {
        match self.fail {
            Fail::SignErr => Err(Error::BadParam("signer refuses".into())),
            Fail::Oversize => Ok(vec![0x5a; self.inner.reserve_size() + 4096]),
            Fail::Garbage => Ok(vec![0x5a; 64]),
            _ => self.inner.sign(data),
        }
    }

    fn certs(&self) -> c2pa::Result<Vec<Vec<u8>>> {
        if self.fail == Fail::NoCerts {
            Ok(vec![])
        } else {
            self.inner.certs()
        }
    }
}

struct SyncS(Arc<Core>);
struct AsyncS(Arc<Core>);

impl Signer for SyncS {
    fn sign(&self, data: &[u8]) -> c2pa::Result<Vec<u8>> {
        self.0.sign(data)
    }

    fn alg(&self) -> SigningAlg {
        self.0.inner.alg()
    }

    fn certs(&self) -> c2pa::Result<Vec<Vec<u8>>> {
        self.0.certs()
    }

    fn reserve_size(&self) -> usize {
        self.0.reserve()
    }

    fn time_authority_url(&self) -> Option<String> {
        self.0.time_authority_url()
    }

    fn timestamp_request_headers(&self) -> Option<Vec<(String, String)>> {
        self.0.timestamp_request_headers()
    }

    fn timestamp_request_body(&self, message: &[u8]) -> c2pa::Result<Vec<u8>> {
        match self.0.timestamp_request_body(message) {
            Some(b) => Ok(b),
            None => DefaultSigner(self).timestamp_request_body(message),
        }
    }

    fn send_timestamp_request(&self, message: &[u8]) -> Option<c2pa::Result<Vec<u8>>> {
        match self.0.send_timestamp_request() {
            Some(r) => r,
            None => DefaultSigner(self).send_timestamp_request(message),
        }
    }

    fn ocsp_val(&self) -> Option<Vec<u8>> {
        self.0.ocsp_val()
    }

    fn direct_cose_handling(&self) -> bool {
        self.0.direct_cose()
    }

    fn dynamic_assertions(&self) -> Vec<Box<dyn DynamicAssertion>> {
        self.0.called("dynamic_assertions");
        if self.0.caps.dynamic {
            vec![Box::new(DynA)]
        } else {
            vec![]
        }
    }
}

/// Gives access to the *trait's default* bodies of the time-stamp methods for a signer that
/// overrides url / headers / body only.
struct DefaultSigner<'a>(&'a SyncS);

impl Signer for DefaultSigner<'_> {
    fn sign(&self, data: &[u8]) -> c2pa::Result<Vec<u8>> {
        self.0.sign(data)
    }

    fn alg(&self) -> SigningAlg {
        self.0.alg()
    }

    fn certs(&self) -> c2pa::Result<Vec<Vec<u8>>> {
        self.0.certs()
    }

    fn reserve_size(&self) -> usize {
        self.0.reserve_size()
    }

    fn time_authority_url(&self) -> Option<String> {
        self.0.time_authority_url()
    }

    fn timestamp_request_headers(&self) -> Option<Vec<(String, String)>> {
        self.0.timestamp_request_headers()
    }
}

struct DefaultAsyncSigner<'a>(&'a AsyncS);

#[async_trait]
impl AsyncSigner for DefaultAsyncSigner<'_> {
    async fn sign(&self, data: Vec<u8>) -> c2pa::Result<Vec<u8>> {
        self.0.sign(data).await
    }

    fn alg(&self) -> SigningAlg {
        self.0.alg()
    }

    fn certs(&self) -> c2pa::Result<Vec<Vec<u8>>> {
        self.0.certs()
    }

    fn reserve_size(&self) -> usize {
        self.0.reserve_size()
    }

    fn time_authority_url(&self) -> Option<String> {
        self.0.time_authority_url()
    }

    fn timestamp_request_headers(&self) -> Option<Vec<(String, String)>> {
        self.0.timestamp_request_headers()
    }
}

#[async_trait]
impl AsyncSigner for AsyncS {
    async fn sign(&self, data: Vec<u8>) -> c2pa::Result<Vec<u8>> {
        self.0.sign(&data)
    }

    fn alg(&self) -> SigningAlg {
        self.0.inner.alg()
    }

    fn certs(&self) -> c2pa::Result<Vec<Vec<u8>>> {
        self.0.certs()
    }

    fn reserve_size(&self) -> usize {
        self.0.reserve()
    }

    fn time_authority_url(&self) -> Option<String> {
        self.0.time_authority_url()
    }

    fn timestamp_request_headers(&self) -> Option<Vec<(String, String)>> {
        self.0.timestamp_request_headers()
    }

    fn timestamp_request_body(&self, message: &[u8]) -> c2pa::Result<Vec<u8>> {
        match self.0.timestamp_request_body(message) {
            Some(b) => Ok(b),
            None => DefaultAsyncSigner(self).timestamp_request_body(message),
        }
    }

    async fn send_timestamp_request(&self, message: &[u8]) -> Option<c2pa::Result<Vec<u8>>> {
        match self.0.send_timestamp_request() {
            Some(r) => r,
            None => DefaultAsyncSigner(self).send_timestamp_request(message).await,
        }
    }

    async fn ocsp_val(&self) -> Option<Vec<u8>> {
        self.0.ocsp_val()
    }

    fn direct_cose_handling(&self) -> bool {
        self.0.direct_cose()
    }

    fn dynamic_assertions(&self) -> Vec<Box<dyn AsyncDynamicAssertion>> {
        self.0.called("dynamic_assertions");
        if self.0.caps.dynamic {
            vec![Box::new(DynA)]
        } else {
            vec![]
        }
    }
}

const ALGS: [(&str, SigningAlg); 7] = [
    ("ed25519", SigningAlg::Ed25519),
    ("es256", SigningAlg::Es256),
    ("ps256", SigningAlg::Ps256),
    ("es384", SigningAlg::Es384),
    ("es512", SigningAlg::Es512),
    ("ps384", SigningAlg::Ps384),
    ("ps512", SigningAlg::Ps512),
];

fn core(alg: &str, fail: Fail) -> Arc<Core> {
    if alg == "ephemeral" {
        // self-made certificate chain: valid signature, never on a trust list
        let inner: c2pa::BoxedSigner = Box::new(c2pa::EphemeralSigner::new("c40.verif.test").expect("ephemeral signer"));
        return Arc::new(Core { inner, fail, caps: NO_CAPS, calls: Default::default() });
    }
    let (name, a) = ALGS.iter().find(|(n, _)| *n == alg).expect("alg");
    let cert = std::fs::read(fixtures().join(format!("certs/{name}.pub"))).expect("cert");
    let key = std::fs::read(fixtures().join(format!("certs/{name}.pem"))).expect("key");
    Arc::new(Core { inner: c2pa::create_signer::from_keys(&cert, &key, *a, None).expect("signer"), fail, caps: NO_CAPS, calls: Default::default() })
}

fn core_with(alg: &str, caps: Caps) -> Arc<Core> {
    let (name, a) = ALGS.iter().find(|(n, _)| *n == alg).expect("alg");
    let cert = std::fs::read(fixtures().join(format!("certs/{name}.pub"))).expect("cert");
    let key = std::fs::read(fixtures().join(format!("certs/{name}.pem"))).expect("key");
    Arc::new(Core { inner: c2pa::create_signer::from_keys(&cert, &key, *a, None).expect("signer"), fail: Fail::None, caps, calls: Default::default() })
}

fn ocsp_bytes() -> Vec<u8> {
    std::fs::read(fixtures().join("ocsp_good.data")).unwrap_or_else(|_| vec![0x30, 0x03, 0x0a, 0x01, 0x00])
}

/// The same dynamic assertion behind both traits.
struct DynA;

impl DynA {
    fn body(label: &str, size: Option<usize>) -> c2pa::Result<DynamicAssertionContent> {
        let mut v = serde_json::json!({"label": label, "pad": ""}).to_string();
        if let Some(n) = size {
            // fill to the reserved size exactly
            let base = v.len();
            if n >= base {
                v = serde_json::json!({"label": label, "pad": "x".repeat(n - base)}).to_string();
            }
        }
        Ok(DynamicAssertionContent::Json(v))
    }
}

impl DynamicAssertion for DynA {
    fn label(&self) -> String {
        "org.verif.dynamic".to_string()
    }

    fn reserve_size(&self) -> c2pa::Result<usize> {
        Ok(96)
    }

    fn content(&self, label: &str, size: Option<usize>, _claim: &PartialClaim) -> c2pa::Result<DynamicAssertionContent> {
        DynA::body(label, size)
    }
}

#[async_trait]
impl AsyncDynamicAssertion for DynA {
    fn label(&self) -> String {
        "org.verif.dynamic".to_string()
    }

    fn reserve_size(&self) -> c2pa::Result<usize> {
        Ok(96)
    }

    async fn content(&self, label: &str, size: Option<usize>, _claim: &PartialClaim) -> c2pa::Result<DynamicAssertionContent> {
        DynA::body(label, size)
    }
}

type Trace = Arc<Mutex<Vec<(String, u32, u32)>>>;

fn base_settings() -> serde_json::Value {
    serde_json::json!({"verify": {"remote_manifest_fetch": false, "ocsp_fetch": false}})
}

fn merge(a: &mut serde_json::Value, b: &serde_json::Value) {
    match (a, b) {
        (serde_json::Value::Object(x), serde_json::Value::Object(y)) => {
            for (k, v) in y {
                merge(x.entry(k.clone()).or_insert(serde_json::Value::Null), v);
            }
        }
        (x, y) => *x = y.clone(),
    }
}

fn settings_variants() -> Vec<(&'static str, serde_json::Value)> {
    let anchors = std::fs::read_to_string(fixtures().join("certs/trust/test_cert_root_bundle.pem")).unwrap_or_default();
    vec![
        ("default", serde_json::json!({})),
        ("no-verify-after-sign", serde_json::json!({"verify": {"verify_after_sign": false}})),
        ("trust", serde_json::json!({"trust": {"trust_anchors": anchors}, "verify": {"verify_trust": true}})),
        ("compress", serde_json::json!({"core": {"prefer_compress_manifests": true}})),
        ("no-ts-trust", serde_json::json!({"verify": {"verify_timestamp_trust": false, "verify_trust": false}})),
    ]
}

fn ctx(extra: &serde_json::Value, trace: &Trace) -> c2pa::Result<Context> {
    let mut s = base_settings();
    merge(&mut s, extra);
    let tr = trace.clone();
    Ok(Context::new().with_settings(s.to_string().as_str())?.with_progress_callback(move |phase: ProgressPhase, step, total| {
        tr.lock().unwrap().push((format!("{phase:?}"), step, total));
        true
    }))
}

fn err_class(e: &Error) -> String {
    let d = format!("{e:?}");
    d.chars().take_while(|c| c.is_ascii_alphanumeric()).collect()
}

/// Replace GUIDs after `urn:c2pa:` / `urn:uuid:` by what `name(guid)` says and the ones after
/// `xmp:iid:` / `xmp:did:` by `<iid>`.
fn map_ids(text: &str, name: &mut dyn FnMut(&str) -> String) -> String {
    let mut out = String::with_capacity(text.len());
    let b = text.as_bytes();
    let mut i = 0;
    let is_id = |c: u8| c.is_ascii_hexdigit() || c == b'-';
    while i < b.len() {
        let rest = &text[i..];
        let (pre, numbered) = if rest.starts_with("urn:c2pa:") || rest.starts_with("urn:uuid:") {
            (9, true)
        } else if rest.starts_with("xmp:iid:") || rest.starts_with("xmp:did:") {
            (8, false)
        } else {
            (0, false)
        };
        if pre > 0 {
            out.push_str(&rest[..pre]);
            i += pre;
            let st = i;
            while i < b.len() && is_id(b[i]) {
                i += 1;
            }
            if numbered {
                out.push_str(&name(&text[st..i]));
            } else {
                out.push_str("<iid>");
            }
        } else {
            let ch = rest.chars().next().unwrap();
            out.push(ch);
            i += ch.len_utf8();
        }
    }
    out
}

fn scrub(v: &mut serde_json::Value, keys: &[&str]) {
    match v {
        serde_json::Value::Object(m) => {
            for k in keys {
                if m.contains_key(*k) {
                    m.insert(k.to_string(), serde_json::Value::String("<volatile>".into()));
                }
            }
            for (_, x) in m.iter_mut() {
                scrub(x, keys);
            }
        }
        serde_json::Value::Array(a) => a.iter_mut().for_each(|x| scrub(x, keys)),
        _ => {}
    }
}

/// Report of a read of fixed bytes: nothing but the validation time may differ.
fn exact_json(text: &str) -> String {
    match serde_json::from_str::<serde_json::Value>(text) {
        Ok(mut v) => {
            scrub(&mut v, &["validationTime"]);
            canon_json(&v)
        }
        Err(_) => text.to_string(),
    }
}

/// Canonical report with everything that legitimately differs between two *signings* abstracted:
/// volatile members are blanked, manifest GUIDs are numbered in the order in which a canonical
/// walk (active manifest first, then the others ordered by their id-blind text) meets them.
fn abstract_json(text: &str) -> String {
    const VOLATILE: [&str; 9] = ["time", "hash", "instance_id", "instanceID", "pad", "pad2", "signature", "when", "validationTime"];
    let mut v: serde_json::Value = match serde_json::from_str(text) {
        Ok(v) => v,
        Err(_) => return map_ids(text, &mut |_| "<id>".to_string()),
    };
    scrub(&mut v, &VOLATILE);
    let blind = |x: &serde_json::Value| map_ids(&canon_json(x), &mut |_| "<id>".to_string());
    let mut walk = String::new();
    let active = v.get("active_manifest").and_then(|a| a.as_str()).unwrap_or("").to_string();
    walk.push_str(&active);
    if let Some(ms) = v.get("manifests").and_then(|m| m.as_object()) {
        if let Some(a) = ms.get(&active) {
            walk.push_str(&canon_json(a));
        }
        let mut rest: Vec<(String, String)> = ms.iter().filter(|(k, _)| **k != active).map(|(k, x)| (blind(x), format!("{k}{}", canon_json(x)))).collect();
        rest.sort();
        for (_, t) in rest {
            walk.push_str(&t);
        }
    }
    walk.push_str(&canon_json(&v));
    let mut seen: Vec<String> = vec![];
    map_ids(&walk, &mut |g| {
        if !seen.iter().any(|s| s == g) {
            seen.push(g.to_string());
        }
        String::new()
    });
    let renamed = map_ids(&canon_json(&v), &mut |g| format!("<id{}>", seen.iter().position(|s| s == g).unwrap_or(999)));
    match serde_json::from_str::<serde_json::Value>(&renamed) {
        Ok(v2) => canon_json(&v2),
        Err(_) => renamed,
    }
}

fn reader_summary(r: &Reader) -> String {
    format!("{:?}:{}", r.validation_state(), abstract_json(&r.json()))
}

fn reader_exact(r: &Reader) -> String {
    format!("{:?}:{}", r.validation_state(), exact_json(&r.json()))
}

/// Outcome of one flavour of one operation.
#[derive(PartialEq, Clone, Debug)]
struct Outc {
    /// `ok` or `err:<Kind>` (or `panic`)
    class: String,
    /// canonical abstracted description of what was produced / read
    report: String,
    /// progress trace (exact for reads, collapsed phases for signing)
    trace: String,
}

fn trace_exact(t: &Trace) -> String {
    t.lock().unwrap().iter().map(|(p, s, n)| format!("{p}:{s}/{n}")).collect::<Vec<_>>().join(",")
}

fn trace_phases(t: &Trace) -> String {
    let mut out: Vec<String> = vec![];
    for (p, _, _) in t.lock().unwrap().iter() {
        if out.last() != Some(p) {
            out.push(p.clone());
        }
    }
    out.join(",")
}

fn plain_read(fmt: &str, data: &[u8], extra: &serde_json::Value) -> String {
    let tr: Trace = Default::default();
    match ctx(extra, &tr).and_then(|c| Reader::from_context(c).with_stream(fmt, Cursor::new(data.to_vec()))) {
        Ok(r) => reader_summary(&r),
        Err(e) => format!("read-err:{}", err_class(&e)),
    }
}

fn finish<T>(res: Result<c2pa::Result<T>, String>, describe: impl FnOnce(T) -> String, trace: String) -> Outc {
    match res {
        Err(p) => Outc { class: "panic".into(), report: p.chars().take(120).collect(), trace },
        Ok(Err(e)) => Outc { class: format!("err:{}", err_class(&e)), report: String::new(), trace },
        Ok(Ok(v)) => Outc { class: "ok".into(), report: describe(v), trace },
    }
}

struct Cmp<'a> {
    run: &'a mut Run,
}

impl Cmp<'_> {
    /// Run both flavours; on a difference run both again to tell a sync/async divergence from an
    /// outcome that is not stable between two runs of the *same* flavour.
    fn both(&mut self, op: &str, cfg: &str, one: &mut dyn FnMut(bool) -> Outc) {
        let a = one(false);
        let b = one(true);
        if a != b {
            let a2 = one(false);
            let b2 = one(true);
            if a2 == b2 || a != a2 || b != b2 {
                let idx = self.run.case(format!("C40 cmp op={op} cfg={}", cfg.replace(' ', "_")), "same".to_string());
                self.run.count("unstable_outcome");
                self.run.fail(
                    idx,
                    &format!("unstable-outcome:{op}"),
                    format!("{op} [{cfg}]: outcomes are not reproducible: first run sync {} / async {}, second run sync {} / async {} (sync stable: {}, async stable: {})", a.class, b.class, a2.class, b2.class, a == a2, b == b2),
                );
                return;
            }
        }
        self.cmp(op, cfg, a, b);
    }

    fn cmp(&mut self, op: &str, cfg: &str, a: Outc, b: Outc) {
        let same = a == b;
        let idx = self.run.case(format!("C40 cmp op={op} cfg={}", cfg.replace(' ', "_")), if same { "same" } else { "differ" }.to_string());
        self.run.count(&format!("op_{op}"));
        self.run.count(&format!("outcome_{}", a.class.split(':').next().unwrap_or("")));
        if a.class == "panic" || b.class == "panic" {
            self.run.fail(idx, "panic", format!("{op} [{cfg}]: sync {} / async {}", a.report, b.report));
        }
        if same {
            self.run.nontrivial(format!("{op} {cfg} {}", a.class));
        } else {
            let what = if a.class != b.class {
                format!("outcome class: sync {} vs async {}", a.class, b.class)
            } else if a.trace != b.trace {
                format!("progress trace: sync [{}] vs async [{}]", a.trace, b.trace)
            } else {
                let (x, y) = (a.report.as_bytes(), b.report.as_bytes());
                let k = x.iter().zip(y.iter()).position(|(p, q)| p != q).unwrap_or(x.len().min(y.len()));
                let lo = k.saturating_sub(60);
                format!(
                    "report differs at byte {k}: sync …{}… vs async …{}…",
                    String::from_utf8_lossy(&x[lo..(k + 60).min(x.len())]),
                    String::from_utf8_lossy(&y[lo..(k + 60).min(y.len())])
                )
            };
            let codes = |r: &str| -> String {
                let mut out = vec![];
                let mut rest = r;
                while let Some(k) = rest.find("\"failure\":[{") {
                    let seg = &rest[k..];
                    let end = seg.find("}]").unwrap_or(seg.len().min(400));
                    out.push(seg[..end.min(seg.len())].chars().take(400).collect::<String>());
                    rest = &seg[end.min(seg.len())..];
                    if out.len() >= 3 {
                        break;
                    }
                }
                out.join(" || ")
            };
            self.run.fail(idx, &format!("sync-async-differ:{op}"), format!("{op} [{cfg}]: {what}; failures sync [{}] async [{}]", codes(&a.report), codes(&b.report)));
        }
    }
}

fn definitions(fmt: &str) -> Vec<(&'static str, String)> {
    let v2 = definition("c40 asset", fmt);
    let mut v1: serde_json::Value = serde_json::from_str(&v2).unwrap();
    v1["claim_version"] = serde_json::json!(1);
    v1["assertions"] = serde_json::json!([{"label": "c2pa.actions", "data": {"actions": [{"action": "c2pa.edited"}]}}]);
    let mut rich: serde_json::Value = serde_json::from_str(&v2).unwrap();
    rich["title"] = serde_json::json!("ünïcödé – title 🦀");
    rich["assertions"].as_array_mut().unwrap().push(serde_json::json!({"label": "org.verif.note", "data": {"k": [1, 2, 3], "s": "x"}}));
    vec![("v2", v2), ("v1", v1.to_string()), ("rich", rich.to_string())]
}

/// sign through `Builder::sign` / `sign_async` (explicit signer) or `save_to_stream(_async)` (context signer)
#[allow(clippy::too_many_arguments)]
fn sign_both(cmp: &mut Cmp, fmt: &str, src: &[u8], def: &str, def_name: &str, sname: &str, sextra: &serde_json::Value, alg: &str, fail: Fail, via_ctx: bool, ingredient: Option<(&str, &[u8])>) -> Option<Vec<u8>> {
    let core = core(alg, fail);
    let cfg = format!("{fmt},{def_name},{sname},{alg},{fail:?},{},{}", if via_ctx { "ctx" } else { "arg" }, if ingredient.is_some() { "ing" } else { "-" });
    let mut kept = None;
    let mut one = |is_async: bool| -> Outc {
        let tr: Trace = Default::default();
        let res = guarded(std::panic::AssertUnwindSafe(|| -> c2pa::Result<Vec<u8>> {
            let mut c = ctx(sextra, &tr)?;
            if via_ctx {
                c = if is_async { c.with_async_signer(AsyncS(core.clone())) } else { c.with_signer(SyncS(core.clone())) };
            }
            let mut b = Builder::from_context(c).with_definition(def)?;
            if let Some((ifmt, idata)) = ingredient {
                let ij = serde_json::json!({"title": "ing", "relationship": "parentOf"}).to_string();
                if is_async {
                    block_on(b.add_ingredient_from_stream_async(ij, ifmt, &mut Cursor::new(idata.to_vec())))?;
                } else {
                    b.add_ingredient_from_stream(ij, ifmt, &mut Cursor::new(idata.to_vec()))?;
                }
            }
            let mut input = Cursor::new(src.to_vec());
            let mut out = Cursor::new(Vec::new());
            match (via_ctx, is_async) {
                (true, false) => b.save_to_stream(fmt, &mut input, &mut out)?,
                (true, true) => block_on(b.save_to_stream_async(fmt, &mut input, &mut out))?,
                (false, false) => b.sign(&SyncS(core.clone()), fmt, &mut input, &mut out)?,
                (false, true) => block_on(b.sign_async(&AsyncS(core.clone()), fmt, &mut input, &mut out))?,
            };
            Ok(out.into_inner())
        }));
        let trace = trace_phases(&tr);
        let o = finish(res, |bytes| {
            let rep = plain_read(fmt, &bytes, sextra);
            if !is_async {
                kept = Some(bytes);
            }
            rep
        }, trace);
        o
    };
    cmp.both(if ingredient.is_some() { "sign-with-ingredient" } else if via_ctx { "save_to_stream" } else { "sign" }, &cfg, &mut one);
    kept
}

fn read_both(cmp: &mut Cmp, name: &str, hint: &str, data: &[u8], sname: &str, sextra: &serde_json::Value) {
    let mut one = |is_async: bool| -> Outc {
        let tr: Trace = Default::default();
        let res = guarded(std::panic::AssertUnwindSafe(|| -> c2pa::Result<Reader> {
            let c = ctx(sextra, &tr)?;
            if is_async {
                block_on(Reader::from_context(c).with_stream_async(hint, Cursor::new(data.to_vec())))
            } else {
                Reader::from_context(c).with_stream(hint, Cursor::new(data.to_vec()))
            }
        }));
        let trace = trace_exact(&tr);
        finish(res, |r| reader_exact(&r), trace)
    };
    cmp.both("read", &format!("{name},hint={hint},{sname}"), &mut one);
}

fn sidecar_both(cmp: &mut Cmp, name: &str, fmt: &str, manifest: &[u8], asset: &[u8]) {
    let mut one = |is_async: bool| -> Outc {
        let tr: Trace = Default::default();
        let res = guarded(std::panic::AssertUnwindSafe(|| -> c2pa::Result<Reader> {
            let c = ctx(&serde_json::json!({}), &tr)?;
            if is_async {
                block_on(Reader::from_context(c).with_manifest_data_and_stream_async(manifest, fmt, Cursor::new(asset.to_vec())))
            } else {
                Reader::from_context(c).with_manifest_data_and_stream(manifest, fmt, Cursor::new(asset.to_vec()))
            }
        }));
        let trace = trace_exact(&tr);
        finish(res, |r| reader_exact(&r), trace)
    };
    cmp.both("read-manifest-data-and-stream", &format!("{name},{fmt}"), &mut one);
}

fn fragment_both(cmp: &mut Cmp, name: &str, init: &[u8], frag: &[u8]) {
    let mut one = |is_async: bool| -> Outc {
        let tr: Trace = Default::default();
        let res = guarded(std::panic::AssertUnwindSafe(|| -> c2pa::Result<Reader> {
            let c = ctx(&serde_json::json!({}), &tr)?;
            if is_async {
                block_on(Reader::from_context(c).with_fragment_async("video/mp4", Cursor::new(init.to_vec()), Cursor::new(frag.to_vec())))
            } else {
                Reader::from_context(c).with_fragment("video/mp4", Cursor::new(init.to_vec()), Cursor::new(frag.to_vec()))
            }
        }));
        let trace = trace_exact(&tr);
        finish(res, |r| reader_exact(&r), trace)
    };
    cmp.both("read-fragment", name, &mut one);
}

/// add_ingredient_from_stream(_async): compare the ingredient the builder recorded
fn ingredient_both(cmp: &mut Cmp, name: &str, hint: &str, data: &[u8], rel: &str) {
    let mut one = |is_async: bool| -> Outc {
        let tr: Trace = Default::default();
        let res = guarded(std::panic::AssertUnwindSafe(|| -> c2pa::Result<String> {
            let c = ctx(&serde_json::json!({}), &tr)?;
            let mut b = Builder::from_context(c).with_definition(definition("c40", "image/jpeg").as_str())?;
            let ij = serde_json::json!({"title": "ing", "relationship": rel}).to_string();
            let ing = if is_async {
                block_on(b.add_ingredient_from_stream_async(ij, hint, &mut Cursor::new(data.to_vec())))?
            } else {
                b.add_ingredient_from_stream(ij, hint, &mut Cursor::new(data.to_vec()))?
            };
            Ok(abstract_json(&serde_json::to_string(ing).unwrap_or_default()))
        }));
        let trace = trace_exact(&tr);
        finish(res, |s| s, trace)
    };
    cmp.both("add_ingredient_from_stream", &format!("{name},hint={hint},{rel}"), &mut one);
}

/// ingredient archive: write_ingredient_archive, then add_ingredient_from_archive(_async)
fn archive_ingredient_both(cmp: &mut Cmp, name: &str, fmt: &str, data: &[u8], garbage: Option<&[u8]>) {
    let archive: Vec<u8> = match garbage {
        Some(g) => g.to_vec(),
        None => {
            let made = guarded(std::panic::AssertUnwindSafe(|| -> c2pa::Result<Vec<u8>> {
                let tr: Trace = Default::default();
                let c = ctx(&serde_json::json!({"builder": {"generate_c2pa_archive": true}}), &tr)?;
                let mut b = Builder::from_context(c).with_definition(definition("c40", "image/jpeg").as_str())?;
                let ij = serde_json::json!({"title": "ing", "relationship": "componentOf", "label": "ing-1"}).to_string();
                b.add_ingredient_from_stream(ij, fmt, &mut Cursor::new(data.to_vec()))?;
                let id = b.definition.ingredients.last().and_then(|i| i.label().map(|s| s.to_string()).or_else(|| i.instance_id().to_string().into())).unwrap_or_default();
                let mut out = Cursor::new(Vec::new());
                b.write_ingredient_archive(&id, &mut out)?;
                Ok(out.into_inner())
            }));
            match made {
                Ok(Ok(a)) => a,
                other => {
                    cmp.run.notes.push(format!("ingredient archive for {name} not produced: {:?}", other.map(|r| r.map(|v| v.len()).map_err(|e| err_class(&e)))));
                    return;
                }
            }
        }
    };
    let mut one = |is_async: bool| -> Outc {
        let tr: Trace = Default::default();
        let res = guarded(std::panic::AssertUnwindSafe(|| -> c2pa::Result<String> {
            let c = ctx(&serde_json::json!({}), &tr)?;
            let mut b = Builder::from_context(c).with_definition(definition("c40", "image/jpeg").as_str())?;
            let ing = if is_async {
                block_on(b.add_ingredient_from_archive_async(&mut Cursor::new(archive.clone())))?
            } else {
                b.add_ingredient_from_archive(&mut Cursor::new(archive.clone()))?
            };
            Ok(abstract_json(&serde_json::to_string(ing).unwrap_or_default()))
        }));
        let trace = trace_exact(&tr);
        finish(res, |s| s, trace)
    };
    cmp.both("add_ingredient_from_archive", &format!("{name}{}", if garbage.is_some() { ",garbage" } else { "" }), &mut one);
}

/// data-hashed embeddable: placeholder -> splice -> hash -> sign_data_hashed_embeddable(_async)
fn data_hashed_both(cmp: &mut Cmp, fmt: &str, jpeg: &[u8], alg: &str, fail: Fail, bad_hash: bool) {
    let core = core(alg, fail);
    let mut one = |is_async: bool| -> Outc {
        let tr: Trace = Default::default();
        let res = guarded(std::panic::AssertUnwindSafe(|| -> c2pa::Result<Vec<u8>> {
            let c = ctx(&serde_json::json!({}), &tr)?;
            let mut b = Builder::from_context(c).with_definition(definition("c40 dh", fmt).as_str())?;
            let ph = b.data_hashed_placeholder(core.inner.reserve_size(), fmt)?;
            let (offset, mut asset) = if fmt == "image/jpeg" {
                let mut v = jpeg[..2].to_vec();
                v.extend_from_slice(&ph);
                v.extend_from_slice(&jpeg[2..]);
                (2usize, v)
            } else {
                (0usize, ph.clone())
            };
            let mut dh = DataHash::new("source_hash", "sha256");
            dh.exclusions = Some(vec![HashRange::new(offset as u64, ph.len() as u64)]);
            let mut h = hash_stream_by_alg("sha256", &mut Cursor::new(asset.clone()), dh.exclusions.clone(), true)?;
            if bad_hash {
                h[0] ^= 0xff;
            }
            dh.set_hash(h);
            let m = if is_async {
                block_on(b.sign_data_hashed_embeddable_async(&AsyncS(core.clone()), &dh, fmt))?
            } else {
                b.sign_data_hashed_embeddable(&SyncS(core.clone()), &dh, fmt)?
            };
            if m.len() == ph.len() {
                asset[offset..offset + m.len()].copy_from_slice(&m);
                Ok(asset)
            } else {
                Err(Error::BadParam(format!("embeddable length {} vs placeholder {}", m.len(), ph.len())))
            }
        }));
        let trace = trace_phases(&tr);
        finish(res, |asset| plain_read(fmt, &asset, &serde_json::json!({})), trace)
    };
    cmp.both("sign_data_hashed_embeddable", &format!("{fmt},{alg},{fail:?},badhash={bad_hash}"), &mut one);
}

fn box_hashed_both(cmp: &mut Cmp, fmt: &str, alg: &str, fail: Fail, sname: &str, sextra: &serde_json::Value) {
    let core = core(alg, fail);
    let bh: BoxHash = match std::fs::read(fixtures().join("boxhash.json")).ok().and_then(|b| serde_json::from_slice(&b).ok()) {
        Some(b) => b,
        None => return,
    };
    let asset = std::fs::read(fixtures().join("boxhash.jpg")).unwrap_or_default();
    let mut one = |is_async: bool| -> Outc {
        let tr: Trace = Default::default();
        let res = guarded(std::panic::AssertUnwindSafe(|| -> c2pa::Result<Vec<u8>> {
            let c = ctx(sextra, &tr)?;
            let mut b = Builder::from_context(c).with_definition(definition("c40 bh", "image/jpeg").as_str())?;
            b.add_assertion(c2pa::assertions::labels::BOX_HASH, &bh)?;
            if is_async {
                block_on(b.sign_box_hashed_embeddable_async(&AsyncS(core.clone()), fmt))
            } else {
                b.sign_box_hashed_embeddable(&SyncS(core.clone()), fmt)
            }
        }));
        let trace = trace_phases(&tr);
        finish(
            res,
            |m| {
                if fmt == "application/c2pa" {
                    let tr2: Trace = Default::default();
                    match ctx(sextra, &tr2).and_then(|c| Reader::from_context(c).with_manifest_data_and_stream(&m, "image/jpeg", Cursor::new(asset.clone()))) {
                        Ok(r) => reader_summary(&r),
                        Err(e) => format!("read-err:{}", err_class(&e)),
                    }
                } else {
                    format!("composed:{}", m.len())
                }
            },
            trace,
        )
    };
    cmp.both("sign_box_hashed_embeddable", &format!("{fmt},{alg},{fail:?},{sname}"), &mut one);
}

/// The signer configured in *settings* exists only for the sync flavour (TODO in
/// Context::async_signer): `save_to_stream` signs, `save_to_stream_async` fails.
fn settings_signer_both(cmp: &mut Cmp, fmt: &str, src: &[u8]) {
    let cert = std::fs::read_to_string(fixtures().join("certs/es256.pub")).unwrap_or_default();
    let key = std::fs::read_to_string(fixtures().join("certs/es256.pem")).unwrap_or_default();
    let extra = serde_json::json!({"signer": {"local": {"alg": "es256", "sign_cert": cert, "private_key": key}}});
    let mut one = |is_async: bool| -> Outc {
        let tr: Trace = Default::default();
        let res = guarded(std::panic::AssertUnwindSafe(|| -> c2pa::Result<Vec<u8>> {
            let c = ctx(&extra, &tr)?;
            let mut b = Builder::from_context(c).with_definition(definition("c40", fmt).as_str())?;
            let mut input = Cursor::new(src.to_vec());
            let mut out = Cursor::new(Vec::new());
            if is_async {
                block_on(b.save_to_stream_async(fmt, &mut input, &mut out))?;
            } else {
                b.save_to_stream(fmt, &mut input, &mut out)?;
            }
            Ok(out.into_inner())
        }));
        let trace = trace_phases(&tr);
        finish(res, |bytes| plain_read(fmt, &bytes, &serde_json::json!({})), trace)
    };
    cmp.both("settings-signer", fmt, &mut one);
}

/// Summary of the COSE_Sign1 in the `c2pa.signature` box of a manifest store: the labels of the
/// unprotected header (sorted), and for the stapled values (`rVals`, `sigTst`, `sigTst2`) a digest
/// of the content (`sigTst*` carry times: presence only). `pad` lengths are not compared.
fn cose_headers(jumbf: &[u8]) -> String {
    use coset::{CborSerializable, TaggedCborSerializable};
    use sha2::Digest;
    let label = b"c2pa.signature\0";
    let Some(pos) = jumbf.windows(label.len()).position(|w| w == label) else { return "no-signature-box".into() };
    let after = pos + label.len();
    let Some(lb) = jumbf.get(after..after + 4) else { return "short".into() };
    let lbox = u32::from_be_bytes(lb.try_into().unwrap()) as usize;
    if jumbf.get(after + 4..after + 8) != Some(b"cbor") {
        return "no-cbor-box".into();
    }
    let Some(cbor) = jumbf.get(after + 8..after + lbox) else { return "short".into() };
    let s1 = match coset::CoseSign1::from_tagged_slice(cbor).or_else(|_| coset::CoseSign1::from_slice(cbor)) {
        Ok(s) => s,
        Err(_) => return format!("not-cose:{}", cbor.len().min(9999) / 1000),
    };
    let name = |l: &coset::Label| match l {
        coset::Label::Int(i) => format!("#{i}"),
        coset::Label::Text(t) => t.clone(),
    };
    let mut out: Vec<String> = s1
        .unprotected
        .rest
        .iter()
        .map(|(l, v)| {
            let n = name(l);
            if n == "rVals" {
                let mut b = vec![];
                let _ = coset::cbor::ser::into_writer(v, &mut b);
                format!("rVals:{}", hex::encode(&sha2::Sha256::digest(&b)[..6]))
            } else {
                n
            }
        })
        .collect();
    out.sort();
    let mut prot: Vec<String> = s1.protected.header.rest.iter().map(|(l, _)| name(l)).collect();
    prot.sort();
    format!("alg={:?};prot={};unprot={}", s1.protected.header.alg, prot.join(","), out.join(","))
}

/// Signing with signers that use the optional capabilities of the `Signer` / `AsyncSigner` traits
/// (the same core behind both): the outcome compares the error class, the read-back report, the
/// COSE headers of the produced signature (stapled OCSP response, time stamps) and the *set of
/// capability methods the SDK called* — a forwarder that exists in one flavour only shows in all
/// three.
fn caps_sign_both(cmp: &mut Cmp, fmt: &str, src: &[u8], def: &str, alg: &str, caps: Caps, via_ctx: bool, cname: &str) {
    // a canned OCSP response is about another certificate: do not verify after signing
    let sextra = serde_json::json!({"verify": {"verify_after_sign": false}});
    let mut one = |is_async: bool| -> Outc {
        let core = core_with(alg, caps);
        let tr: Trace = Default::default();
        let res = guarded(std::panic::AssertUnwindSafe(|| -> c2pa::Result<(Vec<u8>, Vec<u8>)> {
            let mut c = ctx(&sextra, &tr)?;
            if via_ctx {
                c = if is_async { c.with_async_signer(AsyncS(core.clone())) } else { c.with_signer(SyncS(core.clone())) };
            }
            let mut b = Builder::from_context(c).with_definition(def)?;
            let mut input = Cursor::new(src.to_vec());
            let mut out = Cursor::new(Vec::new());
            let jumbf = match (via_ctx, is_async) {
                (true, false) => b.save_to_stream(fmt, &mut input, &mut out)?,
                (true, true) => block_on(b.save_to_stream_async(fmt, &mut input, &mut out))?,
                (false, false) => b.sign(&SyncS(core.clone()), fmt, &mut input, &mut out)?,
                (false, true) => block_on(b.sign_async(&AsyncS(core.clone()), fmt, &mut input, &mut out))?,
            };
            Ok((jumbf, out.into_inner()))
        }));
        let calls = core.calls();
        let mut o = finish(res, |(jumbf, bytes)| format!("{}|cose[{}]", plain_read(fmt, &bytes, &sextra), cose_headers(&jumbf)), trace_phases(&tr));
        o.report = format!("calls[{calls}]|{}", o.report);
        o
    };
    if caps.ocsp && !caps.direct_cose {
        // coverage evidence: the synchronous flavour really staples the response
        if one(false).report.contains("rVals:") {
            cmp.run.count("capability_ocsp_stapled_sync");
        }
    }
    cmp.both("sign-capabilities", &format!("{fmt},{alg},{cname},{}", if via_ctx { "ctx" } else { "arg" }), &mut one);
}

fn capability_signers(cmp: &mut Cmp, sources: &[(&'static str, Vec<u8>)], thorough: bool) {
    let variants: Vec<(&str, Caps)> = vec![
        ("none", NO_CAPS),
        ("ocsp", Caps { ocsp: true, ..NO_CAPS }),
        ("ts-err", Caps { ts: Ts::Err, ..NO_CAPS }),
        ("ts-garbage", Caps { ts: Ts::Garbage, ..NO_CAPS }),
        ("ts-url", Caps { ts: Ts::Url, ..NO_CAPS }),
        ("reserve+1", Caps { extra_reserve: 1, ..NO_CAPS }),
        ("reserve+4096", Caps { extra_reserve: 4096, ..NO_CAPS }),
        ("direct-cose", Caps { direct_cose: true, ..NO_CAPS }),
        ("dynamic", Caps { dynamic: true, ..NO_CAPS }),
        ("ocsp+dynamic+reserve", Caps { ocsp: true, dynamic: true, extra_reserve: 512, ..NO_CAPS }),
        ("ocsp+ts-url", Caps { ocsp: true, ts: Ts::Url, ..NO_CAPS }),
        ("ocsp+direct-cose", Caps { ocsp: true, direct_cose: true, ..NO_CAPS }),
    ];
    let fmts: &[&str] = if thorough { &["image/jpeg", "image/png", "video/mp4", "audio/wav"] } else { &["image/jpeg", "image/png"] };
    let algs: &[&str] = if thorough { &["es256", "ps256", "ed25519", "es384"] } else { &["es256", "ed25519"] };
    for (fmt, src) in sources.iter().filter(|(f, _)| fmts.contains(f)) {
        let defs = definitions(fmt);
        for (k, (cname, caps)) in variants.iter().enumerate() {
            for via_ctx in [true, false] {
                let alg = algs[(k + via_ctx as usize) % algs.len()];
                caps_sign_both(cmp, fmt, src, &defs[0].1, alg, *caps, via_ctx, cname);
            }
        }
    }
    let seen_ocsp = cmp.run.nontrivial.iter().any(|k| k.starts_with("sign-capabilities ") && k.contains(",ocsp,") && k.ends_with(" ok"));
    let stapled = cmp.run.dist.get("capability_ocsp_stapled_sync").copied().unwrap_or(0);
    cmp.run.obligations.insert("capability-signers-stapled-ocsp-signed-ok".to_string(), seen_ocsp && stapled > 0);
}

// ---------------------------------------------------------------------------------------------
// Part 3: hand-written pairs

/// Independent inventory of sdk/src (line based): `#[async_generic` attribute lines, and per file
/// the function names `X` with both `fn X` and `fn X_async` (pairs) or only `fn X_async` (orphans).
fn inventory_scan(run: &mut Run) {
    fn walk(dir: &std::path::Path, out: &mut Vec<std::path::PathBuf>) {
        let mut es: Vec<_> = std::fs::read_dir(dir).map(|d| d.filter_map(|e| e.ok()).map(|e| e.path()).collect()).unwrap_or_default();
        es.sort();
        for p in es {
            if p.is_dir() {
                if p.file_name().map(|n| n != "verif_hooks").unwrap_or(true) {
                    walk(&p, out);
                }
            } else if p.extension().map(|e| e == "rs").unwrap_or(false) {
                out.push(p);
            }
        }
    }
    let root = std::path::Path::new("/repo/sdk/src");
    let mut files = vec![];
    walk(root, &mut files);
    let (mut attrs, mut pairs, mut orphans) = (0usize, vec![], vec![]);
    for f in &files {
        let raw = std::fs::read_to_string(f).unwrap_or_default();
        // drop block comments (nesting allowed), keeping the line structure
        let mut text = String::with_capacity(raw.len());
        let (rb, mut i, mut depth) = (raw.as_bytes(), 0usize, 0usize);
        while i < rb.len() {
            if depth == 0 && rb[i..].starts_with(b"//") {
                while i < rb.len() && rb[i] != b'\n' {
                    text.push(rb[i] as char);
                    i += 1;
                }
            } else if rb[i..].starts_with(b"/*") {
                depth += 1;
                i += 2;
            } else if depth > 0 && rb[i..].starts_with(b"*/") {
                depth -= 1;
                i += 2;
            } else {
                if depth == 0 || rb[i] == b'\n' {
                    text.push(rb[i] as char);
                }
                i += 1;
            }
        }
        let rel = f.strip_prefix(root).unwrap().to_string_lossy().replace('\\', "/");
        let mut names = std::collections::BTreeSet::new();
        for line in text.lines() {
            let t = line.trim_start();
            if t.starts_with("//") {
                continue;
            }
            if t.starts_with("#[async_generic") {
                attrs += 1;
            }
            let b = t.as_bytes();
            let mut i = 0;
            while let Some(k) = t[i..].find("fn ") {
                let at = i + k;
                let before_ok = at == 0 || !(b[at - 1].is_ascii_alphanumeric() || b[at - 1] == b'_');
                let rest = &t[at + 3..];
                let name: String = rest.chars().take_while(|c| c.is_ascii_alphanumeric() || *c == '_').collect();
                if before_ok && !name.is_empty() && !name.as_bytes()[0].is_ascii_digit() {
                    names.insert(name);
                }
                i = at + 3;
            }
        }
        for n in &names {
            if let Some(stem) = n.strip_suffix("_async") {
                if stem.is_empty() {
                    continue;
                }
                if names.contains(stem) {
                    pairs.push(format!("{rel}:{stem}"));
                } else {
                    orphans.push(format!("{rel}:{stem}"));
                }
            }
        }
    }
    let j = |v: &Vec<String>| if v.is_empty() { "-".to_string() } else { v.join(",") };
    run.case(format!("C40 inv attrs={attrs} pairs={} orphans={}", j(&pairs), j(&orphans)), "ok".to_string());
    run.count("inventory_scan");
    run.obligations.insert("inventory-scan-found-attributes-and-hand-pairs".to_string(), attrs > 0 && !pairs.is_empty());
    // how the pairs this harness drives are accounted for in the reviewed list
    for (file, f, kind) in [
        ("ingredient.rs", "from_stream", "differential:ingredient-from-stream"),
        ("identity/claim_aggregation/ica_signature_verifier.rs", "check_signature", "twinBodyLabel"),
        ("identity/claim_aggregation/w3c_vc/did_web.rs", "resolve", "twinBody"),
        ("identity/x509/x509_signature_verifier.rs", "check_signature", "twinBody"),
        ("identity/identity_assertion/built_in_signature_verifier.rs", "check_signature", "twinBody"),
    ] {
        run.case(format!("C40 hand file={file} fn={f}"), kind.to_string());
    }
}

/// `Ingredient::from_stream` (sync, through the generic `add_stream_internal`) against the
/// hand-written `from_stream_async` (kind 1) or `from_memory_async` (kind 2). Both read the
/// thread-local settings: every call runs on a thread of its own that installs them first.
fn legacy_ingredient_both(cmp: &mut Cmp, op: &str, kind: u8, name: &str, hint: &str, data: &[u8], sname: &str, sextra: &serde_json::Value) {
    let mut settings = base_settings();
    merge(&mut settings, sextra);
    let settings = settings.to_string();
    let mut one = |is_async: bool| -> Outc {
        let res = std::thread::scope(|sc| {
            sc.spawn(|| {
                guarded(std::panic::AssertUnwindSafe(|| -> c2pa::Result<String> {
                    #[allow(deprecated)]
                    {
                        c2pa::settings::Settings::from_string(&settings, "json")?;
                        let ing = if !is_async {
                            Ingredient::from_stream(hint, &mut Cursor::new(data.to_vec()))?
                        } else if kind == 1 {
                            block_on(Ingredient::from_stream_async(hint, &mut Cursor::new(data.to_vec())))?
                        } else {
                            block_on(Ingredient::from_memory_async(hint, data))?
                        };
                        Ok(abstract_json(&serde_json::to_string(&ing).unwrap_or_default()))
                    }
                }))
            })
            .join()
            .unwrap_or_else(|_| Err("thread".to_string()))
        });
        finish(res, |s| s, String::new())
    };
    cmp.both(op, &format!("{name},hint={hint},{sname}"), &mut one);
}

/// The same scripted transport behind both resolver traits.
#[derive(Clone)]
enum Net {
    NotFound,
    IoErr,
    Body(Vec<u8>),
}

struct MockNet(Net);

impl MockNet {
    fn serve(&self) -> Result<Response<Box<dyn std::io::Read>>, HttpResolverError> {
        match &self.0 {
            Net::IoErr => Err(HttpResolverError::Io(std::io::Error::other("scripted"))),
            Net::NotFound => Response::builder().status(404).body(Box::new(std::io::empty()) as Box<dyn std::io::Read>).map_err(HttpResolverError::Http),
            Net::Body(b) => Response::builder().status(200).body(Box::new(Cursor::new(b.clone())) as Box<dyn std::io::Read>).map_err(HttpResolverError::Http),
        }
    }
}

impl SyncHttpResolver for MockNet {
    fn http_resolve(&self, _request: Request<Vec<u8>>) -> Result<Response<Box<dyn std::io::Read>>, HttpResolverError> {
        self.serve()
    }
}

#[async_trait]
impl AsyncHttpResolver for MockNet {
    async fn http_resolve_async(&self, _request: Request<Vec<u8>>) -> Result<Response<Box<dyn std::io::Read>>, HttpResolverError> {
        self.serve()
    }
}

/// Read with identity-assertion decoding on (the default): `Manifest::from_store(_async)` runs
/// `validate_partial_claim(_async)`, which for `cawg.identity_claims_aggregation` calls the
/// hand-written `IcaSignatureVerifier::check_signature(_async)` (and for `did:web` issuers the
/// hand-written `did_web::resolve(_async)` over the scripted transport).
fn identity_read_both(cmp: &mut Cmp, name: &str, data: &[u8], net: &Net, nname: &str) {
    let mut one = |is_async: bool| -> Outc {
        let tr: Trace = Default::default();
        let res = guarded(std::panic::AssertUnwindSafe(|| -> c2pa::Result<Reader> {
            let c = ctx(&serde_json::json!({"core": {"decode_identity_assertions": true}}), &tr)?
                .with_resolver(MockNet(net.clone()))
                .with_resolver_async(MockNet(net.clone()));
            if is_async {
                block_on(Reader::from_context(c).with_stream_async("image/jpeg", Cursor::new(data.to_vec())))
            } else {
                Reader::from_context(c).with_stream("image/jpeg", Cursor::new(data.to_vec()))
            }
        }));
        let trace = trace_exact(&tr);
        finish(res, |r| reader_exact(&r), trace)
    };
    // coverage evidence: the synchronous read reports statuses of the ICA verifier / did:web resolution
    let probe = one(false);
    if probe.report.contains("cawg.ica.") {
        cmp.run.count("identity_read_reaches_ica_verifier");
    }
    if probe.report.contains("did:web") {
        cmp.run.count("identity_read_mentions_did_web");
    }
    cmp.both("read-identity", &format!("{name},net={nname}"), &mut one);
}

fn hand_written_pairs(cmp: &mut Cmp, rng: &mut Rng, signed: &[(&'static str, Vec<u8>)], svars: &[(&'static str, serde_json::Value)], thorough: bool) {
    // ---- Ingredient::from_stream / from_stream_async / from_memory_async
    let max = if thorough { 2_600_000 } else { 450_000 };
    let mut inputs: Vec<(String, &str, Vec<u8>)> = signed.iter().filter(|(_, d)| d.len() <= max).map(|(f, d)| (format!("signed:{f}"), *f, d.clone())).collect();
    for (name, fmt) in [
        ("CA.jpg", "image/jpeg"),
        ("C.jpg", "image/jpeg"),
        ("CACA.jpg", "image/jpeg"),
        ("XCA.jpg", "image/jpeg"),
        ("E-sig-CA.jpg", "image/jpeg"),
        ("CIE-sig-CA.jpg", "image/jpeg"),
        ("cloud.jpg", "image/jpeg"),
        ("IMG_0003.jpg", "image/jpeg"),
        ("boxhash.jpg", "image/jpeg"),
        ("video1.mp4", "video/mp4"),
        ("legacy.mp4", "video/mp4"),
        ("sample1.svg", "image/svg+xml"),
        ("cloud_manifest.c2pa", "application/c2pa"),
    ] {
        if let Ok(d) = std::fs::read(fixtures().join(name)) {
            if d.len() <= max {
                inputs.push((name.to_string(), fmt, d));
            }
        }
    }
    for (name, fmt, data) in &inputs {
        for (sn, se) in [&svars[0], &svars[2]] {
            legacy_ingredient_both(cmp, "ingredient-from-stream", 1, name, fmt, data, sn, se);
        }
        legacy_ingredient_both(cmp, "ingredient-from-memory", 2, name, fmt, data, svars[0].0, &svars[0].1);
        legacy_ingredient_both(cmp, "ingredient-from-stream", 1, name, "xyz/unknown", data, svars[0].0, &svars[0].1);
    }
    let pool: Vec<&(String, &str, Vec<u8>)> = inputs.iter().filter(|(_, f, d)| ["image/jpeg", "image/png", "video/mp4"].contains(f) && d.len() < 400_000).collect();
    let n_mut = if thorough { 1500 } else { 120 };
    for i in 0..n_mut {
        if pool.is_empty() {
            break;
        }
        let (name, fmt, data) = pool[i % pool.len()];
        let m = mutate(rng, data);
        legacy_ingredient_both(cmp, "ingredient-from-stream", 1, &format!("mut{i}:{name}"), fmt, &m, svars[0].0, &svars[0].1);
        if i % 4 == 0 {
            legacy_ingredient_both(cmp, "ingredient-from-memory", 2, &format!("mut{i}:{name}"), fmt, &m, svars[0].0, &svars[0].1);
        }
    }
    for h in ["image/jpeg", "image/png", "video/mp4", "application/c2pa", "xyz/unknown"] {
        legacy_ingredient_both(cmp, "ingredient-from-stream", 1, "empty", h, &[], svars[0].0, &svars[0].1);
        let g = rng.bytes(300);
        legacy_ingredient_both(cmp, "ingredient-from-stream", 1, "garbage", h, &g, svars[0].0, &svars[0].1);
    }

    // ---- identity assertions: ICA (hand-written check_signature pair) and X.509 fixtures
    let ica_dir = std::path::Path::new("/repo/sdk/src/identity/tests/fixtures/claim_aggregation");
    let mut idfx: Vec<(String, Vec<u8>)> = vec![];
    let mut names: Vec<std::path::PathBuf> = std::fs::read_dir(ica_dir.join("ica_validation")).map(|d| d.filter_map(|e| e.ok()).map(|e| e.path()).collect()).unwrap_or_default();
    names.push(ica_dir.join("adobe_connected_identities.jpg"));
    names.push(ica_dir.join("ims_multiple_manifests.jpg"));
    names.push(fixtures().join("C_with_CAWG_data.jpg"));
    names.sort();
    for p in names {
        if p.extension().map(|e| e == "jpg").unwrap_or(false) {
            if let Ok(d) = std::fs::read(&p) {
                idfx.push((p.file_name().unwrap().to_string_lossy().to_string(), d));
            }
        }
    }
    cmp.run.obligations.insert("identity-fixtures-present".to_string(), idfx.len() >= 20);
    let did_doc = br#"{"@context":["https://www.w3.org/ns/did/v1"],"id":"did:web:verif.invalid","assertionMethod":[]}"#.to_vec();
    let nets = [("404", Net::NotFound), ("io", Net::IoErr), ("doc", Net::Body(did_doc)), ("junk", Net::Body(b"not json".to_vec()))];
    for (name, data) in &idfx {
        for (nn, net) in nets.iter().take(if thorough { 4 } else { 2 }) {
            identity_read_both(cmp, name, data, net, nn);
        }
    }
    // mutated identity fixtures (bytes inside the manifest store: the assertion, the COSE, the VC)
    let n_idmut = if thorough { 600 } else { 60 };
    for i in 0..n_idmut {
        if idfx.is_empty() {
            break;
        }
        let (name, data) = &idfx[i % idfx.len()];
        let m = mutate(rng, data);
        identity_read_both(cmp, &format!("mut{i}:{name}"), &m, &nets[i % 2].1, nets[i % 2].0);
    }

    let reached = cmp.run.dist.get("identity_read_reaches_ica_verifier").copied().unwrap_or(0);
    cmp.run.obligations.insert("identity-reads-reach-ica-verifier".to_string(), reached > 0);

    // which differential operations ran and agreed at least once: the reviewed entries of the
    // model must name exactly these (`handops`)
    let ran: Vec<&str> = ["ingredient-from-memory", "ingredient-from-stream"].into_iter().filter(|op| cmp.run.nontrivial.iter().any(|k| k.starts_with(&format!("{op} ")))).collect();
    cmp.run.case("C40 handops".to_string(), ran.join(","));
}

fn mutate(rng: &mut Rng, data: &[u8]) -> Vec<u8> {
    let mut d = data.to_vec();
    if d.is_empty() {
        return d;
    }
    // prefer the region around the manifest (find "jumb"/"c2pa") so that validation code runs
    let anchor = d.windows(4).position(|w| w == b"jumb").unwrap_or(0);
    match rng.below(5) {
        0 => {
            let span = (d.len() - anchor).min(40_000).max(1);
            let i = anchor + rng.below(span as u64) as usize;
            d[i] ^= 1 << rng.below(8);
        }
        1 => {
            let i = rng.below(d.len() as u64) as usize;
            d[i] = rng.next() as u8;
        }
        2 => {
            let keep = rng.below(d.len() as u64) as usize;
            d.truncate(keep);
        }
        3 => {
            let n = 1 + rng.below(64) as usize;
            d.extend_from_slice(&rng.bytes(n));
        }
        _ => {
            let span = (d.len() - anchor).min(20_000).max(1);
            let i = anchor + rng.below(span as u64) as usize;
            let n = (1 + rng.below(8) as usize).min(d.len() - i);
            for k in 0..n {
                d[i + k] = rng.next() as u8;
            }
        }
    }
    d
}

pub fn run(run: &mut Run, rng: &mut Rng) {
    run.rule = "part 1: every (function, flavour, condition mask, loop counter, failing step) of six functions expanded by the real async-generic macro, trace compared with the model's evalF. part 2: each public sync/async pair (sign, save_to_stream, read, read with manifest data, fragment read, add_ingredient_from_stream, add_ingredient_from_archive, sign_data_hashed_embeddable, sign_box_hashed_embeddable) on the same inputs with the same signing code behind Signer and AsyncSigner; formats x definitions x settings x algorithms x failing signers x (wrong) hints x fixtures with failures x mutated assets. non-trivial = a comparison in which both flavours ran to an outcome and agreed; distinct by (operation, configuration, outcome class)".to_string();
    let thorough = run.thorough();
    macro_cases(run);
    inventory_scan(run);

    let max_src = if thorough { 2_600_000 } else { 450_000 };
    let sources: Vec<(&'static str, Vec<u8>)> = unsigned_sources()
        .into_iter()
        .filter_map(|(f, n)| std::fs::read(fixtures().join(n)).ok().filter(|d| d.len() <= max_src).map(|d| (f, d)))
        .collect();
    let svars = settings_variants();
    let mut cmp = Cmp { run };
    let mut signed: Vec<(&'static str, Vec<u8>)> = vec![];

    // ---- signing: every format with the default configuration, both entry styles
    for (fmt, src) in &sources {
        let defs = definitions(fmt);
        for via_ctx in [true, false] {
            let kept = sign_both(&mut cmp, fmt, src, &defs[0].1, defs[0].0, svars[0].0, &svars[0].1, "ed25519", Fail::None, via_ctx, None);
            if via_ctx {
                if let Some(k) = kept {
                    signed.push((fmt, k));
                }
            }
        }
    }
    // ---- signing: definitions x settings x algorithms x failing signers on small containers
    let small: Vec<&(&'static str, Vec<u8>)> = sources.iter().filter(|(f, _)| ["image/jpeg", "image/png", "video/mp4", "audio/wav"].contains(f)).collect();
    let n_rand = if thorough { 500 } else { 60 };
    for i in 0..n_rand {
        let &(fmt, ref src) = small[i % small.len()];
        let defs = definitions(fmt);
        let (dn, d) = &defs[rng.below(defs.len() as u64) as usize];
        let (sn, se) = &svars[rng.below(svars.len() as u64) as usize];
        let alg = ALGS[rng.below(if thorough { 7 } else { 3 }) as usize].0;
        let fail = *rng.pick(&[Fail::None, Fail::None, Fail::None, Fail::SignErr, Fail::Oversize, Fail::NoCerts, Fail::Garbage]);
        let via_ctx = rng.chance(1, 2);
        sign_both(&mut cmp, fmt, src, d, dn, sn, se, alg, fail, via_ctx, None);
    }
    // every algorithm once, every failing signer once (JPEG)
    if let Some((fmt, src)) = sources.iter().find(|(f, _)| *f == "image/jpeg") {
        let defs = definitions(fmt);
        for (alg, _) in ALGS.iter().take(if thorough { 7 } else { 4 }) {
            sign_both(&mut cmp, fmt, src, &defs[0].1, defs[0].0, "trust", &svars[2].1, alg, Fail::None, false, None);
        }
        for fail in [Fail::SignErr, Fail::Oversize, Fail::NoCerts, Fail::Garbage] {
            for via_ctx in [true, false] {
                sign_both(&mut cmp, fmt, src, &defs[0].1, defs[0].0, svars[0].0, &svars[0].1, "es256", fail, via_ctx, None);
            }
        }
        // an untrusted signer with trust checking configured (verify-after-sign must not check trust)
        for via_ctx in [true, false] {
            sign_both(&mut cmp, fmt, src, &defs[0].1, defs[0].0, "trust", &svars[2].1, "ephemeral", Fail::None, via_ctx, None);
            sign_both(&mut cmp, fmt, src, &defs[1].1, defs[1].0, "default", &svars[0].1, "ephemeral", Fail::None, via_ctx, None);
        }
        // the v1 claim and the no-verify-after-sign path with a garbage signature
        sign_both(&mut cmp, fmt, src, &defs[1].1, defs[1].0, svars[1].0, &svars[1].1, "es256", Fail::Garbage, false, None);
        settings_signer_both(&mut cmp, fmt, src);
    }

    // ---- reading: signed assets under the right and wrong hints, fixtures with failures, mutants
    let hints: Vec<&str> = if thorough {
        unsigned_sources().iter().map(|(f, _)| *f).chain(["application/c2pa", "application/pdf", "jpg", "xyz/unknown"]).collect()
    } else {
        vec!["image/jpeg", "image/png", "video/mp4", "application/c2pa", "xyz/unknown"]
    };
    for (fmt, data) in &signed {
        read_both(&mut cmp, &format!("signed:{fmt}"), fmt, data, "default", &svars[0].1);
        read_both(&mut cmp, &format!("signed:{fmt}"), fmt, data, "trust", &svars[2].1);
        for h in &hints {
            if h != fmt && (thorough || data.len() < 200_000) {
                read_both(&mut cmp, &format!("signed:{fmt}"), h, data, "default", &svars[0].1);
            }
        }
    }
    // assets signed with an ephemeral (untrusted) certificate, read with trust checking on
    for (fmt, src) in sources.iter().filter(|(f, _)| ["image/jpeg", "image/png"].contains(f)) {
        if let Ok(Ok(d)) = guarded(|| vh::sign::sign_asset(fmt, src, None)) {
            read_both(&mut cmp, &format!("ephemeral:{fmt}"), fmt, &d, "trust", &svars[2].1);
            read_both(&mut cmp, &format!("ephemeral:{fmt}"), fmt, &d, "default", &svars[0].1);
            ingredient_both(&mut cmp, &format!("ephemeral:{fmt}"), fmt, &d, "parentOf");
        }
    }
    let fx: Vec<(&str, &str)> = vec![
        ("CA.jpg", "image/jpeg"),
        ("C.jpg", "image/jpeg"),
        ("CACA.jpg", "image/jpeg"),
        ("XCA.jpg", "image/jpeg"),
        ("E-sig-CA.jpg", "image/jpeg"),
        ("CIE-sig-CA.jpg", "image/jpeg"),
        ("cloud.jpg", "image/jpeg"),
        ("cloudx.jpg", "image/jpeg"),
        ("IMG_0003.jpg", "image/jpeg"),
        ("cloud_manifest.c2pa", "application/c2pa"),
        ("boxhash.jpg", "image/jpeg"),
        ("video1.mp4", "video/mp4"),
        ("legacy.mp4", "video/mp4"),
        ("sample1.svg", "image/svg+xml"),
    ];
    for (name, fmt) in &fx {
        if let Ok(d) = std::fs::read(fixtures().join(name)) {
            if d.len() > max_src {
                continue;
            }
            for (sn, se) in [&svars[0], &svars[2], &svars[4]] {
                read_both(&mut cmp, name, fmt, &d, sn, se);
            }
            read_both(&mut cmp, name, "xyz/unknown", &d, "default", &svars[0].1);
            for rel in ["parentOf", "componentOf", "inputTo"] {
                ingredient_both(&mut cmp, name, fmt, &d, rel);
            }
        }
    }
    // mutated assets (signed JPEG/PNG/MP4 + CA.jpg): both flavours must fail or succeed alike
    let mut pool: Vec<(String, &str, Vec<u8>)> = signed.iter().filter(|(f, d)| ["image/jpeg", "image/png", "video/mp4", "audio/wav", "image/gif"].contains(f) && d.len() < 400_000).map(|(f, d)| (format!("signed:{f}"), *f, d.clone())).collect();
    if let Ok(d) = std::fs::read(fixtures().join("CACA.jpg")) {
        pool.push(("CACA.jpg".into(), "image/jpeg", d));
    }
    let n_mut = if thorough { 5000 } else { 300 };
    for i in 0..n_mut {
        if pool.is_empty() {
            break;
        }
        let (name, fmt, data) = &pool[i % pool.len()];
        let m = mutate(rng, data);
        read_both(&mut cmp, &format!("mut{i}:{name}"), fmt, &m, "default", &svars[0].1);
        if i % 5 == 0 {
            ingredient_both(&mut cmp, &format!("mut{i}:{name}"), fmt, &m, "parentOf");
        }
    }
    // garbage and empty inputs under every hint
    for h in &hints {
        read_both(&mut cmp, "empty", h, &[], "default", &svars[0].1);
        let g = rng.bytes(300);
        read_both(&mut cmp, "garbage", h, &g, "default", &svars[0].1);
        ingredient_both(&mut cmp, "garbage", h, &g, "componentOf");
    }

    // ---- sidecar style read and fragments
    if let (Ok(m), Ok(a)) = (std::fs::read(fixtures().join("cloud_manifest.c2pa")), std::fs::read(fixtures().join("cloud.jpg"))) {
        sidecar_both(&mut cmp, "cloud", "image/jpeg", &m, &a);
        sidecar_both(&mut cmp, "cloud-wrong-asset", "image/jpeg", &m, &a[..a.len() / 2]);
        let mm = mutate(rng, &m);
        sidecar_both(&mut cmp, "cloud-mutated-manifest", "image/jpeg", &mm, &a);
        sidecar_both(&mut cmp, "cloud-png-hint", "image/png", &m, &a);
    }
    if let (Ok(i), Ok(f)) = (std::fs::read(fixtures().join("dashinit.mp4")), std::fs::read(fixtures().join("dash1.m4s"))) {
        fragment_both(&mut cmp, "dash", &i, &f);
        fragment_both(&mut cmp, "dash-truncated-fragment", &i, &f[..f.len() / 2]);
        fragment_both(&mut cmp, "dash-swapped", &f, &i);
    }

    // ---- ingredients: signed assets of every format, then sign with the ingredient and read back
    for (fmt, data) in &signed {
        if data.len() > 400_000 && !thorough {
            continue;
        }
        ingredient_both(&mut cmp, &format!("signed:{fmt}"), fmt, data, "parentOf");
        archive_ingredient_both(&mut cmp, &format!("signed:{fmt}"), fmt, data, None);
    }
    archive_ingredient_both(&mut cmp, "garbage", "image/jpeg", &[], Some(&rng.bytes(200)));
    if let Some((_, jpeg_signed)) = signed.iter().find(|(f, _)| *f == "image/jpeg") {
        archive_ingredient_both(&mut cmp, "not-an-archive", "image/jpeg", &[], Some(jpeg_signed));
    }
    if let Some((fmt, src)) = sources.iter().find(|(f, _)| *f == "image/jpeg") {
        let defs = definitions(fmt);
        let ings: Vec<(&str, Vec<u8>)> = signed.iter().filter(|(f, d)| ["image/jpeg", "image/png"].contains(f) && d.len() < 400_000).map(|(f, d)| (*f, d.clone())).collect();
        for (ifmt, idata) in &ings {
            sign_both(&mut cmp, fmt, src, &defs[0].1, defs[0].0, svars[0].0, &svars[0].1, "ed25519", Fail::None, true, Some((ifmt, idata)));
        }
        if let Ok(x) = std::fs::read(fixtures().join("XCA.jpg")) {
            sign_both(&mut cmp, fmt, src, &defs[0].1, defs[0].0, svars[0].0, &svars[0].1, "es256", Fail::None, false, Some(("image/jpeg", &x)));
        }

        // ---- embeddable flows
        for (alg, fail, bad) in [("ed25519", Fail::None, false), ("es256", Fail::None, true), ("ps256", Fail::SignErr, false), ("es256", Fail::NoCerts, false), ("es384", Fail::Oversize, false)] {
            data_hashed_both(&mut cmp, "image/jpeg", src, alg, fail, bad);
            data_hashed_both(&mut cmp, "application/c2pa", src, alg, fail, bad);
        }
    }
    for (alg, fail) in [("ed25519", Fail::None), ("es256", Fail::SignErr), ("ps256", Fail::Garbage), ("es512", Fail::None)] {
        for (sn, se) in [&svars[0], &svars[1]] {
            box_hashed_both(&mut cmp, "application/c2pa", alg, fail, sn, se);
            box_hashed_both(&mut cmp, "image/jpeg", alg, fail, sn, se);
        }
    }

    // ---- signers with every optional capability, both flavours
    capability_signers(&mut cmp, &sources, thorough);

    // ---- hand-written pairs (not macro expansions)
    hand_written_pairs(&mut cmp, rng, &signed, &svars, thorough);
}
