//! C31 — the C API never crashes or double-frees on handle misuse.
//!
//! The exported `extern "C"` functions of `c2pa_c_ffi` are called in-process, in random
//! sequences, with arguments drawn per pointer parameter from {valid handle of the right
//! type, wrong type, freed, NULL, foreign pointer}. The parameter of a type-specific release
//! function (`c2pa_reader_free`, `c2pa_string_free`, …) is such a parameter too: a live library
//! pointer of another type must be refused with an error and stay live; only the `void*`
//! functions `c2pa_free` / `cimpl_free` release anything.
//!
//! Request line (see lean/C2paModel/Model/C31.lean), one per sequence:
//!   C31 seq ops=<fn>;<arg>,…;<inner>;<alloc>,…|…   ->   <ind>:<lasterr>:<new>:<freed> … | UB
//! Addresses are abstracted to ids in order of first appearance; `inner` (did the SDK
//! operation behind the guards succeed) and `alloc` (which address the allocator answered)
//! are data for the model, everything else is predicted by it.
//!
//! Independent observations used by the property oracle:
//!  * a wrapping `#[global_allocator]` records every deallocation of an address that was
//!    handed out as a handle (exactly-once release, real double frees);
//!  * the thread-local last error is cleared before every call, so "error stored by this
//!    call" is observable;
//!  * calls that the regenerated FfiGuards table marks as reaching an unchecked use with a
//!    bad pointer run in a forked child (crash = outcome, not harness death);
//!  * the whole search runs in forked workers, so an unexpected abort inside a guarded call
//!    is reported as an oracle failure for the op that was executing.

use std::{
    alloc::{GlobalAlloc, Layout, System},
    collections::{BTreeMap, BTreeSet, HashMap},
    ffi::{c_char, c_void, CString},
    io::{Cursor, Read, Seek, SeekFrom, Write},
    path::Path,
    sync::atomic::{AtomicBool, AtomicU8, AtomicUsize, Ordering::Relaxed},
};

use c2pa_c::*;
use serde_json::{json, Value};
use vh::common::{main_with, Rng, Run};

fn main() {
    main_with("C31", run);
}

// ------------------------------------------------------------------------------------------
// watch allocator
// ------------------------------------------------------------------------------------------

const SLOTS: usize = 1 << 16;
const EVCAP: usize = 4096;
static KEYS: [AtomicUsize; SLOTS] = [const { AtomicUsize::new(0) }; SLOTS];
static STATE: [AtomicU8; SLOTS] = [const { AtomicU8::new(0) }; SLOTS];
static NKEYS: AtomicUsize = AtomicUsize::new(0);
static EV: [AtomicUsize; EVCAP] = [const { AtomicUsize::new(0) }; EVCAP];
static EVN: AtomicUsize = AtomicUsize::new(0);
static DOUBLE: AtomicUsize = AtomicUsize::new(0);
static WATCHING: AtomicBool = AtomicBool::new(false);

fn slot_of(p: usize) -> usize {
    ((p >> 4).wrapping_mul(0x9E37_79B9_7F4A_7C15)) >> (64 - 16)
}

fn find(p: usize) -> Option<usize> {
    let mut i = slot_of(p);
    loop {
        let k = KEYS[i].load(Relaxed);
        if k == p {
            return Some(i);
        }
        if k == 0 {
            return None;
        }
        i = (i + 1) & (SLOTS - 1);
    }
}

/// Start observing deallocations of `p` (currently allocated).
fn watch(p: usize) -> bool {
    if p == 0 {
        return false;
    }
    if let Some(i) = find(p) {
        STATE[i].store(1, Relaxed);
        return true;
    }
    if NKEYS.load(Relaxed) > SLOTS / 2 {
        return false;
    }
    let mut i = slot_of(p);
    while KEYS[i].load(Relaxed) != 0 {
        i = (i + 1) & (SLOTS - 1);
    }
    STATE[i].store(1, Relaxed);
    KEYS[i].store(p, Relaxed);
    NKEYS.fetch_add(1, Relaxed);
    true
}

fn log_dealloc(p: usize) {
    let n = EVN.fetch_add(1, Relaxed);
    if n < EVCAP {
        EV[n].store(p, Relaxed);
    }
}

struct WatchAlloc;

unsafe impl GlobalAlloc for WatchAlloc {
    unsafe fn alloc(&self, l: Layout) -> *mut u8 {
        let p = System.alloc(l);
        if WATCHING.load(Relaxed) {
            if let Some(i) = find(p as usize) {
                STATE[i].store(1, Relaxed);
            }
        }
        p
    }

    unsafe fn alloc_zeroed(&self, l: Layout) -> *mut u8 {
        let p = System.alloc_zeroed(l);
        if WATCHING.load(Relaxed) {
            if let Some(i) = find(p as usize) {
                STATE[i].store(1, Relaxed);
            }
        }
        p
    }

    unsafe fn dealloc(&self, p: *mut u8, l: Layout) {
        if WATCHING.load(Relaxed) {
            if let Some(i) = find(p as usize) {
                if STATE[i].load(Relaxed) == 0 {
                    // second deallocation of an address that was not handed out again:
                    // a real double free. Record it and do not corrupt the heap.
                    DOUBLE.fetch_add(1, Relaxed);
                    log_dealloc(p as usize);
                    return;
                }
                STATE[i].store(0, Relaxed);
                log_dealloc(p as usize);
            }
        }
        System.dealloc(p, l)
    }

    unsafe fn realloc(&self, p: *mut u8, l: Layout, n: usize) -> *mut u8 {
        let q = System.realloc(p, l, n);
        if WATCHING.load(Relaxed) && !q.is_null() && q != p {
            if let Some(i) = find(p as usize) {
                STATE[i].store(0, Relaxed);
                log_dealloc(p as usize);
            }
            if let Some(i) = find(q as usize) {
                STATE[i].store(1, Relaxed);
            }
        }
        q
    }
}

#[global_allocator]
static GLOBAL: WatchAlloc = WatchAlloc;

fn take_events() -> Vec<usize> {
    let n = EVN.swap(0, Relaxed).min(EVCAP);
    (0..n).map(|i| EV[i].load(Relaxed)).collect()
}

// ------------------------------------------------------------------------------------------
// the harness's own catalogue of the API (from the header documentation)
// ------------------------------------------------------------------------------------------

#[derive(Clone, Copy, Debug, PartialEq)]
enum Role {
    /// handle of the named type, required
    H(&'static str),
    /// stream handle that may be NULL by documentation
    HOpt(&'static str),
    /// any library pointer (`void*`), released by the call (NULL allowed)
    Free,
    /// pointer declared with a type (`C2paReader*`, `char*`, `unsigned char*`…), released by the
    /// call (NULL allowed); a library pointer of another type is a wrong-type handle
    FreeT(&'static str),
    /// string array returned by *_supported_mime_types, released by the call (NULL allowed)
    OwnedArr,
    /// required NUL-terminated string
    Str(&'static str),
    /// optional string
    StrOpt,
    /// required byte buffer (+ a length scalar somewhere)
    Bytes,
    /// required out parameter
    Out,
    /// out parameter documented as optional
    OutOpt,
    /// required pointer to a caller struct
    InfoRef,
    /// optional input array
    ArrOpt,
    /// opaque caller context, never dereferenced by the library
    Opaque,
    Scalar,
    Cb,
}

#[derive(Clone, Copy, Debug, PartialEq)]
enum Ret {
    Unit,
    Int,
    Bool,
    /// new handle of this type, NULL on error
    New(&'static str),
    /// string or NULL without error
    StrOpt,
    /// manifest bytes through the out parameter with this index; return value = length or -1
    OutBytes(usize),
    /// string array; count through out parameter 0
    StrArray,
}

struct FnSpec {
    name: &'static str,
    roles: &'static [Role],
    ret: Ret,
    /// relative weight in the generator
    w: u32,
}

use Role::*;
const JPEG: &str = "image/jpeg";
const SPECS: &[FnSpec] = &[
    FnSpec { name: "c2pa_version", roles: &[], ret: Ret::New("cstring"), w: 1 },
    FnSpec { name: "c2pa_error", roles: &[], ret: Ret::New("cstring"), w: 2 },
    FnSpec { name: "c2pa_error_set_last", roles: &[Str("Other: x")], ret: Ret::Int, w: 1 },
    FnSpec { name: "c2pa_load_settings", roles: &[Str("{\"verify\":{\"verify_after_sign\":false}}"), Str("json")], ret: Ret::Int, w: 1 },
    FnSpec { name: "c2pa_settings_new", roles: &[], ret: Ret::New("settings"), w: 3 },
    FnSpec { name: "c2pa_settings_update_from_string", roles: &[H("settings"), Str("{\"verify\":{\"verify_after_sign\":false}}"), Str("json")], ret: Ret::Int, w: 3 },
    FnSpec { name: "c2pa_settings_set_value", roles: &[H("settings"), Str("verify.verify_after_sign"), Str("false")], ret: Ret::Int, w: 3 },
    FnSpec { name: "c2pa_context_builder_new", roles: &[], ret: Ret::New("contextBuilder"), w: 4 },
    FnSpec { name: "c2pa_context_builder_set_settings", roles: &[H("contextBuilder"), H("settings")], ret: Ret::Int, w: 4 },
    FnSpec { name: "c2pa_context_builder_set_signer", roles: &[H("contextBuilder"), H("signer")], ret: Ret::Int, w: 4 },
    FnSpec { name: "c2pa_context_builder_set_progress_callback", roles: &[H("contextBuilder"), Opaque, Cb], ret: Ret::Int, w: 2 },
    FnSpec { name: "c2pa_http_resolver_create", roles: &[Opaque, Cb], ret: Ret::New("resolver"), w: 2 },
    FnSpec { name: "c2pa_context_builder_set_http_resolver", roles: &[H("contextBuilder"), H("resolver")], ret: Ret::Int, w: 3 },
    FnSpec { name: "c2pa_context_builder_build", roles: &[H("contextBuilder")], ret: Ret::New("context"), w: 4 },
    FnSpec { name: "c2pa_context_new", roles: &[], ret: Ret::New("context"), w: 3 },
    FnSpec { name: "c2pa_context_cancel", roles: &[H("context")], ret: Ret::Int, w: 1 },
    FnSpec { name: "c2pa_release_string", roles: &[FreeT("cstring")], ret: Ret::Unit, w: 2 },
    FnSpec { name: "c2pa_free", roles: &[Free], ret: Ret::Int, w: 14 },
    FnSpec { name: "c2pa_string_free", roles: &[FreeT("cstring")], ret: Ret::Unit, w: 2 },
    FnSpec { name: "c2pa_free_string_array", roles: &[OwnedArr, Scalar], ret: Ret::Unit, w: 3 },
    FnSpec { name: "c2pa_reader_new", roles: &[], ret: Ret::New("reader"), w: 4 },
    FnSpec { name: "c2pa_reader_from_context", roles: &[H("context")], ret: Ret::New("reader"), w: 3 },
    FnSpec { name: "c2pa_reader_from_file", roles: &[Str("@signedpath")], ret: Ret::New("reader"), w: 1 },
    FnSpec { name: "c2pa_reader_from_stream", roles: &[Str(JPEG), H("stream")], ret: Ret::New("reader"), w: 3 },
    FnSpec { name: "c2pa_reader_with_stream", roles: &[H("reader"), Str(JPEG), H("stream")], ret: Ret::New("reader"), w: 5 },
    FnSpec { name: "c2pa_reader_with_manifest_data_and_stream", roles: &[H("reader"), Str(JPEG), H("stream"), Bytes, Scalar], ret: Ret::New("reader"), w: 2 },
    FnSpec { name: "c2pa_reader_with_fragment", roles: &[H("reader"), Str("video/mp4"), H("stream"), H("stream")], ret: Ret::New("reader"), w: 2 },
    FnSpec { name: "c2pa_reader_from_manifest_data_and_stream", roles: &[Str(JPEG), H("stream"), Bytes, Scalar], ret: Ret::New("reader"), w: 2 },
    FnSpec { name: "c2pa_reader_free", roles: &[FreeT("reader")], ret: Ret::Unit, w: 2 },
    FnSpec { name: "c2pa_reader_json", roles: &[H("reader")], ret: Ret::New("cstring"), w: 4 },
    FnSpec { name: "c2pa_reader_detailed_json", roles: &[H("reader")], ret: Ret::New("cstring"), w: 1 },
    FnSpec { name: "c2pa_reader_crjson", roles: &[H("reader")], ret: Ret::New("cstring"), w: 1 },
    FnSpec { name: "c2pa_reader_remote_url", roles: &[H("reader")], ret: Ret::StrOpt, w: 2 },
    FnSpec { name: "c2pa_reader_is_embedded", roles: &[H("reader")], ret: Ret::Bool, w: 2 },
    FnSpec { name: "c2pa_reader_resource_to_stream", roles: &[H("reader"), Str("self#jumbf=/c2pa/x"), H("stream")], ret: Ret::Int, w: 4 },
    FnSpec { name: "c2pa_reader_supported_mime_types", roles: &[Out], ret: Ret::StrArray, w: 2 },
    FnSpec { name: "c2pa_builder_from_json", roles: &[Str("{}")], ret: Ret::New("builder"), w: 5 },
    FnSpec { name: "c2pa_builder_from_context", roles: &[H("context")], ret: Ret::New("builder"), w: 3 },
    FnSpec { name: "c2pa_builder_from_archive", roles: &[H("stream")], ret: Ret::New("builder"), w: 2 },
    FnSpec { name: "c2pa_builder_supported_mime_types", roles: &[Out], ret: Ret::StrArray, w: 2 },
    FnSpec { name: "c2pa_builder_free", roles: &[FreeT("builder")], ret: Ret::Unit, w: 2 },
    FnSpec { name: "c2pa_builder_with_definition", roles: &[H("builder"), Str("{\"title\":\"t\"}")], ret: Ret::New("builder"), w: 3 },
    FnSpec { name: "c2pa_builder_with_archive", roles: &[H("builder"), H("stream")], ret: Ret::New("builder"), w: 2 },
    FnSpec { name: "c2pa_builder_set_intent", roles: &[H("builder"), Scalar, Scalar], ret: Ret::Int, w: 2 },
    FnSpec { name: "c2pa_builder_set_no_embed", roles: &[H("builder")], ret: Ret::Unit, w: 2 },
    FnSpec { name: "c2pa_builder_set_remote_url", roles: &[H("builder"), Str("https://example.invalid/m.c2pa")], ret: Ret::Int, w: 1 },
    FnSpec { name: "c2pa_builder_set_base_path", roles: &[H("builder"), Str("/nonexistent-verif")], ret: Ret::Int, w: 1 },
    FnSpec { name: "c2pa_builder_add_resource", roles: &[H("builder"), Str("thumb.jpg"), H("stream")], ret: Ret::Int, w: 4 },
    FnSpec { name: "c2pa_builder_add_ingredient_from_stream", roles: &[H("builder"), Str("{\"title\":\"i\"}"), Str(JPEG), H("stream")], ret: Ret::Int, w: 2 },
    FnSpec { name: "c2pa_builder_add_action", roles: &[H("builder"), Str("{\"action\":\"c2pa.edited\"}")], ret: Ret::Int, w: 2 },
    FnSpec { name: "c2pa_builder_to_archive", roles: &[H("builder"), H("stream")], ret: Ret::Int, w: 2 },
    FnSpec { name: "c2pa_builder_add_ingredient_from_archive", roles: &[H("builder"), H("stream")], ret: Ret::Int, w: 1 },
    FnSpec { name: "c2pa_builder_write_ingredient_archive", roles: &[H("builder"), Str("i"), H("stream")], ret: Ret::Int, w: 1 },
    FnSpec { name: "c2pa_builder_sign", roles: &[H("builder"), Str(JPEG), H("stream"), H("stream"), H("signer"), Out], ret: Ret::OutBytes(5), w: 4 },
    FnSpec { name: "c2pa_builder_sign_context", roles: &[H("builder"), Str(JPEG), H("stream"), H("stream"), Out], ret: Ret::OutBytes(4), w: 2 },
    FnSpec { name: "c2pa_manifest_bytes_free", roles: &[FreeT("bytes")], ret: Ret::Unit, w: 2 },
    FnSpec { name: "c2pa_builder_data_hashed_placeholder", roles: &[H("builder"), Scalar, Str(JPEG), Out], ret: Ret::OutBytes(3), w: 2 },
    FnSpec { name: "c2pa_builder_sign_data_hashed_embeddable", roles: &[H("builder"), H("signer"), Str("{\"exclusions\":[{\"start\":2,\"length\":100}],\"name\":\"jumbf manifest\",\"alg\":\"sha256\",\"hash\":\"gWZNEOMHQNiULfA/tO5HD2awOwYhA3tnfUPApIr9csk=\",\"pad\":\"AAAAAAAAAAAAAAAAAAAAAAAAAAAAAAAAAAAAAAAAAAAAAAAAAAAAAAAAAAAAAAAAAAAAAAAAAAAAAAAAAAAA\"}"), Str(JPEG), HOpt("stream"), Out], ret: Ret::OutBytes(5), w: 4 },
    FnSpec { name: "c2pa_builder_needs_placeholder", roles: &[H("builder"), Str(JPEG)], ret: Ret::Int, w: 1 },
    FnSpec { name: "c2pa_builder_hash_type", roles: &[H("builder"), Str(JPEG), Out], ret: Ret::Int, w: 3 },
    FnSpec { name: "c2pa_builder_placeholder", roles: &[H("builder"), Str(JPEG), OutOpt], ret: Ret::OutBytes(2), w: 2 },
    FnSpec { name: "c2pa_builder_sign_embeddable", roles: &[H("builder"), Str(JPEG), Out], ret: Ret::OutBytes(2), w: 2 },
    FnSpec { name: "c2pa_builder_set_data_hash_exclusions", roles: &[H("builder"), ArrOpt, Scalar], ret: Ret::Int, w: 2 },
    FnSpec { name: "c2pa_builder_set_fixed_size_merkle", roles: &[H("builder"), Scalar], ret: Ret::Int, w: 1 },
    FnSpec { name: "c2pa_builder_hash_mdat_bytes", roles: &[H("builder"), Scalar, Bytes, Scalar, Scalar], ret: Ret::Int, w: 2 },
    FnSpec { name: "c2pa_builder_update_hash_from_stream", roles: &[H("builder"), Str(JPEG), H("stream")], ret: Ret::Int, w: 2 },
    FnSpec { name: "c2pa_format_embeddable", roles: &[Str(JPEG), Bytes, Scalar, Out], ret: Ret::OutBytes(3), w: 1 },
    FnSpec { name: "c2pa_signer_create", roles: &[Opaque, Cb, Scalar, Str("@certs"), StrOpt], ret: Ret::New("signer"), w: 3 },
    FnSpec { name: "c2pa_identity_signer_create", roles: &[H("signer"), H("signer"), ArrOpt, ArrOpt], ret: Ret::New("signer"), w: 3 },
    FnSpec { name: "c2pa_signer_from_info", roles: &[InfoRef], ret: Ret::New("signer"), w: 5 },
    FnSpec { name: "c2pa_signer_from_settings", roles: &[], ret: Ret::New("signer"), w: 1 },
    FnSpec { name: "c2pa_signer_reserve_size", roles: &[H("signer")], ret: Ret::Int, w: 2 },
    FnSpec { name: "c2pa_signer_free", roles: &[FreeT("signer")], ret: Ret::Unit, w: 2 },
    FnSpec { name: "c2pa_ed25519_sign", roles: &[Bytes, Scalar, Str("@ed25519key")], ret: Ret::New("bytes"), w: 2 },
    FnSpec { name: "c2pa_signature_free", roles: &[FreeT("bytes")], ret: Ret::Unit, w: 2 },
    FnSpec { name: "c2pa_create_stream", roles: &[Opaque, Cb, Cb, Cb, Cb], ret: Ret::New("stream"), w: 7 },
    FnSpec { name: "c2pa_release_stream", roles: &[FreeT("stream")], ret: Ret::Unit, w: 2 },
    FnSpec { name: "cimpl_free", roles: &[Free], ret: Ret::Int, w: 3 },
];

/// Exported functions the driver deliberately does not call (with the reason).
const NOT_DRIVEN: &[(&str, &str)] = &[];

/// Calls that always run on a freshly spawned thread (with the reason).
const ALWAYS_ON_THREAD: &[(&str, &str)] = &[("c2pa_load_settings", "sets thread-local settings; they must die with the thread, not leak into later calls")];

// ------------------------------------------------------------------------------------------
// caller-side memory: strings, stream contexts, callbacks
// ------------------------------------------------------------------------------------------

struct Consts {
    strs: HashMap<&'static str, CString>,
    certs: CString,
    key: CString,
    _alg: CString,
    info: C2paSignerInfo,
    jpeg: Vec<u8>,
    signed: Vec<u8>,
    data: Vec<u8>,
    excl: [u64; 2],
    arr: [*const c_char; 2],
    bad: CString,
    signed_path: CString,
}

fn consts() -> Consts {
    let fx = vh::common::fixtures();
    let certs = CString::new(std::fs::read(fx.join("certs/ed25519.pub")).expect("certs")).unwrap();
    let key = CString::new(std::fs::read(fx.join("certs/ed25519.pem")).expect("key")).unwrap();
    let alg = CString::new("Ed25519").unwrap();
    let mut strs = HashMap::new();
    for s in SPECS {
        for r in s.roles {
            if let Str(d) = r {
                if !d.starts_with('@') {
                    strs.entry(*d).or_insert_with(|| CString::new(*d).unwrap());
                }
            }
        }
    }
    let info = C2paSignerInfo {
        alg: alg.as_ptr(),
        sign_cert: certs.as_ptr(),
        private_key: key.as_ptr(),
        ta_url: std::ptr::null(),
    };
    Consts {
        strs,
        certs,
        key,
        _alg: alg,
        info,
        jpeg: std::fs::read(fx.join("IMG_0003.jpg")).expect("IMG_0003.jpg"),
        signed: std::fs::read(fx.join("C.jpg")).expect("C.jpg"),
        data: vec![7u8; 64],
        excl: [2, 100],
        arr: [b"c2pa.actions\0".as_ptr() as *const c_char, std::ptr::null()],
        bad: CString::new("{not json").unwrap(),
        signed_path: CString::new(fx.join("C.jpg").to_str().expect("fixture path").to_string()).unwrap(),
    }
}

type Cur = Cursor<Vec<u8>>;

unsafe extern "C" fn s_read(ctx: *mut StreamContext, data: *mut u8, len: isize) -> isize {
    let c = &mut *(ctx as *mut Cur);
    let buf = std::slice::from_raw_parts_mut(data, len as usize);
    c.read(buf).map(|n| n as isize).unwrap_or(-1)
}
unsafe extern "C" fn s_seek(ctx: *mut StreamContext, off: isize, mode: C2paSeekMode) -> isize {
    let c = &mut *(ctx as *mut Cur);
    let r = match mode {
        C2paSeekMode::Start => {
            if off < 0 {
                return -1;
            }
            c.seek(SeekFrom::Start(off as u64))
        }
        C2paSeekMode::Current => c.seek(SeekFrom::Current(off as i64)),
        C2paSeekMode::End => c.seek(SeekFrom::End(off as i64)),
    };
    r.map(|p| p as isize).unwrap_or(-1)
}
unsafe extern "C" fn s_write(ctx: *mut StreamContext, data: *const u8, len: isize) -> isize {
    let c = &mut *(ctx as *mut Cur);
    c.write(std::slice::from_raw_parts(data, len as usize)).map(|n| n as isize).unwrap_or(-1)
}
unsafe extern "C" fn s_flush(_ctx: *mut StreamContext) -> isize {
    0
}
unsafe extern "C" fn sign_cb(_c: *const (), _d: *const u8, _l: usize, _o: *mut u8, _ol: usize) -> isize {
    -1
}
unsafe extern "C" fn progress_cb(_c: *const c_void, _p: C2paProgressPhase, _s: u32, _t: u32) -> i32 {
    1
}
unsafe extern "C" fn http_cb(_c: *mut c_void, _rq: *const C2paHttpRequest, _rs: *mut C2paHttpResponse) -> i32 {
    -1
}

// ------------------------------------------------------------------------------------------
// raw call dispatcher
// ------------------------------------------------------------------------------------------

#[derive(Default)]
struct Raw {
    /// pointer-valued return (0 = NULL) when the function returns a pointer
    ptr: usize,
    int: i64,
}

struct CallEnv<'a> {
    k: &'a Consts,
    /// context for c2pa_create_stream
    new_ctx: *mut Cur,
}

/// `a[i]` = value for parameter i (pointers as integers; scalars ignored), `len0` = pass
/// length 0 with byte buffers, `out` = storage the out parameter points to when non-NULL.
#[allow(deprecated)]
unsafe fn dispatch(name: &str, a: &[usize], len0: bool, env: &CallEnv) -> Raw {
    let blen = if len0 { 0 } else { env.k.data.len() };
    macro_rules! p {
        ($i:expr, $t:ty) => {
            a[$i] as $t
        };
    }
    let mut r = Raw::default();
    macro_rules! rp {
        ($e:expr) => {{
            r.ptr = $e as usize;
        }};
    }
    macro_rules! ri {
        ($e:expr) => {{
            r.int = $e as i64;
        }};
    }
    match name {
        "c2pa_version" => rp!(c2pa_version()),
        "c2pa_error" => rp!(c2pa_error()),
        "c2pa_error_set_last" => ri!(c2pa_error_set_last(p!(0, *const c_char))),
        "c2pa_load_settings" => ri!(c2pa_load_settings(p!(0, *const c_char), p!(1, *const c_char))),
        "c2pa_settings_new" => rp!(c2pa_settings_new()),
        "c2pa_settings_update_from_string" => ri!(c2pa_settings_update_from_string(p!(0, *mut _), p!(1, *const c_char), p!(2, *const c_char))),
        "c2pa_settings_set_value" => ri!(c2pa_settings_set_value(p!(0, *mut _), p!(1, *const c_char), p!(2, *const c_char))),
        "c2pa_context_builder_new" => rp!(c2pa_context_builder_new()),
        "c2pa_context_builder_set_settings" => ri!(c2pa_context_builder_set_settings(p!(0, *mut _), p!(1, *mut _))),
        "c2pa_context_builder_set_signer" => ri!(c2pa_context_builder_set_signer(p!(0, *mut _), p!(1, *mut _))),
        "c2pa_context_builder_set_progress_callback" => ri!(c2pa_context_builder_set_progress_callback(p!(0, *mut _), p!(1, *const c_void), progress_cb)),
        "c2pa_http_resolver_create" => rp!(c2pa_http_resolver_create(p!(0, *const c_void), http_cb)),
        "c2pa_context_builder_set_http_resolver" => ri!(c2pa_context_builder_set_http_resolver(p!(0, *mut _), p!(1, *mut _))),
        "c2pa_context_builder_build" => rp!(c2pa_context_builder_build(p!(0, *mut _))),
        "c2pa_context_new" => rp!(c2pa_context_new()),
        "c2pa_context_cancel" => ri!(c2pa_context_cancel(p!(0, *mut _))),
        "c2pa_release_string" => c2pa_release_string(p!(0, *mut c_char)),
        "c2pa_free" => ri!(c2pa_free(p!(0, *const c_void))),
        "c2pa_string_free" => c2pa_string_free(p!(0, *mut c_char)),
        "c2pa_free_string_array" => c2pa_free_string_array(p!(0, *const *const c_char), a[1]),
        "c2pa_reader_new" => rp!(c2pa_reader_new()),
        "c2pa_reader_from_context" => rp!(c2pa_reader_from_context(p!(0, *mut _))),
        "c2pa_reader_from_file" => rp!(c2pa_reader_from_file(p!(0, *const c_char))),
        "c2pa_reader_from_stream" => rp!(c2pa_reader_from_stream(p!(0, *const c_char), p!(1, *mut _))),
        "c2pa_reader_with_stream" => rp!(c2pa_reader_with_stream(p!(0, *mut _), p!(1, *const c_char), p!(2, *mut _))),
        "c2pa_reader_with_manifest_data_and_stream" => rp!(c2pa_reader_with_manifest_data_and_stream(p!(0, *mut _), p!(1, *const c_char), p!(2, *mut _), p!(3, *const u8), blen)),
        "c2pa_reader_with_fragment" => rp!(c2pa_reader_with_fragment(p!(0, *mut _), p!(1, *const c_char), p!(2, *mut _), p!(3, *mut _))),
        "c2pa_reader_from_manifest_data_and_stream" => rp!(c2pa_reader_from_manifest_data_and_stream(p!(0, *const c_char), p!(1, *mut _), p!(2, *const u8), blen)),
        "c2pa_reader_free" => c2pa_reader_free(p!(0, *mut _)),
        "c2pa_reader_json" => rp!(c2pa_reader_json(p!(0, *mut _))),
        "c2pa_reader_detailed_json" => rp!(c2pa_reader_detailed_json(p!(0, *mut _))),
        "c2pa_reader_crjson" => rp!(c2pa_reader_crjson(p!(0, *mut _))),
        "c2pa_reader_remote_url" => rp!(c2pa_reader_remote_url(p!(0, *mut _))),
        "c2pa_reader_is_embedded" => ri!(c2pa_reader_is_embedded(p!(0, *mut _))),
        "c2pa_reader_resource_to_stream" => ri!(c2pa_reader_resource_to_stream(p!(0, *mut _), p!(1, *const c_char), p!(2, *mut _))),
        "c2pa_reader_supported_mime_types" => rp!(c2pa_reader_supported_mime_types(p!(0, *mut usize))),
        "c2pa_builder_from_json" => rp!(c2pa_builder_from_json(p!(0, *const c_char))),
        "c2pa_builder_from_context" => rp!(c2pa_builder_from_context(p!(0, *mut _))),
        "c2pa_builder_from_archive" => rp!(c2pa_builder_from_archive(p!(0, *mut _))),
        "c2pa_builder_supported_mime_types" => rp!(c2pa_builder_supported_mime_types(p!(0, *mut usize))),
        "c2pa_builder_free" => c2pa_builder_free(p!(0, *mut _)),
        "c2pa_builder_with_definition" => rp!(c2pa_builder_with_definition(p!(0, *mut _), p!(1, *const c_char))),
        "c2pa_builder_with_archive" => rp!(c2pa_builder_with_archive(p!(0, *mut _), p!(1, *mut _))),
        "c2pa_builder_set_intent" => ri!(c2pa_builder_set_intent(p!(0, *mut _), C2paBuilderIntent::Edit, C2paDigitalSourceType::Empty)),
        "c2pa_builder_set_no_embed" => c2pa_builder_set_no_embed(p!(0, *mut _)),
        "c2pa_builder_set_remote_url" => ri!(c2pa_builder_set_remote_url(p!(0, *mut _), p!(1, *const c_char))),
        "c2pa_builder_set_base_path" => ri!(c2pa_builder_set_base_path(p!(0, *mut _), p!(1, *const c_char))),
        "c2pa_builder_add_resource" => ri!(c2pa_builder_add_resource(p!(0, *mut _), p!(1, *const c_char), p!(2, *mut _))),
        "c2pa_builder_add_ingredient_from_stream" => ri!(c2pa_builder_add_ingredient_from_stream(p!(0, *mut _), p!(1, *const c_char), p!(2, *const c_char), p!(3, *mut _))),
        "c2pa_builder_add_action" => ri!(c2pa_builder_add_action(p!(0, *mut _), p!(1, *const c_char))),
        "c2pa_builder_to_archive" => ri!(c2pa_builder_to_archive(p!(0, *mut _), p!(1, *mut _))),
        "c2pa_builder_add_ingredient_from_archive" => ri!(c2pa_builder_add_ingredient_from_archive(p!(0, *mut _), p!(1, *mut _))),
        "c2pa_builder_write_ingredient_archive" => ri!(c2pa_builder_write_ingredient_archive(p!(0, *mut _), p!(1, *const c_char), p!(2, *mut _))),
        "c2pa_builder_sign" => ri!(c2pa_builder_sign(p!(0, *mut _), p!(1, *const c_char), p!(2, *mut _), p!(3, *mut _), p!(4, *mut _), p!(5, *mut *const u8))),
        "c2pa_builder_sign_context" => ri!(c2pa_builder_sign_context(p!(0, *mut _), p!(1, *const c_char), p!(2, *mut _), p!(3, *mut _), p!(4, *mut *const u8))),
        "c2pa_manifest_bytes_free" => c2pa_manifest_bytes_free(p!(0, *const u8)),
        "c2pa_builder_data_hashed_placeholder" => ri!(c2pa_builder_data_hashed_placeholder(p!(0, *mut _), 2048, p!(2, *const c_char), p!(3, *mut *const u8))),
        "c2pa_builder_sign_data_hashed_embeddable" => ri!(c2pa_builder_sign_data_hashed_embeddable(p!(0, *mut _), p!(1, *mut _), p!(2, *const c_char), p!(3, *const c_char), p!(4, *mut _), p!(5, *mut *const u8))),
        "c2pa_builder_needs_placeholder" => ri!(c2pa_builder_needs_placeholder(p!(0, *mut _), p!(1, *const c_char))),
        "c2pa_builder_hash_type" => ri!(c2pa_builder_hash_type(p!(0, *mut _), p!(1, *const c_char), p!(2, *mut C2paHashType))),
        "c2pa_builder_placeholder" => ri!(c2pa_builder_placeholder(p!(0, *mut _), p!(1, *const c_char), p!(2, *mut *const u8))),
        "c2pa_builder_sign_embeddable" => ri!(c2pa_builder_sign_embeddable(p!(0, *mut _), p!(1, *const c_char), p!(2, *mut *const u8))),
        "c2pa_builder_set_data_hash_exclusions" => ri!(c2pa_builder_set_data_hash_exclusions(p!(0, *mut _), p!(1, *const u64), 1)),
        "c2pa_builder_set_fixed_size_merkle" => ri!(c2pa_builder_set_fixed_size_merkle(p!(0, *mut _), 1)),
        "c2pa_builder_hash_mdat_bytes" => ri!(c2pa_builder_hash_mdat_bytes(p!(0, *mut _), 0, p!(2, *const u8), blen, false)),
        "c2pa_builder_update_hash_from_stream" => ri!(c2pa_builder_update_hash_from_stream(p!(0, *mut _), p!(1, *const c_char), p!(2, *mut _))),
        "c2pa_format_embeddable" => ri!(c2pa_format_embeddable(p!(0, *const c_char), p!(1, *const u8), blen, p!(3, *mut *const u8))),
        "c2pa_signer_create" => rp!(c2pa_signer_create(p!(0, *const c_void), sign_cb, C2paSigningAlg::Ed25519, p!(3, *const c_char), p!(4, *const c_char))),
        "c2pa_identity_signer_create" => rp!(c2pa_identity_signer_create(p!(0, *mut _), p!(1, *mut _), p!(2, *const *const c_char), p!(3, *const *const c_char))),
        "c2pa_signer_from_info" => {
            // declared `&C2paSignerInfo` (or `*const` after the null-guard repair): C passes a pointer
            let f: unsafe extern "C" fn(*const C2paSignerInfo) -> *mut C2paSigner =
                std::mem::transmute(c2pa_signer_from_info as *const () as usize);
            rp!(f(p!(0, *const C2paSignerInfo)))
        }
        "c2pa_signer_from_settings" => rp!(c2pa_signer_from_settings()),
        "c2pa_signer_reserve_size" => ri!(c2pa_signer_reserve_size(p!(0, *mut _))),
        "c2pa_signer_free" => c2pa_signer_free(p!(0, *const _)),
        "c2pa_ed25519_sign" => rp!(c2pa_ed25519_sign(p!(0, *const u8), blen, p!(2, *const c_char))),
        "c2pa_signature_free" => c2pa_signature_free(p!(0, *const u8)),
        "c2pa_create_stream" => rp!(c2pa_create_stream(env.new_ctx as *mut StreamContext, s_read, s_seek, s_write, s_flush)),
        "c2pa_release_stream" => c2pa_release_stream(p!(0, *mut _)),
        "cimpl_free" => ri!(cimpl_free(p!(0, *mut c_void))),
        other => panic!("dispatch: unknown function {other}"),
    }
    r
}

/// Clear the thread's last error, call, read the last error back — on this thread or on a
/// freshly spawned one (the last error and any per-thread state of the library live there).
fn call_and_observe(name: &str, vals: &[usize], len0: bool, k: usize, new_ctx: usize, on_thread: bool) -> (Raw, i32, String) {
    let body = move || {
        let _ = CimplError::take_last();
        let env = CallEnv { k: unsafe { &*(k as *const Consts) }, new_ctx: new_ctx as *mut Cur };
        let r = unsafe { dispatch(name, vals, len0, &env) };
        (r, CimplError::last_code(), CimplError::last_message().unwrap_or_default())
    };
    if on_thread {
        std::thread::scope(|s| s.spawn(body).join().expect("call thread"))
    } else {
        body()
    }
}

// ------------------------------------------------------------------------------------------
// table (regenerated by translators/c31_ffi_guards.py) — used to decide where to fork and
// for the inventory obligation; never for the oracle's expectations
// ------------------------------------------------------------------------------------------

struct Table {
    rows: BTreeMap<String, Value>,
}

fn load_table() -> Option<Table> {
    let txt = std::fs::read_to_string("/verif/.build/c31/ffi_guards.json").ok()?;
    let v: Value = serde_json::from_str(&txt).ok()?;
    let mut rows = BTreeMap::new();
    for r in v["rows"].as_array()? {
        rows.insert(r["name"].as_str()?.to_string(), r.clone());
    }
    Some(Table { rows })
}

fn library_owned(kind: &str) -> bool {
    matches!(kind, "handle" | "ownedArray" | "anyptr")
}

/// Would this call reach a use of a pointer that the code does not check, with a pointer
/// that is not what the code assumes? `bad[i]` = the argument for parameter i is not a live
/// pointer of the right kind, `null[i]` = it is NULL. Mirrors the source order of the table.
fn table_unchecked_use(row: &Value, null: &[bool], bad: &[bool], len0: bool) -> Option<usize> {
    let params = row["params"].as_array().unwrap();
    for e in row["events"].as_array().unwrap() {
        let p = e["p"].as_u64().unwrap() as usize;
        let kind = params[p]["kind"].as_str().unwrap();
        match e["use"].as_str().unwrap() {
            "validate" | "untrack" => {
                if bad[p] || null[p] {
                    return None;
                }
            }
            "validate_nonnull" => {
                if bad[p] && !null[p] {
                    return None;
                }
            }
            "free" => {
                if !null[p] && bad[p] {
                    return None;
                }
            }
            "nullck" | "nullretOk" | "nullretSilent" | "nullbranch" | "cstr" => {
                if null[p] {
                    return None;
                }
            }
            "bytes" => {
                if null[p] || len0 {
                    return None;
                }
            }
            "raw" | "rawwrite" | "fieldread" => {
                if (library_owned(kind) && bad[p]) || null[p] {
                    return Some(p);
                }
            }
            "rawuse_nonnull" | "write_nonnull" => {
                if !null[p] && library_owned(kind) && bad[p] {
                    return Some(p);
                }
            }
            _ => {}
        }
    }
    None
}

// ------------------------------------------------------------------------------------------
// one sequence
// ------------------------------------------------------------------------------------------

#[derive(Clone, Copy, Debug, PartialEq, Eq, PartialOrd, Ord)]
enum Class {
    Valid,
    WrongType,
    Freed,
    Null,
    Foreign,
    /// caller memory (strings, buffers, out parameters): valid
    Mem,
    /// byte buffer with length 0
    MemLen0,
    /// valid string whose content the SDK rejects (malformed JSON)
    MemBad,
}

impl Class {
    fn s(self) -> &'static str {
        match self {
            Class::Valid => "valid",
            Class::WrongType => "wrongtype",
            Class::Freed => "freed",
            Class::Null => "null",
            Class::Foreign => "foreign",
            Class::Mem => "mem",
            Class::MemLen0 => "len0",
            Class::MemBad => "badcontent",
        }
    }
}

/// How one call is to be generated / executed.
#[derive(Clone, Copy, Default)]
struct Opts {
    /// every argument that is not forced is valid (no random NULLs, handles of the right type)
    strict: bool,
    /// execute the call on a freshly spawned thread
    thread: bool,
}

#[derive(Default)]
struct SeqOut {
    req_ops: Vec<String>,
    imp_ops: Vec<String>,
    fails: Vec<(String, String)>,
    counts: BTreeMap<String, u64>,
    nontrivial: Vec<String>,
}

struct Seq<'a> {
    k: &'a Consts,
    table: &'a Table,
    rng: Rng,
    ids: HashMap<usize, usize>,
    next_id: usize,
    /// live library pointers by observation: address -> type
    live: BTreeMap<usize, &'static str>,
    /// released addresses not handed out again
    dead: BTreeSet<usize>,
    /// live string arrays: address -> element addresses
    arrays: BTreeMap<usize, Vec<usize>>,
    dead_arrays: BTreeMap<usize, usize>,
    /// stream contexts owned by the harness (kept until the end of the sequence)
    ctxs: Vec<*mut Cur>,
    foreign: Vec<Box<[usize; 8]>>,
    /// addresses already used by the call under construction (strict mode: no aliasing)
    avoid: Vec<usize>,
    out: SeqOut,
    out_slot: Box<usize>,
    seq_no: usize,
}

/// "What is executing now", in memory shared with the supervising process (survives a crash of
/// the worker, costs no I/O).
static CUR_NOTE: AtomicUsize = AtomicUsize::new(0);
const NOTE_LEN: usize = 512;

fn note_init() {
    let p = unsafe { libc::mmap(std::ptr::null_mut(), NOTE_LEN, libc::PROT_READ | libc::PROT_WRITE, libc::MAP_SHARED | libc::MAP_ANONYMOUS, -1, 0) };
    if p != libc::MAP_FAILED {
        CUR_NOTE.store(p as usize, Relaxed);
    }
}

fn note_set(s: &str) {
    let p = CUR_NOTE.load(Relaxed) as *mut u8;
    if !p.is_null() {
        let b = s.as_bytes();
        let n = b.len().min(NOTE_LEN - 1);
        unsafe {
            std::ptr::copy_nonoverlapping(b.as_ptr(), p, n);
            *p.add(n) = 0;
        }
    }
}

fn note_get() -> String {
    let p = CUR_NOTE.load(Relaxed) as *const u8;
    if p.is_null() {
        return String::new();
    }
    let mut v = vec![];
    for i in 0..NOTE_LEN {
        let c = unsafe { *p.add(i) };
        if c == 0 {
            break;
        }
        v.push(c);
    }
    String::from_utf8_lossy(&v).into_owned()
}

fn spec(name: &str) -> &'static FnSpec {
    SPECS.iter().find(|s| s.name == name).expect("spec")
}

impl<'a> Seq<'a> {
    fn id(&mut self, addr: usize) -> usize {
        if addr == 0 {
            return 0;
        }
        if let Some(i) = self.ids.get(&addr) {
            return *i;
        }
        self.next_id += 1;
        self.ids.insert(addr, self.next_id);
        self.next_id
    }

    fn count(&mut self, k: &str) {
        *self.out.counts.entry(k.to_string()).or_insert(0) += 1;
    }

    fn live_of(&self, ty: &str) -> Vec<usize> {
        self.live.iter().filter(|(_, t)| **t == ty).map(|(a, _)| *a).collect()
    }

    fn foreign_ptr(&mut self) -> usize {
        if self.foreign.len() < 4 {
            self.foreign.push(Box::new([0usize; 8]));
        }
        let i = self.rng.below(self.foreign.len() as u64) as usize;
        self.foreign[i].as_ptr() as usize
    }

    /// choose (class, pointer) for a handle parameter expecting `ty`
    fn pick_handle(&mut self, ty: &'static str, want: Option<Class>) -> (Class, usize) {
        let c = want.unwrap_or_else(|| match self.rng.below(100) {
            0..=71 => Class::Valid,
            72..=79 => Class::WrongType,
            80..=86 => Class::Freed,
            87..=92 => Class::Null,
            _ => Class::Foreign,
        });
        match c {
            Class::Valid => {
                let mut v = self.live_of(ty);
                if v.iter().any(|a| !self.avoid.contains(a)) {
                    v.retain(|a| !self.avoid.contains(a));
                }
                if v.is_empty() {
                    let alt = if self.rng.chance(1, 2) { Class::Null } else { Class::Foreign };
                    return self.pick_handle(ty, Some(alt));
                }
                (Class::Valid, *self.rng.pick(&v))
            }
            Class::WrongType => {
                let v: Vec<usize> = self.live.iter().filter(|(_, t)| **t != ty).map(|(a, _)| *a).collect();
                if v.is_empty() {
                    return self.pick_handle(ty, Some(Class::Foreign));
                }
                (Class::WrongType, *self.rng.pick(&v))
            }
            Class::Freed => {
                let v: Vec<usize> = self.dead.iter().copied().collect();
                if v.is_empty() {
                    return self.pick_handle(ty, Some(Class::Null));
                }
                (Class::Freed, *self.rng.pick(&v))
            }
            Class::Null => (Class::Null, 0),
            _ => (Class::Foreign, self.foreign_ptr()),
        }
    }

    fn pick_free(&mut self, want: Option<Class>) -> (Class, usize) {
        let c = want.unwrap_or_else(|| match self.rng.below(100) {
            0..=69 => Class::Valid,
            70..=84 => Class::Freed,
            85..=89 => Class::Null,
            _ => Class::Foreign,
        });
        match c {
            Class::Valid => {
                let v: Vec<usize> = self.live.keys().copied().collect();
                if v.is_empty() {
                    (Class::Null, 0)
                } else {
                    (Class::Valid, *self.rng.pick(&v))
                }
            }
            Class::Freed => {
                let v: Vec<usize> = self.dead.iter().copied().filter(|a| !self.arrays.contains_key(a)).collect();
                if v.is_empty() {
                    (Class::Foreign, self.foreign_ptr())
                } else {
                    (Class::Freed, *self.rng.pick(&v))
                }
            }
            Class::Null => (Class::Null, 0),
            _ => (Class::Foreign, self.foreign_ptr()),
        }
    }

    /// argument of a type-specific release function declared for `ty`
    fn pick_free_typed(&mut self, ty: &'static str, want: Option<Class>) -> (Class, usize) {
        let c = want.unwrap_or_else(|| match self.rng.below(100) {
            0..=57 => Class::Valid,
            58..=71 => Class::WrongType,
            72..=86 => Class::Freed,
            87..=91 => Class::Null,
            _ => Class::Foreign,
        });
        match c {
            Class::Valid => {
                let v = self.live_of(ty);
                if v.is_empty() {
                    (Class::Null, 0)
                } else {
                    (Class::Valid, *self.rng.pick(&v))
                }
            }
            Class::WrongType => {
                let v: Vec<usize> = self.live.iter().filter(|(_, t)| **t != ty).map(|(a, _)| *a).collect();
                if v.is_empty() {
                    (Class::Foreign, self.foreign_ptr())
                } else {
                    (Class::WrongType, *self.rng.pick(&v))
                }
            }
            other => self.pick_free(Some(other)),
        }
    }

    fn pick_array(&mut self, want: Option<Class>) -> (Class, usize) {
        let c = want.unwrap_or_else(|| match self.rng.below(100) {
            0..=64 => Class::Valid,
            65..=79 => Class::Freed,
            80..=89 => Class::Null,
            _ => Class::Foreign,
        });
        match c {
            Class::Valid => {
                let v: Vec<usize> = self.arrays.keys().copied().collect();
                if v.is_empty() {
                    (Class::Null, 0)
                } else {
                    (Class::Valid, *self.rng.pick(&v))
                }
            }
            Class::Freed => {
                let v: Vec<usize> = self.dead_arrays.keys().copied().filter(|a| !self.live.contains_key(a) && !self.arrays.contains_key(a)).collect();
                if v.is_empty() {
                    (Class::Null, 0)
                } else {
                    (Class::Freed, *self.rng.pick(&v))
                }
            }
            Class::Null => (Class::Null, 0),
            _ => (Class::Foreign, self.foreign_ptr()),
        }
    }

    fn new_stream_ctx(&mut self) -> *mut Cur {
        let data = match self.rng.below(10) {
            0..=3 => self.k.signed.clone(),
            4..=6 => self.k.jpeg.clone(),
            _ => Vec::new(),
        };
        let p = Box::into_raw(Box::new(Cursor::new(data)));
        self.ctxs.push(p);
        p
    }

    fn rewind_streams(&mut self) {
        for c in &self.ctxs {
            unsafe { (**c).set_position(0) };
        }
    }

    /// Build the argument vector of one call. Returns (values, classes).
    fn build_args(&mut self, sp: &FnSpec, force: &BTreeMap<usize, Class>, fixed: &[(usize, usize, Class)], strict: bool) -> (Vec<usize>, Vec<Class>, bool) {
        let mut vals = vec![];
        let mut cls = vec![];
        let mut len0 = false;
        self.avoid = fixed.iter().map(|f| f.1).collect();
        for (i, r) in sp.roles.iter().enumerate() {
            let mut want = force.get(&i).copied();
            if let Some((_, fp, fc)) = fixed.iter().find(|f| f.0 == i) {
                vals.push(*fp);
                cls.push(*fc);
                continue;
            }
            if strict && want.is_none() {
                want = Some(match r {
                    H(_) | HOpt(_) | Free | FreeT(_) | OwnedArr => Class::Valid,
                    _ => Class::Mem,
                });
            }
            let (c, v) = match *r {
                H(t) => self.pick_handle(t, want),
                HOpt(t) => {
                    if want.is_none() && self.rng.chance(1, 3) {
                        (Class::Null, 0)
                    } else {
                        self.pick_handle(t, want)
                    }
                }
                Free => self.pick_free(want),
                FreeT(t) => self.pick_free_typed(t, want),
                OwnedArr => self.pick_array(want),
                Str(d) => {
                    if want == Some(Class::Null) || (want.is_none() && self.rng.chance(1, 25)) {
                        (Class::Null, 0)
                    } else if want == Some(Class::MemBad) {
                        (Class::MemBad, self.k.bad.as_ptr() as usize)
                    } else {
                        let p = match d {
                            "@certs" => self.k.certs.as_ptr(),
                            "@ed25519key" => self.k.key.as_ptr(),
                            "@signedpath" => self.k.signed_path.as_ptr(),
                            _ => self.k.strs[d].as_ptr(),
                        };
                        (Class::Mem, p as usize)
                    }
                }
                StrOpt => (Class::Null, 0),
                Bytes => {
                    if want == Some(Class::Null) || (want.is_none() && self.rng.chance(1, 20)) {
                        (Class::Null, 0)
                    } else if want == Some(Class::MemLen0) || (want.is_none() && self.rng.chance(1, 20)) {
                        len0 = true;
                        (Class::MemLen0, self.k.data.as_ptr() as usize)
                    } else {
                        (Class::Mem, self.k.data.as_ptr() as usize)
                    }
                }
                Out | OutOpt => {
                    if want == Some(Class::Null) || (want.is_none() && self.rng.chance(1, 12)) {
                        (Class::Null, 0)
                    } else {
                        (Class::Mem, &mut *self.out_slot as *mut usize as usize)
                    }
                }
                InfoRef => {
                    if want == Some(Class::Null) || (want.is_none() && self.rng.chance(1, 10)) {
                        (Class::Null, 0)
                    } else {
                        (Class::Mem, &self.k.info as *const C2paSignerInfo as usize)
                    }
                }
                ArrOpt => {
                    if want != Some(Class::Mem) && self.rng.chance(1, 2) {
                        (Class::Null, 0)
                    } else if sp.name == "c2pa_builder_set_data_hash_exclusions" {
                        (Class::Mem, self.k.excl.as_ptr() as usize)
                    } else {
                        (Class::Mem, self.k.arr.as_ptr() as usize)
                    }
                }
                Opaque => (Class::Null, 0),
                Scalar | Cb => (Class::Mem, 1),
            };
            if matches!(r, H(_) | HOpt(_)) && c == Class::Valid {
                self.avoid.push(v);
            }
            vals.push(v);
            cls.push(c);
        }
        // the count argument of c2pa_free_string_array
        if sp.name == "c2pa_free_string_array" {
            let n = self.arrays.get(&vals[0]).map(|e| e.len()).or_else(|| self.dead_arrays.get(&vals[0]).copied()).unwrap_or(2);
            vals[1] = n;
        }
        (vals, cls, len0)
    }

    fn arg_tokens(&mut self, sp: &FnSpec, vals: &[usize], cls: &[Class]) -> String {
        let mut t = vec![];
        for (i, r) in sp.roles.iter().enumerate() {
            let s = match r {
                H(_) | HOpt(_) | Free | FreeT(_) | OwnedArr => self.id(vals[i]).to_string(),
                _ => match cls[i] {
                    Class::Null => "0".to_string(),
                    Class::MemLen0 => "1z".to_string(),
                    _ => "1".to_string(),
                },
            };
            t.push(s);
        }
        if t.is_empty() {
            "-".to_string()
        } else {
            t.join(",")
        }
    }

    /// Execute one call (in process, or in a forked child when the table says it would reach
    /// an unchecked use) and record request op, implementation reply and oracle verdicts.
    fn exec(&mut self, name: &'static str, force: &BTreeMap<usize, Class>, fixed: &[(usize, usize, Class)], opts: Opts) -> Option<usize> {
        let sp = spec(name);
        let (vals, cls, len0) = self.build_args(sp, force, fixed, opts.strict);
        let args_s = self.arg_tokens(sp, &vals, &cls);
        self.count(&format!("fn:{name}"));
        for (i, c) in cls.iter().enumerate() {
            if matches!(sp.roles[i], H(_) | HOpt(_) | Free | FreeT(_) | OwnedArr) {
                self.count(&format!("arg:{}", c.s()));
            }
        }
        let row = self.table.rows.get(name);
        // argument facts for the fork decision
        let null: Vec<bool> = cls.iter().map(|c| *c == Class::Null).collect();
        let bad: Vec<bool> = cls
            .iter()
            .enumerate()
            .map(|(i, c)| match sp.roles[i] {
                H(_) | HOpt(_) | OwnedArr | FreeT(_) => *c != Class::Valid,
                Free => !matches!(*c, Class::Valid),
                _ => false,
            })
            .collect();
        let risky = row.and_then(|r| table_unchecked_use(r, &null, &bad, len0));
        let desc = format!("seq={} op={} {}({})", self.seq_no, self.out.req_ops.len(), name, cls.iter().map(|c| c.s()).collect::<Vec<_>>().join(","));
        note_set(&desc);

        let new_ctx = if name == "c2pa_create_stream" { self.new_stream_ctx() } else { std::ptr::null_mut() };
        self.rewind_streams();
        *self.out_slot = 0;

        if let Some(p) = risky {
            // ---- undefined by the table: observe in a child, do not execute in this process
            self.count("forked");
            let k = self.k;
            let vals2 = vals.clone();
            let rep = in_child(move || unsafe {
                let _ = CimplError::take_last();
                let env = CallEnv { k, new_ctx };
                let r = dispatch(name, &vals2, len0, &env);
                let code = CimplError::last_code();
                let msg = CimplError::last_message().unwrap_or_default();
                (r.ptr, r.int, code, !msg.is_empty())
            });
            let pname = self.table.rows[name]["params"][p]["name"].as_str().unwrap_or("?").to_string();
            let class = format!("unguarded:{name}.{pname}");
            match rep {
                Child::Crashed(how) => {
                    self.out.fails.push((class, format!("{desc}: {how} (parameter `{pname}` is used without a registry/NULL check; argument class {})", cls[p].s())));
                }
                Child::Returned(ptr, int, code, has_msg) => {
                    let ind_fail = match sp.ret {
                        Ret::New(_) | Ret::StrArray => ptr == 0,
                        Ret::Int | Ret::OutBytes(_) => int < 0,
                        _ => true,
                    };
                    if !(ind_fail && code != 0 && has_msg) {
                        self.out.fails.push((class, format!("{desc}: returned ptr={ptr:#x} int={int} last_error_code={code} message={has_msg} — no error reported for a bad `{pname}` ({}), the pointer was used unchecked", cls[p].s())));
                    }
                }
            }
            self.out.nontrivial.push(format!("ub:{name}:{}", cls[p].s()));
            self.out.req_ops.push(format!("{name};{args_s};1;-"));
            self.out.imp_ops.push("UB".to_string());
            return None;
        }

        // ---- a stale handle (released, address not handed out again) goes to a registry-guarded
        // parameter: the registry must reject it. Look first in a forked child (an accepted
        // dangling pointer is a use-after-free and may crash); only a rejected call is then
        // executed here.
        let stale: Option<usize> = cls.iter().enumerate().position(|(i, c)| {
            *c == Class::Freed && matches!(sp.roles[i], H(_) | HOpt(_)) && self.dead.contains(&vals[i]) && !self.live.contains_key(&vals[i])
        });
        if let Some(si) = stale {
            self.count("stale-preflight");
            let kp = self.k as *const Consts as usize;
            let vals2 = vals.clone();
            let nc = new_ctx as usize;
            let th = opts.thread;
            let rep = in_child(move || {
                let (r, code, msg) = call_and_observe(name, &vals2, len0, kp, nc, th);
                (r.ptr, r.int, code, !msg.is_empty())
            });
            let pname = row.map(|r| r["params"][si]["name"].as_str().unwrap_or("?").to_string()).unwrap_or_default();
            let verdict = match rep {
                Child::Crashed(how) => Some((format!("{desc}: {how} — stale `{pname}` (consumed/released earlier, address not reissued) was used"), "1", "crash")),
                Child::Returned(ptr, int, code, has_msg) => {
                    let ind_fail = match sp.ret {
                        Ret::New(_) | Ret::StrArray => ptr == 0,
                        Ret::Int | Ret::OutBytes(_) => int < 0,
                        _ => code != 0,
                    };
                    if ind_fail && has_msg {
                        None
                    } else {
                        Some((format!("{desc}: accepted: ptr={ptr:#x} int={int} last_error_code={code} message={has_msg} — stale `{pname}` (consumed/released earlier, address not reissued){}", if th { " on another thread" } else { "" }),
                            if ind_fail { "1" } else { "0" }, if has_msg { "other" } else { "none" }))
                    }
                }
            };
            if let Some((detail, ind, le)) = verdict {
                self.out.fails.push(("reuse-of-consumed-handle-accepted".into(), detail));
                self.out.nontrivial.push(format!("stale:{name}:{si}"));
                let ind = if matches!(sp.ret, Ret::Unit | Ret::Bool | Ret::StrOpt) { "?" } else { ind };
                self.out.req_ops.push(format!("{name};{args_s};1;-"));
                self.out.imp_ops.push(format!("{ind}:{le}:-:-"));
                return None;
            }
        }

        // ---- in process
        let live_before: BTreeMap<usize, &'static str> = self.live.clone();
        let arrays_before = self.arrays.clone();
        let _ = take_events();
        let dbl0 = DOUBLE.load(Relaxed);
        WATCHING.store(true, Relaxed);
        let on_thread = opts.thread || ALWAYS_ON_THREAD.iter().any(|(n, _)| *n == name);
        let (raw, code, msg) = call_and_observe(name, &vals, len0, self.k as *const Consts as usize, new_ctx as usize, on_thread);
        WATCHING.store(false, Relaxed);
        let events = take_events();
        let dbl = DOUBLE.load(Relaxed) - dbl0;
        if on_thread {
            self.count("on-other-thread");
        }

        // released handles (in event order, first release of each address only)
        let mut freed: Vec<usize> = vec![];
        for a in &events {
            if (live_before.contains_key(a) || arrays_before.contains_key(a)) && !freed.contains(a) {
                freed.push(*a);
            }
        }
        for a in &freed {
            self.live.remove(a);
            if let Some(e) = self.arrays.remove(a) {
                self.dead_arrays.insert(*a, e.len());
            }
            self.dead.insert(*a);
        }

        // result interpretation
        let (ind, ok): (&str, bool) = match sp.ret {
            Ret::New(_) | Ret::StrArray => (if raw.ptr == 0 { "1" } else { "0" }, raw.ptr != 0),
            Ret::Int | Ret::OutBytes(_) if name != "c2pa_reader_is_embedded" => (if raw.int < 0 { "1" } else { "0" }, raw.int >= 0),
            _ => ("?", code == 0),
        };
        // registry errors travel through `crate::Error` and lose their numeric code on the
        // way (3 -> 110, 1 -> 111 …); the message keeps the constructor name
        let le = if code == 0 && msg.is_empty() {
            "none"
        } else if msg.contains("UntrackedPointer") {
            "untracked"
        } else if msg.contains("WrongPointerType") {
            "wrongtype"
        } else if msg.contains("InvalidBufferSize") {
            "bufsize"
        } else if msg.starts_with("NullParameter") {
            "null"
        } else {
            "other"
        };
        let mut new_handles: Vec<(usize, &'static str)> = vec![];
        let mut allocs: Vec<usize> = vec![];
        if ok {
            match sp.ret {
                Ret::New(t) => {
                    new_handles.push((raw.ptr, t));
                    allocs.push(raw.ptr);
                }
                Ret::StrOpt => {
                    allocs.push(raw.ptr);
                    if raw.ptr != 0 {
                        new_handles.push((raw.ptr, "cstring"));
                    }
                }
                Ret::OutBytes(i) => {
                    if vals[i] != 0 {
                        allocs.push(*self.out_slot);
                        if *self.out_slot != 0 {
                            new_handles.push((*self.out_slot, "bytes"));
                        }
                    }
                }
                Ret::StrArray => {
                    let n = *self.out_slot;
                    let arr = raw.ptr as *const usize;
                    let elems: Vec<usize> = (0..n).map(|i| unsafe { *arr.add(i) }).collect();
                    for e in &elems {
                        new_handles.push((*e, "cstring"));
                        allocs.push(*e);
                    }
                    allocs.push(raw.ptr);
                    watch(raw.ptr);
                    self.dead.remove(&raw.ptr);
                    self.dead_arrays.remove(&raw.ptr);
                    self.arrays.insert(raw.ptr, elems);
                }
                _ => {}
            }
        }
        // allocator sanity (R6): a handed-out address is not the address of a live handle
        for (a, _) in &new_handles {
            if self.live.contains_key(a) || self.arrays.contains_key(a) && sp.ret != Ret::StrArray {
                self.out.fails.push(("live-address-reissued".into(), format!("{desc}: returned {a:#x} which is still a live handle")));
            }
        }
        for (a, t) in &new_handles {
            if !watch(*a) {
                self.count("unwatched");
            }
            self.dead.remove(a);
            self.live.insert(*a, t);
        }
        let new_s = if new_handles.is_empty() {
            "-".to_string()
        } else {
            new_handles.iter().map(|(a, t)| format!("{}.{}", self.id(*a), t)).collect::<Vec<_>>().join(",")
        };
        let freed_s = if freed.is_empty() { "-".to_string() } else { freed.iter().map(|a| self.id(*a).to_string()).collect::<Vec<_>>().join(",") };
        let allocs_s = if allocs.is_empty() { "-".to_string() } else { allocs.iter().map(|a| self.id(*a).to_string()).collect::<Vec<_>>().join(",") };
        // `inner`: only meaningful when every guard passed; a guard error is never reported as inner
        let inner = if !ok && le == "other" { "0" } else { "1" };
        self.out.req_ops.push(format!("{name};{args_s};{inner};{allocs_s}"));
        self.out.imp_ops.push(format!("{ind}:{le}:{new_s}:{freed_s}"));

        // ---------------- property oracle on the implementation ----------------
        // R4: a real double deallocation of a handle address
        if dbl > 0 {
            self.out.fails.push(("double-dealloc".into(), format!("{desc}: an address that had been handed out as a handle and released was deallocated again")));
        }
        // R5: only pointers passed to the call may be released by it (plus elements of a released array)
        for a in &freed {
            let passed = vals.contains(a) || arrays_before.iter().any(|(k, e)| e.contains(a) && vals.contains(k));
            if !passed {
                self.out.fails.push(("released-unrelated-handle".into(), format!("{desc}: released {a:#x} which was not an argument")));
            }
        }
        // R2: a bad required pointer must produce an error with a message
        let mut bad_required: Option<(usize, Class)> = None;
        for (i, r) in sp.roles.iter().enumerate() {
            let c = cls[i];
            let is_bad = match r {
                H(_) => c != Class::Valid,
                HOpt(_) => c != Class::Valid && c != Class::Null,
                Free | OwnedArr => matches!(c, Class::Freed | Class::Foreign),
                // a type-specific release function: a live library pointer of another type is
                // "a handle of the wrong type" and must be refused like a freed or foreign one
                FreeT(_) => matches!(c, Class::Freed | Class::Foreign | Class::WrongType),
                Str(_) | Bytes | Out | InfoRef => c == Class::Null || c == Class::MemLen0,
                _ => false,
            };
            if is_bad && bad_required.is_none() {
                bad_required = Some((i, c));
            }
        }
        if let Some((i, c)) = bad_required {
            let pname = row.map(|r| r["params"][i]["name"].as_str().unwrap_or("?").to_string()).unwrap_or_else(|| i.to_string());
            self.out.nontrivial.push(format!("{name}:{i}:{}", c.s()));
            let indicator_missing = ind == "0";
            if indicator_missing || code == 0 || msg.is_empty() {
                self.out.fails.push((
                    format!("no-error:{name}.{pname}:{}", c.s()),
                    format!("{desc}: expected an error indicator with a retrievable message, got indicator={ind} last_error_code={code} message={msg:?}"),
                ));
            }
            // a rejected call releases nothing except handles it documents as consumed
            if matches!(sp.ret, Ret::Unit | Ret::Int | Ret::Bool) && matches!(sp.roles[i], Free | FreeT(_) | OwnedArr) && !freed.is_empty() {
                self.out.fails.push(("release-on-bad-free".into(), format!("{desc}: freed {freed:?} although the pointer was {}", c.s())));
            }
        } else {
            // R3: releasing a live pointer succeeds and deallocates exactly that pointer once
            if let Some(i) = sp.roles.iter().position(|r| matches!(r, Free | FreeT(_))) {
                if cls[i] == Class::Valid {
                    self.out.nontrivial.push(format!("{name}:free-live"));
                    let n = events.iter().filter(|a| **a == vals[i]).count();
                    if !(freed == vec![vals[i]] && code == 0 && ind != "1") || n == 0 {
                        self.out.fails.push((
                            format!("free-live-failed:{name}"),
                            format!("{desc}: releasing a live handle: indicator={ind} last_error_code={code} released={freed:?} dealloc_events_of_it={n}"),
                        ));
                    }
                }
            }
        }
        new_handles.first().map(|h| h.0)
    }

    /// End of sequence: release everything that is still live so that the next sequence
    /// starts from an empty registry; checks the exactly-once release of every handle.
    fn drain(&mut self) {
        let arrays: Vec<usize> = self.arrays.keys().copied().collect();
        for a in arrays {
            self.exec("c2pa_free_string_array", &BTreeMap::new(), &[(0, a, Class::Valid)], Opts::default());
        }
        let live: Vec<usize> = self.live.keys().copied().collect();
        for a in live {
            if self.live.contains_key(&a) {
                self.exec("c2pa_free", &BTreeMap::new(), &[(0, a, Class::Valid)], Opts::default());
            }
        }
        for c in std::mem::take(&mut self.ctxs) {
            unsafe { drop(Box::from_raw(c)) };
        }
    }
}

// ------------------------------------------------------------------------------------------
// fork helpers
// ------------------------------------------------------------------------------------------

enum Child {
    Returned(usize, i64, i32, bool),
    Crashed(String),
}

/// Run `f` in a forked child; the child reports through a pipe. A signal, an abort or a
/// missing report is `Crashed`.
fn in_child(f: impl FnOnce() -> (usize, i64, i32, bool)) -> Child {
    unsafe {
        let mut fds = [0i32; 2];
        if libc::pipe(fds.as_mut_ptr()) != 0 {
            return Child::Crashed("pipe failed".into());
        }
        let pid = libc::fork();
        if pid < 0 {
            return Child::Crashed("fork failed".into());
        }
        if pid == 0 {
            libc::close(fds[0]);
            libc::alarm(20);
            // quiet: glibc abort messages of the child are not interesting in the log
            let devnull = libc::open(b"/dev/null\0".as_ptr() as *const c_char, libc::O_WRONLY);
            if devnull >= 0 {
                libc::dup2(devnull, 2);
            }
            let (p, i, c, m) = f();
            let mut buf = [0u8; 21];
            buf[0..8].copy_from_slice(&(p as u64).to_le_bytes());
            buf[8..16].copy_from_slice(&i.to_le_bytes());
            buf[16..20].copy_from_slice(&c.to_le_bytes());
            buf[20] = m as u8;
            libc::write(fds[1], buf.as_ptr() as *const c_void, 21);
            libc::_exit(0);
        }
        libc::close(fds[1]);
        let mut buf = [0u8; 21];
        let mut got = 0usize;
        while got < 21 {
            let n = libc::read(fds[0], buf[got..].as_mut_ptr() as *mut c_void, 21 - got);
            if n <= 0 {
                break;
            }
            got += n as usize;
        }
        libc::close(fds[0]);
        let mut status = 0i32;
        libc::waitpid(pid, &mut status, 0);
        if libc::WIFSIGNALED(status) {
            return Child::Crashed(format!("child killed by signal {}", libc::WTERMSIG(status)));
        }
        if got < 21 || libc::WEXITSTATUS(status) != 0 {
            return Child::Crashed(format!("child exited with status {} without a result", libc::WEXITSTATUS(status)));
        }
        Child::Returned(
            u64::from_le_bytes(buf[0..8].try_into().unwrap()) as usize,
            i64::from_le_bytes(buf[8..16].try_into().unwrap()),
            i32::from_le_bytes(buf[16..20].try_into().unwrap()),
            buf[20] != 0,
        )
    }
}

// ------------------------------------------------------------------------------------------
// workers
// ------------------------------------------------------------------------------------------

fn weighted<'a>(rng: &mut Rng) -> &'static str {
    let total: u32 = SPECS.iter().map(|s| s.w).sum();
    let mut x = rng.below(total as u64) as u32;
    for s in SPECS {
        if x < s.w {
            return s.name;
        }
        x -= s.w;
    }
    SPECS[0].name
}

/// The fixed witnesses of DESIGN §5 F14 and of the exception list, as forced argument classes.
fn witnesses() -> Vec<(String, Vec<(&'static str, BTreeMap<usize, Class>)>)> {
    let f = |pairs: &[(usize, Class)]| pairs.iter().copied().collect::<BTreeMap<_, _>>();
    let mut w: Vec<(&'static str, Vec<(&'static str, BTreeMap<usize, Class>)>)> = vec![
        ("w-reader-mime-null-count", vec![("c2pa_reader_supported_mime_types", f(&[(0, Class::Null)]))]),
        ("w-builder-mime-null-count", vec![("c2pa_builder_supported_mime_types", f(&[(0, Class::Null)]))]),
        ("w-signer-from-info-null", vec![("c2pa_signer_from_info", f(&[(0, Class::Null)]))]),
        ("w-hash-type-null-out", vec![("c2pa_builder_from_json", f(&[(0, Class::Mem)])), ("c2pa_builder_hash_type", f(&[(0, Class::Valid), (1, Class::Mem), (2, Class::Null)]))]),
        ("w-add-resource-null-stream", vec![("c2pa_builder_from_json", f(&[(0, Class::Mem)])), ("c2pa_builder_add_resource", f(&[(0, Class::Valid), (1, Class::Mem), (2, Class::Null)]))]),
        ("w-add-resource-foreign-stream", vec![("c2pa_builder_from_json", f(&[(0, Class::Mem)])), ("c2pa_builder_add_resource", f(&[(0, Class::Valid), (1, Class::Mem), (2, Class::Foreign)]))]),
        ("w-resource-to-stream-null-stream", vec![("c2pa_reader_new", f(&[])), ("c2pa_reader_resource_to_stream", f(&[(0, Class::Valid), (1, Class::Mem), (2, Class::Null)]))]),
        (
            "w-data-hashed-foreign-asset",
            vec![
                ("c2pa_builder_from_json", f(&[(0, Class::Mem)])),
                ("c2pa_signer_from_info", f(&[(0, Class::Mem)])),
                ("c2pa_builder_sign_data_hashed_embeddable", f(&[(0, Class::Valid), (1, Class::Valid), (2, Class::Mem), (3, Class::Mem), (4, Class::Foreign), (5, Class::Mem)])),
            ],
        ),
        (
            "w-string-array-double-free",
            vec![
                ("c2pa_reader_supported_mime_types", f(&[(0, Class::Mem)])),
                ("c2pa_free_string_array", f(&[(0, Class::Valid)])),
                ("c2pa_free_string_array", f(&[(0, Class::Freed)])),
            ],
        ),
        ("w-string-array-foreign", vec![("c2pa_free_string_array", f(&[(0, Class::Foreign)]))]),
        (
            "w-double-free",
            vec![("c2pa_reader_new", f(&[])), ("c2pa_free", f(&[(0, Class::Valid)])), ("c2pa_free", f(&[(0, Class::Freed)])), ("c2pa_reader_json", f(&[(0, Class::Freed)]))],
        ),
    ];
    let mut out: Vec<(String, Vec<(&'static str, BTreeMap<usize, Class>)>)> = w.drain(..).map(|(n, v)| (n.to_string(), v)).collect();
    // The Lean witness of Props/C31 §9 (`c2pa_reader_free(builder)`), and the same for every
    // type-specific release function F (declared for type t) and every other kind of library
    // pointer u: create one u (the only live pointer), F(u) must be refused and release nothing,
    // the right release then succeeds, and F(u) on the now dead pointer is refused again.
    for sp in SPECS {
        let t = match sp.roles {
            [FreeT(t)] => *t,
            _ => continue,
        };
        for u in ALL_TYPES {
            if *u == t {
                continue;
            }
            let mut ops = vec![];
            for (c, force) in prereq_of(u) {
                ops.push((c, f(&force)));
            }
            ops.push((sp.name, f(&[(0, Class::WrongType)])));
            ops.push((sp.name, f(&[(0, Class::WrongType)])));
            out.push((format!("w-typed-free:{}:{u}", sp.name), ops));
        }
        // right type: released; second release through the same function is refused
        let mut ops = vec![];
        for (c, force) in prereq_of(t) {
            ops.push((c, f(&force)));
        }
        ops.push((sp.name, f(&[(0, Class::Valid)])));
        ops.push((sp.name, f(&[(0, Class::Freed)])));
        out.push((format!("w-typed-free:{}:same", sp.name), ops));
    }
    out
}

/// Everything the registry tracks: the eight handle types, strings, byte arrays.
const ALL_TYPES: &[&str] = &["settings", "contextBuilder", "context", "reader", "builder", "signer", "stream", "resolver", "cstring", "bytes"];

/// Calls that create exactly one live pointer of type `t` (as the last live pointer created).
fn prereq_of(t: &str) -> Vec<(&'static str, Vec<(usize, Class)>)> {
    match t {
        "cstring" => vec![("c2pa_version", vec![])],
        "bytes" => vec![("c2pa_ed25519_sign", vec![(0, Class::Mem), (2, Class::Mem)])],
        "signer" => vec![("c2pa_signer_from_info", vec![(0, Class::Mem)])],
        "builder" => vec![("c2pa_builder_from_json", vec![(0, Class::Mem)])],
        other => vec![(ctor_of(other), vec![])],
    }
}


/// One directed sequence over a single handle `H` of type `ty`:
/// prerequisites; `uses` (each validates H and nothing after it); `consume` (takes H away:
/// an untracking function of the FfiGuards table, or `c2pa_free`), with the given classes for
/// its secondary arguments; then immediately `reuse` with the stale H — nothing else touches
/// the registry in between.
#[derive(Clone)]
struct Directed {
    ty: &'static str,
    uses: Vec<&'static str>,
    consume: &'static str,
    cparam: usize,
    cforce: BTreeMap<usize, Class>,
    reuse: &'static str,
    rparam: usize,
    thread: bool,
}

const HANDLE_TYPES: &[&str] = &["settings", "contextBuilder", "context", "reader", "builder", "signer", "stream", "resolver"];

fn ctor_of(t: &str) -> &'static str {
    match t {
        "settings" => "c2pa_settings_new",
        "contextBuilder" => "c2pa_context_builder_new",
        "context" => "c2pa_context_new",
        "reader" => "c2pa_reader_new",
        "builder" => "c2pa_builder_from_json",
        "signer" => "c2pa_signer_from_info",
        "stream" => "c2pa_create_stream",
        _ => "c2pa_http_resolver_create",
    }
}

/// Quick tier: a seed-rotated sample of at most ~`QUICK_DIRECTED` directed sequences (every
/// forked stale-handle preflight costs tens of milliseconds); the thorough tier runs them all.
const QUICK_DIRECTED: usize = 260;

fn directed_plan(table: &Table, thorough: bool, seed: u64) -> Vec<Directed> {
    let plan = directed_plan_full(table, thorough);
    if thorough || plan.len() <= QUICK_DIRECTED {
        return plan;
    }
    let stride = plan.len().div_ceil(QUICK_DIRECTED);
    let off = (seed as usize) % stride;
    plan.into_iter().enumerate().filter(|(i, _)| i % stride == off).map(|x| x.1).collect()
}

fn directed_plan_full(table: &Table, thorough: bool) -> Vec<Directed> {
    let mut plan = vec![];
    for ty in HANDLE_TYPES {
        // consuming calls: every (function, parameter) the table marks `untrack` for this type
        let mut consumers: Vec<(&'static str, usize)> = vec![];
        for sp in SPECS {
            if let Some(row) = table.rows.get(sp.name) {
                for e in row["events"].as_array().unwrap() {
                    if e["use"].as_str() == Some("untrack") && e["ty"].as_str() == Some(*ty) {
                        consumers.push((sp.name, e["p"].as_u64().unwrap() as usize));
                    }
                }
            }
        }
        let consumer_names: Vec<&str> = consumers.iter().map(|c| c.0).collect();
        consumers.push(("c2pa_free", 0));
        // the type-specific release functions of this handle type
        let typed_frees: Vec<&'static str> = SPECS.iter().filter(|sp| sp.roles == [FreeT(*ty)]).map(|sp| sp.name).collect();
        for tf in &typed_frees {
            consumers.push((*tf, 0));
        }
        // variants of the secondary arguments
        let mut cvariants: Vec<(&'static str, usize, BTreeMap<usize, Class>)> = vec![];
        for (g, cp) in &consumers {
            cvariants.push((g, *cp, BTreeMap::new()));
            for (j, r) in spec(g).roles.iter().enumerate() {
                if j == *cp {
                    continue;
                }
                let alts: &[Class] = match r {
                    Str(_) => &[Class::Null, Class::MemBad],
                    H(_) | HOpt(_) => &[Class::Null, Class::Foreign, Class::WrongType],
                    Bytes => &[Class::Null],
                    _ => &[],
                };
                for a in alts {
                    let mut f = BTreeMap::new();
                    f.insert(j, *a);
                    cvariants.push((g, *cp, f));
                }
            }
        }
        // validate-only uses: H is the only handle of the call, so it is the last one validated
        let single = |sp: &FnSpec| {
            let hs: Vec<&Role> = sp.roles.iter().filter(|r| matches!(r, H(_) | HOpt(_) | Free | FreeT(_) | OwnedArr)).collect();
            hs.len() == 1 && *hs[0] == H(ty) && !consumer_names.contains(&sp.name)
        };
        let uses_any: Vec<&'static str> = SPECS.iter().filter(|sp| single(sp)).map(|sp| sp.name).collect();
        let uses_na: Vec<&'static str> = SPECS.iter().filter(|sp| single(sp) && matches!(sp.ret, Ret::Int | Ret::Unit | Ret::Bool)).map(|sp| sp.name).collect();
        // reuse: every (function, parameter) that takes this handle type, plus the universal frees
        let mut reuses: Vec<(&'static str, usize)> = vec![];
        for sp in SPECS {
            for (i, r) in sp.roles.iter().enumerate() {
                if *r == H(ty) || *r == HOpt(ty) {
                    reuses.push((sp.name, i));
                }
            }
        }
        reuses.push(("c2pa_free", 0));
        reuses.push(("cimpl_free", 0));
        for tf in &typed_frees {
            reuses.push((*tf, 0));
        }
        for (ci, (g, cp, f)) in cvariants.iter().enumerate() {
            for (ri, (h, rp)) in reuses.iter().enumerate() {
                let mut use_sets: Vec<Vec<&'static str>> = vec![];
                let mut u = vec![];
                if !uses_any.is_empty() && (ci + ri) % 4 != 0 {
                    u.push(uses_any[(ci + ri) % uses_any.len()]);
                }
                if !uses_na.is_empty() {
                    u.push(uses_na[(ci * 7 + ri) % uses_na.len()]);
                }
                use_sets.push(u);
                if thorough {
                    use_sets.push(vec![]);
                    for x in &uses_any {
                        use_sets.push(vec![*x]);
                    }
                }
                for u in use_sets {
                    plan.push(Directed { ty, uses: u, consume: g, cparam: *cp, cforce: f.clone(), reuse: h, rparam: *rp, thread: false });
                }
            }
            // the same pattern with the reuse on another thread
            let (h, rp) = reuses.iter().find(|(h, _)| uses_any.contains(h)).copied().unwrap_or(reuses[0]);
            let u = uses_na.first().or(uses_any.first()).map(|x| vec![*x]).unwrap_or_default();
            plan.push(Directed { ty, uses: u, consume: g, cparam: *cp, cforce: f.clone(), reuse: h, rparam: rp, thread: true });
        }
    }
    plan
}

fn run_directed(s: &mut Seq, d: &Directed) {
    let strict = Opts { strict: true, thread: false };
    let none = BTreeMap::new();
    // every handle the three steps may need, created before the pattern starts
    for c in ["c2pa_create_stream", "c2pa_create_stream", "c2pa_signer_from_info", "c2pa_signer_from_info", "c2pa_settings_new",
              "c2pa_context_builder_new", "c2pa_context_new", "c2pa_reader_new", "c2pa_builder_from_json", "c2pa_http_resolver_create"] {
        s.exec(c, &none, &[], strict);
    }
    let h = match s.exec(ctor_of(d.ty), &none, &[], strict) {
        Some(h) => h,
        None => return,
    };
    s.count(&format!("directed:{}", d.ty));
    for u in &d.uses {
        let i = spec(u).roles.iter().position(|r| *r == H(d.ty)).unwrap();
        s.exec(u, &none, &[(i, h, Class::Valid)], strict);
    }
    s.exec(d.consume, &d.cforce, &[(d.cparam, h, Class::Valid)], strict);
    if s.live.contains_key(&h) || !s.dead.contains(&h) {
        // not taken (an earlier guard of the consuming call failed first) or the address was reissued
        s.count("directed:not-stale-after-consume");
        return;
    }
    s.count("directed:stale-reuse");
    s.out.nontrivial.push(format!("directed:{}:{}:{}:{}", d.consume, d.cparam, d.reuse, d.rparam));
    s.exec(d.reuse, &none, &[(d.rparam, h, Class::Freed)], Opts { strict: true, thread: d.thread });
}

fn run_sequence(k: &Consts, table: &Table, seed: u64, seq_no: usize, len: usize, witness: Option<&[(&'static str, BTreeMap<usize, Class>)]>, directed: Option<&Directed>) -> SeqOut {
    let mut s = Seq {
        k,
        table,
        rng: Rng::new(seed),
        ids: HashMap::new(),
        next_id: 0,
        live: BTreeMap::new(),
        dead: BTreeSet::new(),
        arrays: BTreeMap::new(),
        dead_arrays: BTreeMap::new(),
        ctxs: vec![],
        foreign: vec![],
        avoid: vec![],
        out: SeqOut::default(),
        out_slot: Box::new(0),
        seq_no,
    };
    match witness {
        Some(ops) => {
            for (name, force) in ops {
                s.exec(name, force, &[], Opts::default());
            }
        }
        None if directed.is_some() => run_directed(&mut s, directed.unwrap()),
        None => {
            for _ in 0..len {
                let name = weighted(&mut s.rng);
                // mostly valid: create missing prerequisites first (4 times out of 5)
                for r in spec(name).roles {
                    if let H(t) | HOpt(t) = r {
                        if s.live_of(t).is_empty() && s.rng.chance(4, 5) {
                            let ctor = match *t {
                                "settings" => "c2pa_settings_new",
                                "contextBuilder" => "c2pa_context_builder_new",
                                "context" => "c2pa_context_new",
                                "reader" => "c2pa_reader_new",
                                "builder" => "c2pa_builder_from_json",
                                "signer" => "c2pa_signer_from_info",
                                "stream" => "c2pa_create_stream",
                                _ => "c2pa_http_resolver_create",
                            };
                            let mut f = BTreeMap::new();
                            f.insert(0usize, Class::Mem);
                            s.exec(ctor, &f, &[], Opts::default());
                        }
                    }
                }
                s.exec(name, &BTreeMap::new(), &[], Opts::default());
            }
        }
    }
    s.drain();
    if !s.live.is_empty() || !s.arrays.is_empty() {
        let left = s.live.len() + s.arrays.len();
        s.out.fails.push(("leftover-live".into(), format!("seq={seq_no}: {left} handles could not be released at the end of the sequence")));
    }
    s.out
}

fn threads_now() -> u64 {
    std::fs::read_to_string("/proc/self/status")
        .ok()
        .and_then(|s| s.lines().find(|l| l.starts_with("Threads:")).and_then(|l| l.split_whitespace().nth(1).and_then(|x| x.parse().ok())))
        .unwrap_or(0)
}

/// Worker: runs sequences `from..to`, appending one JSON line per finished sequence.
fn worker(seed: u64, from: usize, to: usize, nwit: usize, len: usize, thorough: bool, file: &Path) {
    let k = consts();
    let table = load_table().expect("table");
    let wit = witnesses();
    let plan = directed_plan(&table, thorough, seed);
    let mut f = std::fs::OpenOptions::new().create(true).append(true).open(file).expect("journal");
    for i in from..to {
        let sseed = seed.wrapping_mul(0x2545_F491_4F6C_DD1D).wrapping_add(i as u64);
        let out = if i < nwit {
            run_sequence(&k, &table, sseed, i, 0, Some(&wit[i].1[..]), None)
        } else if i < nwit + plan.len() {
            run_sequence(&k, &table, sseed, i, 0, None, Some(&plan[i - nwit]))
        } else {
            run_sequence(&k, &table, sseed, i, len, None, None)
        };
        let line = json!({
            "seq": i,
            "req": out.req_ops.join("|"),
            "imp": out.imp_ops.join(" "),
            "fails": out.fails,
            "counts": out.counts,
            "nontrivial": out.nontrivial,
            "threads": threads_now(),
        });
        writeln!(f, "{line}").expect("journal write");
        f.flush().ok();
    }
}

fn run(run: &mut Run, rng: &mut Rng) {
    run.rule = "a call in which at least one required pointer parameter received NULL, a freed handle, a handle of the wrong type or a foreign pointer (key = function:parameter:class), plus releases of live handles and calls that reach an unchecked use (ub:…)".into();
    let (nseq, len) = if run.thorough() { (4000usize, 40usize) } else { (320usize, 30usize) };

    // ---- inventory obligation: catalogue vs regenerated table
    let table = load_table();
    let mut inv_ok = table.is_some();
    if let Some(t) = &table {
        for (name, row) in &t.rows {
            let gated = row["cfg"].as_array().map(|a| !a.is_empty()).unwrap_or(false);
            let sp = SPECS.iter().find(|s| s.name == name);
            let skipped = NOT_DRIVEN.iter().any(|(n, _)| n == name);
            match sp {
                Some(sp) => {
                    let ps = row["params"].as_array().unwrap();
                    if ps.len() != sp.roles.len() {
                        inv_ok = false;
                        run.notes.push(format!("inventory: {name} has {} parameters in the source, {} in the harness catalogue", ps.len(), sp.roles.len()));
                    } else {
                        for (i, p) in ps.iter().enumerate() {
                            let kind = p["kind"].as_str().unwrap();
                            let compat = match sp.roles[i] {
                                H(t) | HOpt(t) => kind == "handle" && p["hty"].as_str() == Some(t),
                                Free => kind == "opaque",
                                FreeT(t) => match kind {
                                    "handle" => p["hty"].as_str() == Some(t),
                                    "anyptr" => t == "cstring",
                                    "bytes" => t == "bytes",
                                    _ => false,
                                },
                                OwnedArr => kind == "ownedArray",
                                Str(_) | StrOpt => kind == "cstr",
                                Bytes => kind == "bytes",
                                Out | OutOpt => kind == "out",
                                InfoRef => kind == "structref",
                                ArrOpt => matches!(kind, "array" | "strarray"),
                                Opaque => kind == "opaque",
                                Scalar => kind == "scalar",
                                Cb => kind == "callback",
                            };
                            if !compat {
                                inv_ok = false;
                                run.notes.push(format!("inventory: {name} parameter {i} is `{kind}` in the source but {:?} in the harness catalogue", sp.roles[i]));
                            }
                        }
                    }
                }
                None => {
                    if !(skipped || gated) {
                        inv_ok = false;
                        run.notes.push(format!("inventory: exported function {name} is not in the harness catalogue"));
                    }
                }
            }
        }
        for sp in SPECS {
            if !t.rows.contains_key(sp.name) {
                inv_ok = false;
                run.notes.push(format!("inventory: catalogue function {} is not exported any more", sp.name));
            }
        }
        for (n, why) in NOT_DRIVEN {
            run.notes.push(format!("not driven: {n} — {why}"));
        }
    } else {
        run.notes.push("FfiGuards table /verif/.build/c31/ffi_guards.json missing (translator did not run)".into());
    }
    run.obligations.insert("inventory:catalogue-equals-exported-functions".into(), inv_ok);
    if table.is_none() {
        return;
    }

    // ---- supervised workers
    let scratch = vh::common::scratch("c31");
    let journal = scratch.join("journal.jsonl");
    note_init();
    let seed = rng.next();
    let nwit = witnesses().len();
    let ndir = directed_plan(table.as_ref().unwrap(), run.thorough(), seed).len();
    let thorough = run.thorough();
    let total = nseq + nwit + ndir;
    let mut from = 0usize;
    let mut crashes = 0usize;
    let mut lines: Vec<Value> = vec![];
    while from < total {
        let _ = std::fs::remove_file(&journal);
        let pid = unsafe { libc::fork() };
        if pid == 0 {
            worker(seed, from, total, nwit, len, thorough, &journal);
            unsafe { libc::_exit(0) };
        }
        let mut status = 0i32;
        unsafe { libc::waitpid(pid, &mut status, 0) };
        let txt = std::fs::read_to_string(&journal).unwrap_or_default();
        let mut done = 0usize;
        for l in txt.lines() {
            if let Ok(v) = serde_json::from_str::<Value>(l) {
                lines.push(v);
                done += 1;
            }
        }
        let clean = libc::WIFEXITED(status) && libc::WEXITSTATUS(status) == 0;
        from += done;
        if !clean || from < total {
            // the worker died inside sequence `from`
            crashes += 1;
            let what = note_get();
            let how = if libc::WIFSIGNALED(status) { format!("signal {}", libc::WTERMSIG(status)) } else { format!("exit status {}", libc::WEXITSTATUS(status)) };
            let idx = run.case(format!("C31 seq ops=-"), String::new());
            run.fail(idx, "crash-in-guarded-call", format!("the worker process died ({how}) while executing: {what}"));
            from += 1;
            if crashes > 25 {
                run.notes.push("more than 25 worker crashes; search stopped early".into());
                break;
            }
        }
    }
    let mut max_threads = 0;
    for v in &lines {
        let idx = run.case(format!("C31 seq ops={}", v["req"].as_str().unwrap_or("-")), v["imp"].as_str().unwrap_or("").to_string());
        for f in v["fails"].as_array().cloned().unwrap_or_default() {
            run.fail(idx, f[0].as_str().unwrap_or("?"), f[1].as_str().unwrap_or("").to_string());
        }
        if let Some(c) = v["counts"].as_object() {
            for (k, n) in c {
                *run.dist.entry(k.clone()).or_insert(0) += n.as_u64().unwrap_or(0);
            }
        }
        for n in v["nontrivial"].as_array().cloned().unwrap_or_default() {
            run.nontrivial(n.as_str().unwrap_or("").to_string());
        }
        max_threads = max_threads.max(v["threads"].as_u64().unwrap_or(0));
    }
    run.notes.push(format!("sequences={} (incl. {nwit} fixed witnesses and {ndir} directed use/consume/reuse sequences) ops/random sequence={len} worker_crashes={crashes} max_threads_in_worker={max_threads}", lines.len()));
    run.obligations.insert("search:all-sequences-completed".into(), lines.len() + crashes >= total);
    let _ = std::fs::remove_dir_all(&scratch);
}
