//! C30 — remote manifest references round-trip through XMP.
//!
//! Request lines (see lean/C2paModel/Model/C30.lean):
//!   C30 esc s=<hex>                    -> <hex>
//!   C30 unesc s=<hex>                  -> ok:<hex> | err
//!   C30 add <packet> k=<hex> v=<hex>   -> ok <rle text> x=<none|some:hex> i=<0|1> | read-error | panic
//!   C30 prov <packet> v=<hex>          -> ok <rle text> x=<none|some:hex> | read-error | panic
//!   C30 ext <packet> k=<hex>           -> none | some:<hex>
//!   C30 rt <packet> v=<hex>            -> x=<none|some:hex> | read-error | panic     (end-to-end, public API)
//! <packet> = pre=<hex> d=<S|E|N> at=<-|hexk:hexv,…> post=<hex> gap=<hex> tr=<0|1> len=<n>
//!
//! The packet is the abstraction of an XMP text: `pre` up to the first `<rdf:Description` tag,
//! its attributes (key, raw value) in order, `post` after it (white space before the trailer
//! removed), the white-space `gap`, whether a `<?xpacket end` trailer exists, total length.
//! Unit level: packets come from a grammar, the harness renders the input text (free choice of
//! quotes / white space inside the tag / trailer form) and calls the real functions through
//! `verif_hooks::c30`. End to end: the packet is obtained from the XMP of a real asset with the
//! independent scanner below (`scan_packet`), the real handlers / Builder / Reader do the work.
//!
//! Grammar exclusions (where quick-xml's pass-through of `pre`/`post` is not the identity or the
//! abstraction is not defined): `<!DOCTYPE` with irregular spacing, end tags with white space
//! (`</a >`), raw `<` in attribute values, ill-formed XML outside the first rdf:Description,
//! the text `<?xpacket end` anywhere but in the trailer, a trailer on a text shorter than 19
//! bytes (the length subtraction underflows: debug panic).

use std::io::Cursor;

use c2pa::{verif_hooks::c30 as hk, Builder, Context, EphemeralSigner, Reader};
use vh::common::{fixtures, guarded, hex, main_with, Rng, Run};
use vh::sign::{definition, unsigned_sources};

fn main() {
    main_with("C30", run);
}

const XMP_END: &str = "<?xpacket end=\"w\"?>";
const K_PROV: &str = "dcterms:provenance";
const K_NS: &str = "xmlns:dcterms";

// ---------------------------------------------------------------------------------------
// encoders shared with the model

fn rle(bytes: &[u8]) -> String {
    let mut out: Vec<String> = vec![];
    let mut lit = String::new();
    let mut i = 0;
    while i < bytes.len() {
        let b = bytes[i];
        let mut n = 1;
        while i + n < bytes.len() && bytes[i + n] == b {
            n += 1;
        }
        if n >= 8 {
            if !lit.is_empty() {
                out.push(std::mem::take(&mut lit));
            }
            out.push(format!("{b:02x}*{n}"));
        } else {
            for _ in 0..n {
                lit.push_str(&format!("{b:02x}"));
            }
        }
        i += n;
    }
    if !lit.is_empty() {
        out.push(lit);
    }
    if out.is_empty() {
        "-".to_string()
    } else {
        out.join(".")
    }
}

fn opt_out(v: &Option<String>) -> String {
    match v {
        None => "none".to_string(),
        Some(s) => format!("some:{}", hex(s.as_bytes())),
    }
}

// ---------------------------------------------------------------------------------------
// independent scanner: XMP text -> abstract packet (the abstraction function)

#[derive(Clone, Debug, PartialEq)]
struct SAttr {
    key: String,
    raw: String,
}

#[derive(Clone, Debug)]
struct Scan {
    pre: String,
    /// attributes and is-empty-element of the first rdf:Description
    desc: Option<(Vec<SAttr>, bool)>,
    post: String,
    gap: String,
    trailer: bool,
    len: usize,
}

impl Scan {
    fn fields(&self) -> String {
        let (d, at) = match &self.desc {
            None => ("N", "-".to_string()),
            Some((attrs, empty)) => (
                if *empty { "E" } else { "S" },
                if attrs.is_empty() {
                    "-".to_string()
                } else {
                    attrs
                        .iter()
                        .map(|a| format!("{}:{}", hex(a.key.as_bytes()), hex(a.raw.as_bytes())))
                        .collect::<Vec<_>>()
                        .join(",")
                },
            ),
        };
        format!(
            "pre={} d={} at={} post={} gap={} tr={} len={}",
            hex(self.pre.as_bytes()),
            d,
            at,
            hex(self.post.as_bytes()),
            hex(self.gap.as_bytes()),
            self.trailer as u8,
            self.len
        )
    }
}

fn is_ws(b: u8) -> bool {
    matches!(b, b' ' | b'\t' | b'\r' | b'\n')
}

/// Attributes of a start tag body (the text after the element name, without the closing
/// `>` / `/>`): key, raw value. `None` when the text is not `(ws key ws? = ws? quoted)*`.
fn scan_attrs(s: &str) -> Option<Vec<SAttr>> {
    let b = s.as_bytes();
    let mut i = 0;
    let mut out = vec![];
    loop {
        while i < b.len() && is_ws(b[i]) {
            i += 1;
        }
        if i >= b.len() {
            return Some(out);
        }
        let ks = i;
        while i < b.len() && !is_ws(b[i]) && b[i] != b'=' {
            i += 1;
        }
        let key = &s[ks..i];
        while i < b.len() && is_ws(b[i]) {
            i += 1;
        }
        if i >= b.len() || b[i] != b'=' {
            return None;
        }
        i += 1;
        while i < b.len() && is_ws(b[i]) {
            i += 1;
        }
        if i >= b.len() || (b[i] != b'"' && b[i] != b'\'') {
            return None;
        }
        let q = b[i];
        i += 1;
        let vs = i;
        while i < b.len() && b[i] != q {
            i += 1;
        }
        if i >= b.len() {
            return None;
        }
        out.push(SAttr {
            key: key.to_string(),
            raw: s[vs..i].to_string(),
        });
        i += 1;
    }
}

/// Walk the markup; return (start, end-exclusive, tag body after the name, is-empty) of the
/// first element named `rdf:Description`. Comments, CDATA, PIs, declarations are skipped.
fn find_description(body: &str) -> Option<(usize, usize, String, bool)> {
    let b = body.as_bytes();
    let mut i = 0;
    while i < b.len() {
        if b[i] != b'<' {
            i += 1;
            continue;
        }
        let rest = &body[i..];
        if rest.starts_with("<!--") {
            i += rest.find("-->").map(|p| p + 3).unwrap_or(rest.len());
        } else if rest.starts_with("<![CDATA[") {
            i += rest.find("]]>").map(|p| p + 3).unwrap_or(rest.len());
        } else if rest.starts_with("<?") {
            i += rest.find("?>").map(|p| p + 2).unwrap_or(rest.len());
        } else if rest.starts_with("<!") || rest.starts_with("</") {
            i += rest.find('>').map(|p| p + 1).unwrap_or(rest.len());
        } else {
            // start tag: find its end outside quotes
            let mut j = i + 1;
            let mut q: Option<u8> = None;
            while j < b.len() {
                match q {
                    Some(c) if b[j] == c => q = None,
                    Some(_) => {}
                    None if b[j] == b'"' || b[j] == b'\'' => q = Some(b[j]),
                    None if b[j] == b'>' => break,
                    None => {}
                }
                j += 1;
            }
            if j >= b.len() {
                return None;
            }
            let inner = &body[i + 1..j];
            let (inner, empty) = match inner.strip_suffix('/') {
                Some(x) => (x, true),
                None => (inner, false),
            };
            let name_end = inner.find(|c: char| c.is_ascii_whitespace()).unwrap_or(inner.len());
            if &inner[..name_end] == "rdf:Description" {
                return Some((i, j + 1, inner[name_end..].to_string(), empty));
            }
            i = j + 1;
        }
    }
    None
}

fn scan_packet(xmp: &str) -> Option<Scan> {
    let (body_full, trailer) = match xmp.rfind("<?xpacket end") {
        Some(p) => (&xmp[..p], true),
        None => (xmp, false),
    };
    let trimmed = body_full.trim_end_matches(|c: char| c.is_ascii_whitespace());
    let gap = body_full[trimmed.len()..].to_string();
    match find_description(trimmed) {
        None => Some(Scan {
            pre: trimmed.to_string(),
            desc: None,
            post: String::new(),
            gap,
            trailer,
            len: xmp.len(),
        }),
        Some((s, e, tag, empty)) => {
            let attrs = scan_attrs(&tag)?;
            Some(Scan {
                pre: trimmed[..s].to_string(),
                desc: Some((attrs, empty)),
                post: trimmed[e..].to_string(),
                gap,
                trailer,
                len: xmp.len(),
            })
        }
    }
}

/// Meaning of a raw attribute value: entity and character references resolved (quick-xml, not
/// c2pa code); a value that is not well-formed escaped text stands for itself.
fn meaning(raw: &str) -> String {
    match quick_xml::escape::unescape(raw) {
        Ok(s) => s.into_owned(),
        Err(_) => raw.to_string(),
    }
}

// ---------------------------------------------------------------------------------------
// generators

const SPECIALS: [&str; 5] = ["&", "<", ">", "\"", "'"];

fn gen_word(r: &mut Rng, max: u64) -> String {
    let n = r.range(1, max) as usize;
    (0..n)
        .map(|_| *r.pick(&['a', 'b', 'c', 'x', 'y', 'z', 'A', 'Z', '0', '1', '7', '9', '-', '_', '.']))
        .collect()
}

/// free text for escape/unescape: specials, reference fragments (good and bad), non-ASCII
fn gen_text(r: &mut Rng) -> String {
    let pieces: [&str; 44] = [
        "&", ";", "<", ">", "\"", "'", "#", "x", "&amp;", "&lt;", "&gt;", "&quot;", "&apos;", "&#x41;", "&#65;",
        "&#x3c;", "&#0;", "&#x0;", "&#xD800;", "&#xDFFF;", "&#xE000;", "&#x10FFFF;", "&#x110000;", "&#4294967295;",
        "&#4294967296;", "&#x100000000;", "&#+65;", "&#-1;", "&#x+41;", "&#xZZ;", "&#X41;", "&;", "&#;", "&#x;",
        "&foo;", "&AMP;", "&amp", "&#x00041;", "&#00065;", "é", "日本", "😀", " ", "\n",
    ];
    let n = r.below(9) as usize;
    let mut s = String::new();
    for _ in 0..n {
        match r.below(4) {
            0 => s.push_str(&gen_word(r, 6)),
            _ => s.push_str(*r.pick(&pieces)),
        }
    }
    s
}

/// A remote manifest URL. `wild` adds characters that are not valid in URLs or XML
/// (tabs, line breaks, controls) — unit level only.
fn gen_url(r: &mut Rng, wild: bool) -> String {
    let mut s = String::from(*r.pick(&["https://", "http://"]));
    s.push_str(*r.pick(&["example.com", "cai-manifests.adobe.com", "127.0.0.1", "h.example", "münchen.example"]));
    if r.chance(1, 4) {
        s.push_str(&format!(":{}", r.range(1, 65535)));
    }
    for _ in 0..r.below(4) {
        s.push('/');
        match r.below(8) {
            0 => s.push_str("a%20b"),
            1 => s.push_str("%26%3C%3E%22%27"),
            2 => s.push_str("urn:uuid:0ab6e8b8-5c28-4ef1-8f58-86c21f0349bf"),
            3 => s.push_str("méta"),
            4 => s.push_str("it's"),
            _ => s.push_str(&gen_word(r, 12)),
        }
    }
    if r.chance(1, 12) {
        // long
        let n = r.range(200, 3000) as usize;
        s.push('/');
        s.push_str(&"p".repeat(n));
    }
    if r.chance(3, 4) {
        s.push('?');
        let nq = r.range(1, 4);
        for i in 0..nq {
            if i > 0 {
                s.push_str(*r.pick(&["&", "&", "&", ";", "&amp;"]));
            }
            s.push_str(&gen_word(r, 5));
            s.push('=');
            match r.below(10) {
                0 => s.push_str("a<b"),
                1 => s.push_str("a>b"),
                2 => s.push_str("\"q\""),
                3 => s.push_str("'q'"),
                4 => s.push_str("%26amp%3B"),
                5 => s.push_str("&lt;"),
                6 => s.push_str("x&#38;y"),
                7 => s.push_str("1+1"),
                _ => s.push_str(&gen_word(r, 8)),
            }
        }
    }
    if r.chance(1, 3) {
        s.push('#');
        s.push_str(*r.pick(&["frag", "a&b", "x=1&y=2", "é", "q\"", "<t>", ""]));
    }
    if wild && r.chance(1, 6) {
        let pos = r.below(s.len() as u64 + 1) as usize;
        let pos = (0..=pos).rev().find(|p| s.is_char_boundary(*p)).unwrap_or(0);
        s.insert_str(pos, *r.pick(&["\t", "\n", "\r\n", " ", "\u{1}", "\u{85}", "\u{2028}"]));
    }
    s
}

/// value for the generic `add` op: URL, free text, or empty
fn gen_value(r: &mut Rng) -> String {
    match r.below(10) {
        0 => String::new(),
        1 | 2 => gen_text(r),
        3 => SPECIALS.concat(),
        _ => gen_url(r, true),
    }
}

const KEY_POOL: [&str; 14] = [
    "rdf:about",
    "xmlns:xmp",
    "xmlns:xmpMM",
    "xmlns:dc",
    "xmlns:dcterms",
    "xmpMM:DocumentID",
    "xmpMM:InstanceID",
    "dcterms:provenance",
    "dc:format",
    "photoshop:ColorMode",
    "xmp:CreatorTool",
    "xmp:Rating",
    "a",
    "k",
];

/// raw (escaped) value of an existing attribute; never contains `<`; at most one quote kind
fn gen_raw(r: &mut Rng) -> String {
    let quote = *r.pick(&["", "", "", "'", "\""]);
    let n = r.below(5) as usize;
    let mut s = String::new();
    for _ in 0..n {
        match r.below(14) {
            0 => s.push_str("&amp;"),
            1 => s.push_str(*r.pick(&["&lt;", "&gt;", "&quot;", "&apos;"])),
            2 => s.push_str(*r.pick(&["&#x41;", "&#65;", "&#x26;", "&#xe9;"])),
            3 => s.push_str(*r.pick(&["&foo;", "& ", "&#0;", "&"])), // ill-formed references stay as they are
            4 => s.push_str(quote),
            5 => s.push('>'),
            6 => s.push_str(*r.pick(&[" ", "\t", "\n", "  "])),
            7 => s.push_str(*r.pick(&["é", "日本", "😀"])),
            8 => s.push_str("xmp.did:cb9f5498-bb58-4572-8043-8c369e6bfb9b"),
            9 => s.push_str("http://ns.adobe.com/xap/1.0/"),
            10 => s.push(';'),
            _ => s.push_str(&gen_word(r, 10)),
        }
    }
    s
}

struct GPacket {
    scan: Scan,
    text: String,
}

fn ws(r: &mut Rng) -> &'static str {
    *r.pick(&["", "", " ", "\n", "\n  ", "\t", "\r\n "])
}

fn ws1(r: &mut Rng) -> &'static str {
    *r.pick(&[" ", " ", " ", "  ", "\n", "\n        ", "\t", "\r\n "])
}

/// `want_key_later`: allow the key to occur again in `post` (second rdf:Description / element)
fn gen_packet(r: &mut Rng, later_key: Option<&str>) -> GPacket {
    // surroundings
    let mut pre = String::new();
    let mut closers: Vec<&str> = vec![];
    if r.chance(1, 5) {
        pre.push_str("<?xml version=\"1.0\" encoding=\"UTF-8\"?>");
        pre.push_str(ws(r));
    }
    if r.chance(2, 3) {
        pre.push_str(*r.pick(&[
            "<?xpacket begin=\"\u{feff}\" id=\"W5M0MpCehiHzreSzNTczkc9d\"?>",
            "<?xpacket begin=\"\" id=\"W5M0MpCehiHzreSzNTczkc9d\"?>",
            "<?xpacket begin='' id='W5M0MpCehiHzreSzNTczkc9d'?>",
        ]));
        pre.push_str(ws(r));
    }
    match r.below(6) {
        0 => {
            pre.push_str("<x>");
            closers.push("</x>");
        }
        1 => {
            pre.push_str("<rdf:RDF xmlns:rdf=\"http://www.w3.org/1999/02/22-rdf-syntax-ns#\">");
            closers.push("</rdf:RDF>");
        }
        2 => {
            pre.push_str("<x:xmpmeta xmlns:x='adobe:ns:meta/' x:xmptk='Image::ExifTool 12.40'>");
            pre.push_str(ws(r));
            pre.push_str("<rdf:RDF xmlns:rdf='http://www.w3.org/1999/02/22-rdf-syntax-ns#'>");
            closers.push("</x:xmpmeta>");
            closers.push("</rdf:RDF>");
        }
        _ => {
            pre.push_str("<x:xmpmeta xmlns:x=\"adobe:ns:meta/\" x:xmptk=\"XMP Core 6.0.0\">");
            pre.push_str(ws(r));
            pre.push_str("<rdf:RDF xmlns:rdf=\"http://www.w3.org/1999/02/22-rdf-syntax-ns#\">");
            closers.push("</x:xmpmeta>");
            closers.push("</rdf:RDF>");
        }
    }
    if r.chance(1, 6) {
        pre.push_str(*r.pick(&[
            "<!-- <rdf:Description a=\"1\"> -->",
            "<?note <rdf:Description/> ?>",
            "<![CDATA[<rdf:Description b='2'/>]]>",
            "<!-- c -->",
        ]));
    }
    pre.push_str(ws(r));

    let kind = match r.below(12) {
        0 => 'N',
        1..=4 => 'E',
        _ => 'S',
    };

    let mut attrs: Vec<SAttr> = vec![];
    if kind != 'N' {
        let n = match r.below(20) {
            0 => 0,
            1 => r.range(31, 40) as usize, // beyond quick-xml's small-attribute-count threshold
            _ => r.range(1, 8) as usize,
        };
        let mut keys: Vec<String> = vec![];
        for i in 0..n {
            let k = if n > 14 {
                format!("ns{}:p{}", i % 3, i)
            } else {
                loop {
                    let k = if r.chance(1, 5) { format!("ns:{}", gen_word(r, 6)) } else { r.pick(&KEY_POOL).to_string() };
                    if !keys.contains(&k) {
                        break k;
                    }
                }
            };
            keys.push(k);
        }
        if n >= 2 && r.chance(1, 25) {
            // duplicate key -> quick-xml reports Duplicated
            let i = r.below(n as u64) as usize;
            let j = r.below(n as u64) as usize;
            if i != j {
                keys[j] = keys[i].clone();
            }
        }
        for k in keys {
            attrs.push(SAttr { key: k, raw: gen_raw(r) });
        }
    }

    // input rendering of the tag
    let mut text = pre.clone();
    if kind != 'N' {
        text.push_str("<rdf:Description");
        for a in &attrs {
            text.push_str(ws1(r));
            text.push_str(&a.key);
            text.push_str(*r.pick(&["=", "=", "=", " =", "= ", " = "]));
            let q = if a.raw.contains('"') {
                '\''
            } else if a.raw.contains('\'') {
                '"'
            } else {
                *r.pick(&['"', '"', '"', '\''])
            };
            text.push(q);
            text.push_str(&a.raw);
            text.push(q);
        }
        text.push_str(ws(r));
        text.push_str(if kind == 'E' { "/>" } else { ">" });
    }

    // post
    let mut post = String::new();
    if kind == 'S' {
        for _ in 0..r.below(4) {
            post.push_str(ws(r));
            post.push_str(*r.pick(&[
                "<dc:title><rdf:Alt><rdf:li xml:lang=\"x-default\">T &amp; t</rdf:li></rdf:Alt></dc:title>",
                "<xmp:Rating>5</xmp:Rating>",
                "<xmp:Label/>",
                "<dc:creator><rdf:Seq><rdf:li>a 'b' \"c\"</rdf:li></rdf:Seq></dc:creator>",
                "<![CDATA[ <rdf:Description x='1'> ]]>",
                "<!-- note -->",
                "text &lt; more",
                "<photoshop:City attr='single \"dq\"'>X</photoshop:City>",
            ]));
        }
        post.push_str(ws(r));
        post.push_str("</rdf:Description>");
    }
    if kind != 'N' && r.chance(1, 4) {
        post.push_str(ws(r));
        match later_key {
            Some(k) if r.chance(1, 2) => {
                post.push_str(&format!("<rdf:Description rdf:about=\"\" {k}=\"later\"/>"));
            }
            Some(k) if kind == 'E' && !k.starts_with("xmlns") && r.chance(1, 2) => {
                post.push_str(&format!("<{k}>{}</{k}>", r.pick(&["tag form", "a &amp; b", "<rdf:li>x</rdf:li>", " sp "])));
            }
            _ => post.push_str("<rdf:Description rdf:about='' photoshop:City=\"X\"/>"),
        }
    }
    for c in closers.iter().rev() {
        post.push_str(ws(r));
        post.push_str(c);
    }
    let (pre, post) = if kind == 'N' {
        // everything before the (absent) tag
        (format!("{pre}{post}").trim_end().to_string(), String::new())
    } else {
        (pre, post)
    };
    if kind == 'N' {
        text = pre.clone();
    } else {
        text.push_str(&post);
    }

    let gap: String = match r.below(8) {
        0 | 1 => String::new(),
        2 => "\n".to_string(),
        3 => " \n\t\r\n".to_string(),
        4 => {
            let lines = r.range(1, 30) as usize;
            let mut g = String::new();
            for _ in 0..lines {
                g.push('\n');
                g.push_str(&" ".repeat(100));
            }
            g.push('\n');
            g
        }
        5 => " ".repeat(r.range(1, 5000) as usize),
        _ => "\n".repeat(r.range(1, 3) as usize),
    };
    text.push_str(&gap);
    let trailer = !r.chance(1, 4);
    if trailer {
        text.push_str(*r.pick(&[
            XMP_END,
            XMP_END,
            "<?xpacket end=\"r\"?>",
            "<?xpacket end='w'?>",
            "<?xpacket end=\"w\" ?>",
            "<?xpacket end?>",
        ]));
        text.push_str(*r.pick(&["", "", "", "\n", "   ", "\0"]));
    }
    let scan = Scan {
        pre,
        desc: if kind == 'N' { None } else { Some((attrs, kind == 'E')) },
        post,
        gap,
        trailer,
        len: text.len(),
    };
    GPacket { scan, text }
}

// ---------------------------------------------------------------------------------------
// property oracle on implementation data

/// Checks output `out` of adding `key=value` to `input` (abstract form `before`):
/// round trip, other attributes, surrounding text, padding, idempotence.
fn oracle_add(
    run: &mut Run,
    idx: usize,
    before: &Scan,
    out: &str,
    key: &str,
    value: &str,
    extracted: &Option<String>,
    also_ns: bool,
    tag: &str,
) {
    if before.desc.is_none() {
        if extracted.as_deref() != Some(value) {
            run.fail(
                idx,
                "xmp-without-description",
                format!("the XMP has no rdf:Description element: the call succeeds but {key} is not stored (read back {extracted:?})"),
            );
        }
        return;
    }
    if extracted.as_deref() != Some(value) {
        let special = value.chars().any(|c| "&<>\"'".contains(c));
        run.fail(
            idx,
            &format!("{tag}{}", if special { "url-roundtrip-xml-special" } else { "url-roundtrip" }),
            format!("embedded {value:?}, read back {extracted:?}"),
        );
    }
    let after = match scan_packet(out) {
        Some(a) => a,
        None => {
            run.fail(idx, &format!("{tag}attrs-not-preserved"), "output tag does not scan as attributes".to_string());
            return;
        }
    };
    let (battrs, bempty) = before.desc.clone().unwrap();
    match &after.desc {
        None => run.fail(idx, &format!("{tag}attrs-not-preserved"), "rdf:Description vanished".to_string()),
        Some((aattrs, aempty)) => {
            // same keys in the same order; same meaning (references resolved). A value that is
            // not well-formed escaped text has no meaning beyond its characters: there only a
            // literal `"` may have become `&quot;` (the writer always uses double quotes).
            let skip = |k: &str| k == key || (also_ns && k == K_NS);
            let b: Vec<&SAttr> = battrs.iter().filter(|a| !skip(&a.key)).collect();
            let a: Vec<&SAttr> = aattrs.iter().filter(|a| !skip(&a.key)).collect();
            let same = |x: &SAttr, y: &SAttr| {
                x.key == y.key
                    && if quick_xml::escape::unescape(&x.raw).is_ok() {
                        quick_xml::escape::unescape(&y.raw).is_ok() && meaning(&x.raw) == meaning(&y.raw)
                    } else {
                        y.raw == x.raw.replace('"', "&quot;")
                    }
            };
            if a.len() != b.len() || !b.iter().zip(a.iter()).all(|(x, y)| same(x, y)) {
                let first = b.iter().zip(a.iter()).find(|(x, y)| !same(x, y));
                run.fail(
                    idx,
                    &format!("{tag}attrs-not-preserved"),
                    format!("other attributes changed: {} before, {} after; first difference {first:?}", b.len(), a.len()),
                );
            }
            if *aempty != bempty {
                run.fail(idx, &format!("{tag}attrs-not-preserved"), "empty-element form changed".to_string());
            }
            if aattrs.iter().filter(|a| a.key == key).count() != 1 {
                run.fail(idx, &format!("{tag}attrs-not-preserved"), format!("{key} does not occur exactly once"));
            }
        }
    }
    if after.pre != before.pre || after.post != before.post {
        run.fail(idx, &format!("{tag}text-not-preserved"), "text around rdf:Description changed".to_string());
    }
    if !after.trailer || !out.ends_with(XMP_END) {
        run.fail(idx, &format!("{tag}padding-length"), "output does not end with the packet trailer".to_string());
    }
    if before.trailer && out.len() < before.len {
        run.fail(idx, &format!("{tag}padding-length"), format!("packet shrank {} -> {}", before.len, out.len()));
    }
    // (single add only: add_provenance is two adds, the first may already have grown the packet)
    if before.trailer && !also_ns {
        let body_len = out.len() - XMP_END.len() - after.gap.len();
        if body_len + 1 <= before.len.saturating_sub(XMP_END.len()) && out.len() != before.len {
            run.fail(
                idx,
                &format!("{tag}padding-length"),
                format!("packet length changed {} -> {} although the new body ({body_len}) fits", before.len, out.len()),
            );
        }
    }
}

// ---------------------------------------------------------------------------------------
// unit level

fn op_esc(run: &mut Run, r: &mut Rng) {
    let s = if r.chance(1, 2) { gen_text(r) } else { gen_value(r) };
    let e = quick_xml::escape::escape(s.as_str()).into_owned();
    let idx = run.case(format!("C30 esc s={}", hex(s.as_bytes())), hex(e.as_bytes()));
    run.count("op_esc");
    if s.chars().any(|c| "&<>\"'".contains(c)) {
        run.nontrivial(format!("esc {s}"));
    }
    match quick_xml::escape::unescape(&e) {
        Ok(u) if u == s => {}
        other => run.fail(idx, "unescape-escape", format!("unescape(escape({s:?})) = {other:?}")),
    }
}

fn op_unesc(run: &mut Run, r: &mut Rng) {
    let s = gen_text(r);
    let imp = match quick_xml::escape::unescape(&s) {
        Ok(u) => {
            run.count("unesc_ok");
            format!("ok:{}", hex(u.as_bytes()))
        }
        Err(_) => {
            run.count("unesc_err");
            "err".to_string()
        }
    };
    run.case(format!("C30 unesc s={}", hex(s.as_bytes())), imp);
}

fn op_add(run: &mut Run, r: &mut Rng) {
    let key: String = match r.below(6) {
        0 | 1 => K_PROV.to_string(),
        2 | 3 => r.pick(&KEY_POOL).to_string(),
        _ => format!("ns:{}", gen_word(r, 6)),
    };
    let value = gen_value(r);
    let p = gen_packet(r, Some(&key));
    do_add(run, p, key, value);
}

/// A packet given as text: abstracted with the scanner.
fn packet_of_text(text: &str) -> GPacket {
    GPacket {
        scan: scan_packet(text).expect("witness text scans"),
        text: text.to_string(),
    }
}

/// Fixed cases run before the random ones: the witnesses of the two repaired defects and
/// sweeps across the padding boundaries (body just fits / just does not fit).
fn replay_witnesses(run: &mut Run) {
    // F8: URL with `&` through MIN_XMP
    for url in ["https://h.example/m?a=1&b=2", "https://h.example/m?q=\"x\"&r='y'&s=<z>#f&g", "a&amp;b"] {
        do_prov(run, packet_of_text(hk::MIN_XMP), url.to_string());
    }
    // single-quoted attribute holding a double quote
    do_add(
        run,
        packet_of_text("<x><rdf:Description a='say \"hi\"' b=\"2\"/></x>"),
        "k".to_string(),
        "v".to_string(),
    );
    // with trailer: room of g bytes between body and trailer, g = 0..=60; the value is 10 bytes
    for g in 0..=60usize {
        for trailer in [XMP_END, "<?xpacket end='r'?>  "] {
            let text = format!(
                "<x:xmpmeta><rdf:RDF><rdf:Description rdf:about=\"\" k=\"0123456789ABCDEF\"/></rdf:RDF></x:xmpmeta>{}{}",
                " ".repeat(g),
                trailer
            );
            // same size, 6 smaller, up to 30 larger
            for vlen in [16usize, 10, 17, 18, 26, 46] {
                do_add(run, packet_of_text(&text), "k".to_string(), "v".repeat(vlen));
            }
        }
    }
    // without trailer: total length around 4096
    for total in 4060..=4110usize {
        let head = "<x:xmpmeta><rdf:RDF><!--";
        let tail = "--><rdf:Description rdf:about=\"\"/></rdf:RDF></x:xmpmeta>";
        let fill = total - head.len() - tail.len();
        let text = format!("{head}{}{tail}", "c".repeat(fill));
        do_add(run, packet_of_text(&text), "k".to_string(), "0123456789".to_string());
    }
    // padding lengths 0..=210: chunk boundaries of the padding writer (99 blanks + line break)
    for pad in 0..=210usize {
        let text = format!(
            "<x:xmpmeta><rdf:RDF><rdf:Description rdf:about=\"\" k=\"0123456789\"/></rdf:RDF></x:xmpmeta>{}{}",
            "\n".repeat(pad),
            XMP_END
        );
        do_add(run, packet_of_text(&text), "k".to_string(), "0123456789".to_string());
    }
    run.count("witness_and_boundary_cases");
}

fn do_add(run: &mut Run, p: GPacket, key: String, value: String) {
    let req = format!(
        "C30 add {} k={} v={}",
        p.scan.fields(),
        hex(key.as_bytes()),
        hex(value.as_bytes())
    );
    let text = p.text.clone();
    let (k2, v2) = (key.clone(), value.clone());
    let res = guarded(move || {
        hk::add_xmp_key(&text, &k2, &v2).map(|out| {
            let x = hk::extract_xmp_key(&out, &k2);
            let again = hk::add_xmp_key(&out, &k2, &v2).ok();
            (out, x, again)
        })
    });
    match res {
        Err(p) => {
            let idx = run.case(req, "panic".to_string());
            run.fail(idx, "panic", p);
        }
        Ok(Err(e)) => {
            let cls = format!("{e:?}");
            let imp = if cls.starts_with("XmpReadError") { "read-error" } else { "other-error" };
            run.count(&format!("add_{imp}"));
            run.case(req, imp.to_string());
        }
        Ok(Ok((out, x, again))) => {
            let idem = again.as_deref() == Some(out.as_str());
            let imp = format!("ok {} x={} i={}", rle(out.as_bytes()), opt_out(&x), idem as u8);
            if p.scan.desc.is_some() {
                run.nontrivial(req.clone());
            }
            run.count("add_ok");
            run.count(match &p.scan.desc {
                None => "desc_none",
                Some((_, true)) => "desc_empty_elem",
                Some((_, false)) => "desc_start_elem",
            });
            if p.scan.trailer {
                run.count("with_trailer");
            }
            if value.chars().any(|c| "&<>\"'".contains(c)) {
                run.count("value_with_xml_special");
            }
            let idx = run.case(req, imp);
            oracle_add(run, idx, &p.scan, &out, &key, &value, &x, false, "");
            // Adding again gives the same text; when the input had white space at its end and no
            // trailer, that white space is re-laid as padding: then everything but the padding.
            let same_content = match (again.as_deref().and_then(scan_packet), scan_packet(&out)) {
                (Some(a), Some(b)) => a.pre == b.pre && a.desc == b.desc && a.post == b.post && a.len == b.len && a.trailer == b.trailer,
                _ => false,
            };
            if !(idem || (!p.scan.trailer && !p.scan.gap.is_empty() && same_content)) {
                run.fail(idx, "not-idempotent", "adding the same key/value again changes the packet".to_string());
            }
        }
    }
}

fn op_prov(run: &mut Run, r: &mut Rng) {
    let wild = r.chance(1, 4);
    let url = gen_url(r, wild);
    let p = gen_packet(r, Some(K_PROV));
    do_prov(run, p, url);
}

fn do_prov(run: &mut Run, p: GPacket, url: String) {
    let req = format!("C30 prov {} v={}", p.scan.fields(), hex(url.as_bytes()));
    let text = p.text.clone();
    let u2 = url.clone();
    let res = guarded(move || {
        hk::add_provenance(&text, &u2).map(|out| {
            let x = hk::extract_provenance(&out);
            (out, x)
        })
    });
    match res {
        Err(p) => {
            let idx = run.case(req, "panic".to_string());
            run.fail(idx, "panic", p);
        }
        Ok(Err(e)) => {
            let cls = format!("{e:?}");
            let imp = if cls.starts_with("XmpReadError") { "read-error" } else { "other-error" };
            run.count(&format!("prov_{imp}"));
            run.case(req, imp.to_string());
        }
        Ok(Ok((out, x))) => {
            let imp = format!("ok {} x={}", rle(out.as_bytes()), opt_out(&x));
            if p.scan.desc.is_some() {
                run.nontrivial(req.clone());
            }
            run.count("prov_ok");
            if url.chars().any(|c| "&<>\"'".contains(c)) {
                run.count("url_with_xml_special");
            }
            let idx = run.case(req, imp);
            oracle_add(run, idx, &p.scan, &out, K_PROV, &url, &x, true, "");
        }
    }
}

fn op_ext(run: &mut Run, r: &mut Rng) {
    let p = gen_packet(r, None);
    let key: String = match (&p.scan.desc, r.below(4)) {
        (Some((attrs, _)), 0..=2) if !attrs.is_empty() => r.pick(attrs).key.clone(),
        _ => r.pick(&["k", "dcterms:provenance", "unicorn", "ns:absent"]).to_string(),
    };
    let req = format!("C30 ext {} k={}", p.scan.fields(), hex(key.as_bytes()));
    let text = p.text.clone();
    let k2 = key.clone();
    let res = guarded(move || hk::extract_xmp_key(&text, &k2));
    match res {
        Err(pn) => {
            let idx = run.case(req, "panic".to_string());
            run.fail(idx, "panic", pn);
        }
        Ok(x) => {
            run.count(if x.is_some() { "ext_some" } else { "ext_none" });
            let idx = run.case(req, opt_out(&x));
            // oracle: the value is the meaning of the first attribute with that key
            let want = p
                .scan
                .desc
                .as_ref()
                .and_then(|(attrs, _)| attrs.iter().find(|a| a.key == key).map(|a| meaning(&a.raw)));
            if x != want {
                run.fail(idx, "extract-wrong-value", format!("extracted {x:?}, the attribute means {want:?}"));
            }
        }
    }
}

// ---------------------------------------------------------------------------------------
// text level: the model's reader/scanner (Model/C30Scan.lean) against the real code on raw text

/// 0–3 small edits that break or bend the markup (char-boundary safe).
fn mutate_text(r: &mut Rng, s: &str) -> String {
    let mut cs: Vec<char> = s.chars().collect();
    let n = r.below(4);
    for _ in 0..n {
        if cs.is_empty() {
            break;
        }
        let pos = r.below(cs.len() as u64) as usize;
        match r.below(5) {
            0 => {
                cs.remove(pos);
            }
            1 | 2 => {
                let c = *r.pick(&['<', '>', '"', '\'', '&', ';', '/', '=', '?', '!', '-', ']', '[', ' ', '\n', 'x']);
                cs.insert(pos, c);
            }
            3 => {
                // drop a short slice
                let len = (r.below(12) as usize).min(cs.len() - pos);
                cs.drain(pos..pos + len);
            }
            _ => {
                let c = *r.pick(&['<', '>', '"', '\'', '&', '/', ' ']);
                cs[pos] = c;
            }
        }
    }
    cs.into_iter().collect()
}

/// `extract_xmp_key` on a raw text: grammar packets (key in the first element, in a later
/// element, as a child element, absent), texts produced by `add_xmp_key`, and damaged ones.
fn op_xt(run: &mut Run, r: &mut Rng) {
    let key: String = match r.below(4) {
        0 | 1 => K_PROV.to_string(),
        2 => r.pick(&KEY_POOL).to_string(),
        _ => format!("ns:{}", gen_word(r, 6)),
    };
    let p = gen_packet(r, Some(&key));
    let mut text = p.text.clone();
    let mut kind = "grammar";
    if r.chance(1, 6) {
        // the tag case (`read_text` up to the matching end tag) on hand-made shapes
        let k = &key;
        let forms = [
            format!("<{k}>v &amp; w</{k}>"),
            format!("<{k}/>x</{k}>"),
            format!("<{k}>a<{k}>b</{k}>c</{k}>d</{k}>"),
            format!("<{k}>a<{k}/>b</{k}>c</{k}>"),
            format!("<{k}>a<b>x</{k}><{k}>second</{k}>"),
            format!("<{k}>unterminated<b/>"),
            format!("<{k} >sp</{k} >"),
            format!("<{k}>a<![CDATA[ </{k}> ]]>b</{k}>"),
            format!("<{k}>a<!-- </{k}> -->b<?p </{k}> ?></{k}>"),
            format!("<{k} a='</{k}>'>x</{k}>"),
            format!("<{k}>a & b</{k}>"),
            format!("<{k}>a<b></{k}></b></{k}>"),
            format!("</{k}><{k}>after stray end</{k}>"),
            format!("<{k}>{} x </{k}>", '\u{feff}'),
        ];
        let lead = *r.pick(&["<a><rdf:Description x=\"1\"/>", "<a>", "\u{feff}<a><rdf:Description/>t&amp;t", "", "<?xml version=\"1.0\"?>\n<a><!---->"]);
        text = format!("{lead}{}{}", r.pick(&forms), r.pick(&["</a>", "", "<rdf:Description/>"]));
        kind = "tagcase";
    } else if r.chance(1, 3) {
        let (t, k, v) = (text.clone(), key.clone(), gen_value(r));
        if let Ok(Ok(out)) = guarded(move || hk::add_xmp_key(&t, &k, &v)) {
            text = out;
            kind = "written";
        }
    }
    if r.chance(2, 5) {
        text = mutate_text(r, &text);
        kind = "damaged";
    }
    if text.contains("<!D") || text.contains("<!d") {
        run.count("xt_skipped_doctype");
        return;
    }
    let req = format!("C30 xt s={} k={}", hex(text.as_bytes()), hex(key.as_bytes()));
    let (t2, k2) = (text.clone(), key.clone());
    match guarded(move || hk::extract_xmp_key(&t2, &k2)) {
        Err(pn) => {
            let idx = run.case(req, "panic".to_string());
            run.fail(idx, "panic", pn);
        }
        Ok(x) => {
            run.count(&format!("xt_{kind}_{}", if x.is_some() { "some" } else { "none" }));
            if x.is_some() {
                run.nontrivial(req.clone());
            }
            run.case(req, opt_out(&x));
        }
    }
}

/// one `xt` case on a text that comes from a real asset (value already extracted by the real code)
fn xt_case(run: &mut Run, text: &str, key: &str, got: &Option<String>) {
    if text.contains("<!D") || text.contains("<!d") {
        run.count("xt_skipped_doctype");
        return;
    }
    run.count(if got.is_some() { "xt_asset_some" } else { "xt_asset_none" });
    run.case(format!("C30 xt s={} k={}", hex(text.as_bytes()), hex(key.as_bytes())), opt_out(got));
}

/// free rendering of a tag content (what follows the element name)
fn render_tag_content(r: &mut Rng, attrs: &[SAttr]) -> String {
    let mut s = String::new();
    for a in attrs {
        s.push_str(ws1(r));
        s.push_str(&a.key);
        s.push_str(*r.pick(&["=", "=", "=", " =", "= ", " = ", "\n=\t"]));
        let q = if a.raw.contains('"') {
            '\''
        } else if a.raw.contains('\'') {
            '"'
        } else {
            *r.pick(&['"', '"', '\''])
        };
        s.push(q);
        s.push_str(&a.raw);
        s.push(q);
    }
    s.push_str(ws(r));
    s
}

fn gen_attr_list(r: &mut Rng) -> Vec<SAttr> {
    let n = match r.below(12) {
        0 => 0,
        1 => r.range(30, 36) as usize,
        _ => r.range(1, 6) as usize,
    };
    (0..n)
        .map(|i| SAttr {
            key: if n > 10 {
                format!("n{}:p{}", i % 3, if r.chance(1, 40) { 0 } else { i })
            } else if r.chance(1, 4) {
                format!("ns:{}", gen_word(r, 4))
            } else {
                r.pick(&KEY_POOL).to_string()
            },
            raw: gen_raw(r),
        })
        .collect()
}

/// quick-xml's attribute iterator (XML mode, duplicate check on) over a tag content.
fn op_sc(run: &mut Run, r: &mut Rng) {
    let attrs = gen_attr_list(r);
    let mut s = render_tag_content(r, &attrs);
    let damaged = r.chance(1, 2);
    if damaged {
        s = mutate_text(r, &s);
    }
    // the tag content never contains an unquoted `>`; the iterator itself does not care
    let req = format!("C30 sc s={}", hex(s.as_bytes()));
    let s2 = s.clone();
    let res = guarded(move || {
        let mut out: Vec<String> = vec![];
        for a in quick_xml::events::attributes::Attributes::new(&s2, 0).take(s2.len() + 2) {
            out.push(match a {
                Ok(a) => format!("o:{}:{}", hex(a.key.as_ref()), hex(a.value.as_ref())),
                Err(_) => "e".to_string(),
            });
        }
        out
    });
    match res {
        Err(pn) => {
            let idx = run.case(req, "panic".to_string());
            run.fail(idx, "panic", pn);
        }
        Ok(out) => {
            let any_err = out.iter().any(|x| x == "e");
            run.count(if any_err { "sc_with_error" } else { "sc_all_ok" });
            if !out.is_empty() {
                run.nontrivial(req.clone());
            }
            let idx = run.case(req, if out.is_empty() { "-".to_string() } else { out.join(",") });
            // oracle (undamaged only): the iterator yields exactly the attributes that were rendered,
            // up to the first repeated key
            if !damaged {
                let mut want: Vec<String> = vec![];
                let mut seen: Vec<&str> = vec![];
                let mut dup = false;
                for a in &attrs {
                    if seen.contains(&a.key.as_str()) {
                        dup = true;
                        break;
                    }
                    seen.push(&a.key);
                    want.push(format!("o:{}:{}", hex(a.key.as_bytes()), hex(a.raw.as_bytes())));
                }
                if !dup && out != want {
                    run.fail(idx, "attribute-scan", format!("rendered {} attributes, iterator yields {:?}", attrs.len(), out));
                }
            }
        }
    }
}

/// The element reading of `add_xmp_key`: first event of a reader configured as there, on a
/// text that starts with an rdf:Description tag (free layout, written form, damaged).
fn op_sd(run: &mut Run, r: &mut Rng) {
    let attrs = gen_attr_list(r);
    let written = r.chance(1, 3);
    let mut s = String::from(*r.pick(&["<rdf:Description", "<rdf:Description", "<rdf:Description", "<rdf:Descriptio", "<x"]));
    if written {
        // the writer's form: one blank, double quotes
        for a in &attrs {
            s.push_str(&format!(" {}=\"{}\"", a.key, a.raw.replace('"', "&quot;")));
        }
    } else {
        s.push_str(&render_tag_content(r, &attrs));
    }
    s.push_str(*r.pick(&[">", ">", "/>", " />", ""]));
    s.push_str(*r.pick(&["", "tail", "<a/>", " \n</rdf:Description>", "x>y\"z"]));
    if r.chance(1, 3) {
        s = mutate_text(r, &s);
    }
    let req = format!("C30 sd s={}", hex(s.as_bytes()));
    let s2 = s.clone();
    let res = guarded(move || {
        let mut reader = quick_xml::Reader::from_str(&s2);
        reader.config_mut().trim_text(false);
        reader.config_mut().expand_empty_elements = false;
        if !s2.starts_with('<') {
            return "none".to_string();
        }
        let (e, empty) = match reader.read_event() {
            Ok(quick_xml::events::Event::Start(e)) => (e, false),
            Ok(quick_xml::events::Event::Empty(e)) => (e, true),
            _ => return "none".to_string(),
        };
        if e.name().as_ref() != b"rdf:Description" {
            return "none".to_string();
        }
        let mut at: Vec<String> = vec![];
        for a in e.attributes() {
            match a {
                Ok(a) => at.push(format!("{}:{}", hex(a.key.as_ref()), hex(a.value.as_ref()))),
                Err(_) => return "none".to_string(),
            }
        }
        let rest = &s2[reader.buffer_position() as usize..];
        format!(
            "{} at={} rest={}",
            if empty { "E" } else { "S" },
            if at.is_empty() { "-".to_string() } else { at.join(",") },
            hex(rest.as_bytes())
        )
    });
    match res {
        Err(pn) => {
            let idx = run.case(req, "panic".to_string());
            run.fail(idx, "panic", pn);
        }
        Ok(imp) => {
            run.count(if imp == "none" { "sd_none" } else { "sd_some" });
            if imp != "none" {
                run.nontrivial(req.clone());
            }
            run.case(req, imp);
        }
    }
}

// ---------------------------------------------------------------------------------------
// end to end

fn crc32(data: &[u8]) -> u32 {
    let mut c: u32 = 0xffff_ffff;
    for &b in data {
        c ^= b as u32;
        for _ in 0..8 {
            c = if c & 1 != 0 { (c >> 1) ^ 0xedb8_8320 } else { c >> 1 };
        }
    }
    !c
}

/// Put a caller-chosen XMP packet into an asset (formats where that is a few lines of code).
fn inject_xmp(format: &str, src: &[u8], xmp: &str) -> Option<Vec<u8>> {
    match format {
        "image/jpeg" => {
            // APP1 right after SOI
            let mut payload = b"http://ns.adobe.com/xap/1.0/\0".to_vec();
            payload.extend_from_slice(xmp.as_bytes());
            let len = payload.len() + 2;
            if len > 0xffff || src.len() < 2 {
                return None;
            }
            let mut out = src[..2].to_vec();
            out.extend_from_slice(&[0xff, 0xe1, (len >> 8) as u8, len as u8]);
            out.extend_from_slice(&payload);
            out.extend_from_slice(&src[2..]);
            Some(out)
        }
        "image/png" => {
            // iTXt right after IHDR (8 signature + 25 IHDR chunk)
            if src.len() < 33 {
                return None;
            }
            let mut data = b"XML:com.adobe.xmp\0\0\0\0\0".to_vec();
            data.extend_from_slice(xmp.as_bytes());
            let mut chunk = (data.len() as u32).to_be_bytes().to_vec();
            let mut body = b"iTXt".to_vec();
            body.extend_from_slice(&data);
            chunk.extend_from_slice(&body);
            chunk.extend_from_slice(&crc32(&body).to_be_bytes());
            let mut out = src[..33].to_vec();
            out.extend_from_slice(&chunk);
            out.extend_from_slice(&src[33..]);
            Some(out)
        }
        "image/svg+xml" => {
            let s = std::str::from_utf8(src).ok()?;
            let p = s.find("<svg")?;
            let e = p + s[p..].find('>')? + 1;
            if s[p..e].ends_with("/>") {
                return None;
            }
            Some(format!("{}<metadata>{}</metadata>{}", &s[..e], xmp, &s[e..]).into_bytes())
        }
        _ => None,
    }
}

fn read_xmp(format: &str, data: &[u8]) -> Option<String> {
    let f = format.to_string();
    let d = data.to_vec();
    guarded(move || hk::read_xmp(&f, &mut Cursor::new(d))).ok().flatten()
}

fn embed(format: &str, data: &[u8], url: &str) -> Result<Vec<u8>, String> {
    let f = format.to_string();
    let d = data.to_vec();
    let u = url.to_string();
    match guarded(move || {
        let mut src = Cursor::new(d);
        let mut out = Cursor::new(Vec::new());
        hk::embed_xmp_reference(&f, &mut src, &mut out, &u).map(|_| out.into_inner())
    }) {
        Err(p) => Err(format!("panic:{p}")),
        Ok(Err(e)) => Err(format!("{e:?}")),
        Ok(Ok(v)) => Ok(v),
    }
}

/// Handler level: embed through `RemoteRefEmbed::embed_reference_to_stream`, read back through
/// the handler's `read_xmp` + `extract_provenance`; model request built from the XMP read
/// from the source asset (or MIN_XMP) by the independent scanner.
fn e2e_handler(run: &mut Run, format: &str, asset: &[u8], url: &str, what: &str) -> Option<Vec<u8>> {
    let before_txt = read_xmp(format, asset);
    let basis = before_txt.clone().unwrap_or_else(|| hk::MIN_XMP.to_string());
    let before = scan_packet(&basis)?;
    let req = format!("C30 prov {} v={} fmt={} asset={}", before.fields(), hex(url.as_bytes()), format, what);
    run.count(&format!("e2e_handler_{format}"));
    run.count(&format!("e2e_asset_{what}"));
    match embed(format, asset, url) {
        Err(e) => {
            let imp = if e.starts_with("XmpReadError") { "read-error".to_string() } else { format!("embed-error:{}", e.chars().take(40).collect::<String>().replace(' ', "_")) };
            let idx = run.case(req, imp);
            if e.starts_with("panic") {
                run.fail(idx, "panic", e);
            } else if !e.starts_with("XmpReadError") {
                run.fail(idx, "e2e-embed-error", format!("{format} ({what}): {e}"));
            }
            None
        }
        Ok(out) => {
            // canonicalisation: some containers pad the XMP payload (RIFF: even length); bytes
            // after the trailer that are blanks or NULs belong to the container
            let after_txt = read_xmp(format, &out).map(|s| {
                let t = s.trim_end_matches([' ', '\0']);
                if t.ends_with("?>") {
                    t.to_string()
                } else {
                    s
                }
            });
            let got = after_txt.as_deref().and_then(hk::extract_provenance);
            let imp = format!("ok {} x={}", rle(after_txt.clone().unwrap_or_default().as_bytes()), opt_out(&got));
            run.nontrivial(format!("{format} {what} {url}"));
            let idx = run.case(req, imp);
            match &after_txt {
                None => run.fail(idx, "e2e-url-roundtrip", format!("{format} ({what}): no XMP readable after embedding")),
                Some(a) => oracle_add(run, idx, &before, a, K_PROV, url, &got, true, "e2e-"),
            }
            // known identifiers stay readable
            if let Some(b) = &before_txt {
                for k in ["xmpMM:DocumentID", "xmpMM:InstanceID", "dc:format"] {
                    let vb = hk::extract_xmp_key(b, k);
                    let va = after_txt.as_deref().and_then(|a| hk::extract_xmp_key(a, k));
                    if vb != va {
                        run.fail(idx, "e2e-attrs-not-preserved", format!("{format} ({what}): {k} was {vb:?}, now {va:?}"));
                    }
                    // the text-level reader model on the real asset's XMP (before and after)
                    xt_case(run, b, k, &vb);
                    if let Some(a) = &after_txt {
                        xt_case(run, a, k, &va);
                    }
                }
            }
            if let Some(a) = &after_txt {
                xt_case(run, a, K_PROV, &got);
            }
            Some(out)
        }
    }
}

/// Public API: Builder with remote URL and no embedding, then Reader with remote fetching off.
fn e2e_public(run: &mut Run, format: &str, asset: &[u8], url: &str, what: &str) {
    let before_txt = read_xmp(format, asset);
    let basis = before_txt.unwrap_or_else(|| hk::MIN_XMP.to_string());
    let before = match scan_packet(&basis) {
        Some(b) => b,
        None => return,
    };
    // `Claim::set_remote_manifest` stores `url::Url::parse(url).to_string()`: the URL that is
    // embedded is the WHATWG serialisation of the one given to the builder (same URL, e.g. `"`
    // in a query becomes %22, a host name becomes punycode)
    let embedded = url::Url::parse(url).map(|u| u.to_string()).unwrap_or_else(|_| url.to_string());
    if embedded != url {
        run.count("e2e_public_url_normalised_by_claim");
    }
    let req = format!("C30 rt {} v={} fmt={} asset={}", before.fields(), hex(embedded.as_bytes()), format, what);
    run.count(&format!("e2e_public_{format}"));
    let (f, a, u) = (format.to_string(), asset.to_vec(), url.to_string());
    let res = guarded(move || -> Result<Result<(), c2pa::Error>, c2pa::Error> {
        let signer = EphemeralSigner::new("verif.test")?;
        let ctx = Context::new().with_signer(signer);
        let mut builder = Builder::from_context(ctx).with_definition(definition("verif asset", &f).as_str())?;
        builder.set_remote_url(u.clone());
        builder.set_no_embed(true);
        let mut input = Cursor::new(a);
        let mut output = Cursor::new(Vec::new());
        builder.save_to_stream(&f, &mut input, &mut output)?;
        let signed = output.into_inner();
        let rctx = Context::new().with_settings(r#"{"verify":{"remote_manifest_fetch":false}}"#)?;
        Ok(Reader::from_context(rctx).with_stream(&f, Cursor::new(signed)).map(|_| ()))
    });
    let (imp, fail): (String, Option<(&str, String)>) = match res {
        Err(p) => ("panic".to_string(), Some(("panic", p))),
        Ok(Err(e)) => {
            let d = format!("{e:?}");
            if d.starts_with("XmpReadError") {
                ("read-error".to_string(), None)
            } else {
                (format!("sign-error"), Some(("e2e-embed-error", format!("{format} ({what}): signing failed: {d}"))))
            }
        }
        Ok(Ok(Err(c2pa::Error::RemoteManifestUrl(got)))) => {
            let f = if got != embedded {
                Some((
                    "e2e-url-roundtrip",
                    format!("{format} ({what}): signed with {url:?} (embedded as {embedded:?}), reader reports {got:?}"),
                ))
            } else {
                None
            };
            (format!("x={}", opt_out(&Some(got))), f)
        }
        Ok(Ok(other)) => {
            let d = match other {
                Ok(()) => "reader succeeded".to_string(),
                Err(e) => format!("{e:?}"),
            };
            (
                "x=none".to_string(),
                Some((
                    if before.desc.is_none() { "xmp-without-description" } else { "e2e-url-roundtrip" },
                    format!("{format} ({what}): signed with {url:?}, reader did not report a remote URL: {d}"),
                )),
            )
        }
    };
    run.nontrivial(format!("public {format} {what} {url}"));
    let idx = run.case(req, imp);
    if let Some((c, d)) = fail {
        run.fail(idx, c, d);
    }
}

/// URLs that `Store::is_valid_remote_url` accepts, covering the grammar's features.
fn e2e_urls(r: &mut Rng, n_random: usize) -> Vec<String> {
    let mut v: Vec<String> = vec![
        "https://example.com/m.c2pa".to_string(),
        "https://example.com/m?a=1&b=2".to_string(),
        "https://example.com/m?a=1&amp;b=2&lt;#x&y".to_string(),
        "http://h.example:8080/a%20b/%26%3C?q=\"x\"&r='y'&s=<z>#frag".to_string(),
        format!("https://example.com/{}?k=v&l=w", "p".repeat(1500)),
    ];
    while v.len() < 5 + n_random {
        let u = gen_url(r, false);
        if url::Url::parse(&u).map(|p| p.scheme() == "http" || p.scheme() == "https").unwrap_or(false) {
            v.push(u);
        }
    }
    v
}

const CUSTOM_XMP: [&str; 4] = [
    // single-quoted (ExifTool style), a literal double quote inside, padding, trailer
    "<?xpacket begin='\u{feff}' id='W5M0MpCehiHzreSzNTczkc9d'?>\n<x:xmpmeta xmlns:x='adobe:ns:meta/' x:xmptk='Image::ExifTool 12.40'>\n<rdf:RDF xmlns:rdf='http://www.w3.org/1999/02/22-rdf-syntax-ns#'>\n <rdf:Description rdf:about=''\n  xmlns:dc='http://purl.org/dc/elements/1.1/'\n  xmlns:xmpMM='http://ns.adobe.com/xap/1.0/mm/'\n  xmpMM:DocumentID='xmp.did:1234'\n  dc:format='image/x'\n  dc:source='say \"hi\" &amp; bye'>\n  <dc:title><rdf:Alt><rdf:li xml:lang='x-default'>T &amp; t</rdf:li></rdf:Alt></dc:title>\n </rdf:Description>\n</rdf:RDF>\n</x:xmpmeta>\n                                                                                                    \n                                                                                                    \n<?xpacket end='w'?>",
    // existing provenance with an escaped ampersand, two descriptions, no trailer
    "<x:xmpmeta xmlns:x=\"adobe:ns:meta/\"><rdf:RDF xmlns:rdf=\"http://www.w3.org/1999/02/22-rdf-syntax-ns#\"><rdf:Description rdf:about=\"\" xmlns:dcterms=\"http://purl.org/dc/terms/\" xmlns:xmpMM=\"http://ns.adobe.com/xap/1.0/mm/\" dcterms:provenance=\"https://old.example/m?a=1&amp;b=2\" xmpMM:InstanceID=\"xmp.iid:&#x41;1\"/><rdf:Description rdf:about=\"\" xmlns:xmp=\"http://ns.adobe.com/xap/1.0/\" xmp:Rating=\"5\"/></rdf:RDF></x:xmpmeta>",
    // tight packet: trailer directly after the body (no room to keep the length)
    "<?xpacket begin=\"\" id=\"W5M0MpCehiHzreSzNTczkc9d\"?><x:xmpmeta xmlns:x=\"adobe:ns:meta/\"><rdf:RDF xmlns:rdf=\"http://www.w3.org/1999/02/22-rdf-syntax-ns#\"><rdf:Description rdf:about=\"\" xmlns:xmp=\"http://ns.adobe.com/xap/1.0/\" xmp:CreatorTool=\"a &gt; b\"></rdf:Description></rdf:RDF></x:xmpmeta><?xpacket end=\"w\"?>",
    // no rdf:Description at all
    "<?xpacket begin=\"\" id=\"W5M0MpCehiHzreSzNTczkc9d\"?><x:xmpmeta xmlns:x=\"adobe:ns:meta/\"><rdf:RDF xmlns:rdf=\"http://www.w3.org/1999/02/22-rdf-syntax-ns#\"/></x:xmpmeta><?xpacket end=\"w\"?>",
];

fn end_to_end(run: &mut Run, rng: &mut Rng) {
    let thorough = run.thorough();
    // inventory: every registered type whose handler embeds remote references belongs to a family
    // that has a source asset here
    let fams: Vec<(&str, &str)> = unsigned_sources();
    let mut with_ref: Vec<String> = c2pa::jumbf_io::get_supported_types()
        .into_iter()
        .filter(|t| hk::has_remote_ref_writer(t))
        .collect();
    with_ref.sort();
    run.notes.push(format!("type strings whose handler implements RemoteRefEmbed: {}", with_ref.join(" ")));
    let mut tested: Vec<&str> = vec![];
    let mut not_embedding: Vec<&str> = vec![];
    let urls = e2e_urls(rng, if thorough { 12 } else { 2 });
    for (format, file) in &fams {
        if !hk::has_remote_ref_writer(format) {
            not_embedding.push(format);
            continue;
        }
        let src = match std::fs::read(fixtures().join(file)) {
            Ok(b) => b,
            Err(_) => continue,
        };
        tested.push(format);
        // assets: as is; after one embedding (XMP with provenance present); custom packets
        let mut assets: Vec<(String, Vec<u8>)> = vec![("fixture".to_string(), src.clone())];
        if let Ok(first) = embed(format, &src, "https://first.example/m?x=1&y=2") {
            assets.push(("embedded-once".to_string(), first));
        }
        for (i, x) in CUSTOM_XMP.iter().enumerate() {
            if let Some(a) = inject_xmp(format, &src, x) {
                if read_xmp(format, &a).as_deref() == Some(*x) {
                    assets.push((format!("custom{i}"), a));
                } else {
                    run.count("inject_not_read_back");
                }
            }
        }
        for (what, asset) in &assets {
            let big = asset.len() > 600_000;
            let n_handler = if thorough { urls.len() } else if big { 2 } else { 4 };
            for (j, u) in urls.iter().enumerate().take(n_handler) {
                let out = e2e_handler(run, format, asset, u, what);
                // embedding a second URL over the first: the latest one wins
                if j == 1 {
                    if let Some(o) = out {
                        e2e_handler(run, format, &o, &urls[2 % urls.len()], &format!("{what}+re-embed"));
                    }
                }
            }
            let n_public = if thorough { if big { 4 } else { 8 } } else if what == "fixture" { 3 } else if big { 0 } else { 2 };
            for u in urls.iter().skip(1).take(n_public) {
                e2e_public(run, format, asset, u, what);
            }
        }
    }
    run.notes.push(format!("end-to-end formats: {}", tested.join(" ")));
    if !not_embedding.is_empty() {
        run.notes.push(format!("source formats without RemoteRefEmbed: {}", not_embedding.join(" ")));
    }
    // every embedding type string must be served by the handler of a tested family: compare by
    // behaviour — embedding into the family's asset under that type string must work as well
    let mut uncovered = vec![];
    for t in &with_ref {
        let mut ok = false;
        for (format, file) in &fams {
            if !tested.contains(format) {
                continue;
            }
            if t == format {
                ok = true;
                break;
            }
            if let Ok(src) = std::fs::read(fixtures().join(file)) {
                if let Ok(out) = embed(t, &src, "https://example.com/m?a=1&b=2") {
                    if read_xmp(t, &out).as_deref().and_then(hk::extract_provenance).as_deref()
                        == Some("https://example.com/m?a=1&b=2")
                    {
                        ok = true;
                        break;
                    }
                }
            }
        }
        if !ok {
            uncovered.push(t.clone());
        }
    }
    if !uncovered.is_empty() {
        run.notes.push(format!("type strings with RemoteRefEmbed not reached by any source asset: {}", uncovered.join(" ")));
    }
    run.obligations.insert("every-remote-ref-type-string-exercised".to_string(), uncovered.is_empty());
}

pub fn run(run: &mut Run, rng: &mut Rng) {
    run.rule = "unit: packets from a grammar (0–40 attributes, start/empty/no rdf:Description, single/double quotes, references in values, padding, 6 trailer forms), values from a URL grammar (queries with & ; &amp;, fragments, percent-encoding, < > \" ', long, non-ASCII, control characters) and free text; a case is non-trivial when the packet has an rdf:Description so that the value is really written and read back. end to end: every source format with RemoteRefEmbed × assets (fixture, already embedded once, custom XMP packets) × URLs, through the handlers and through Builder/Reader; distinct by request text".to_string();
    let n = if run.thorough() { 300_000 } else { 30_000 };
    replay_witnesses(run);
    for _ in 0..n {
        let mut r = rng.fork();
        match r.below(28) {
            0 | 1 => op_esc(run, &mut r),
            2 | 3 => op_unesc(run, &mut r),
            4..=10 => op_add(run, &mut r),
            11..=15 => op_prov(run, &mut r),
            16..=19 => op_ext(run, &mut r),
            20..=23 => op_xt(run, &mut r),
            24 | 25 => op_sc(run, &mut r),
            _ => op_sd(run, &mut r),
        }
    }
    let mut r = rng.fork();
    end_to_end(run, &mut r);
}
