//! C26 — the network host allow-list is enforced on every request.
//!
//! Request lines (see lean/C2paModel/Model/C26.lean; every string is lower-case hex, `-` empty,
//! `~` absent):
//!   C26 match pat=<hex> scheme= host= port=                 -> <0|1> lc=<lower-cased pattern>
//!   C26 allowed allow=<~|-|hex,hex,…> scheme= host= port=   -> <0|1>
//!   C26 restrict allow=… u=<text/scheme/host/port>          -> ok:200 n=1 | uri-disallowed n=0
//!   C26 chain allow=… redir=<0|1> mode=<s|a> m= body= hdrs= u= hops=<E|R:status:loc:join|…>
//!                                                            -> <result> n=<k> t=<req|req|…>
//!   C26 ctx …same fields…                                    -> <result> n=<k>
//!   C26 site kind=<ctx|tsa|remote> …same fields…             -> <ok|refusal class|err> n=<k>
//! `chain` runs the stack of `Context::build_default_{sync,async}_resolver` (hook: same wrappers,
//! scripted transport in place of the HTTP client); `ctx` runs the real `Context::resolver()`
//! against a loopback server; `site` issues one request at a request site of the SDK (Context
//! resolver, the signer's default time-stamp request via `Builder::sign`, the settings-configured
//! remote signer) under a configured allow-list against the same server.

#[path = "../net_c26_c27.rs"]
mod net;

use c2pa::{
    http::{
        http::{Request, Uri},
        restricted::{HostPattern, RestrictedResolver},
        SyncHttpResolver,
    },
    verif_hooks::c26 as hook,
    Context,
};
use net::*;
use vh::common::{guarded, main_with, Rng, Run};

fn main() {
    main_with("C26", run);
}

fn bool_str(b: bool) -> &'static str {
    if b {
        "1"
    } else {
        "0"
    }
}

fn parse_uri(rng: &mut Rng, allow: &Option<Vec<String>>, run: &mut Run) -> Uri {
    parse_uri_biased(rng, allow, run, 0)
}

/// `good` in 0..=100: probability (percent) of aiming at a URI the allow-list admits.
fn parse_uri_biased(rng: &mut Rng, allow: &Option<Vec<String>>, run: &mut Run, good: u64) -> Uri {
    loop {
        let s = if rng.below(100) < good { gen_good_uri_string(rng, allow) } else { gen_uri_string(rng, allow) };
        match s.parse::<Uri>() {
            Ok(u) => return u,
            Err(_) => run.count("uri_string_rejected_by_http_crate"),
        }
    }
}

fn one_match(run: &mut Run, rng: &mut Rng) {
    let pat = gen_pattern(rng);
    let allow = Some(vec![pat.clone()]);
    let uri = parse_uri(rng, &allow, run);
    let p = HostPattern::new(&pat);
    let lc = serde_json::to_value(&p).ok().and_then(|v| v.as_str().map(|s| s.to_string())).unwrap_or_default();
    let req = format!("C26 match pat={} {}", hx(pat.as_bytes()), uri_fields(&uri));
    let m = guarded(std::panic::AssertUnwindSafe(|| p.matches(&uri)));
    match m {
        Ok(m) => {
            if m {
                run.nontrivial(req.clone());
            }
            run.count(if m { "match_yes" } else { "match_no" });
            let idx = run.case(req, format!("{} lc={}", bool_str(m), hx(lc.as_bytes())));
            let port = uri.port();
            let spec = spec_pattern_allows(&pat, uri.scheme_str(), uri.host(), port.as_ref().map(|p| p.as_str()));
            if m && !spec {
                run.fail(idx, "match-outside-documented-rule", format!("pattern {pat:?} matches {uri} which the documented rule does not admit"));
            }
            if m && spec && !strict_pattern_allows(&pat, uri.scheme_str(), uri.host(), port.as_ref().map(|p| p.as_str())) {
                run.count("match_by_degenerate_case");
            }
        }
        Err(e) => {
            let idx = run.case(req, "panic".to_string());
            run.fail(idx, "panic", format!("HostPattern::matches panicked: {e} (pattern {pat:?}, uri {uri})"));
        }
    }
}

/// The documented rule read strictly (non-empty label in place of `*`, non-empty suffix); used only
/// to count matches that hold by the degenerate cases pinned in Props/C26.lean (`matches_exact`).
fn strict_pattern_allows(pattern: &str, scheme: Option<&str>, host: Option<&str>, port: Option<&str>) -> bool {
    if !spec_pattern_allows(pattern, scheme, host, port) {
        return false;
    }
    let p = pattern.to_ascii_lowercase();
    let rest = p.strip_prefix("https://").or_else(|| p.strip_prefix("http://")).unwrap_or(&p);
    let phost = rest.rfind(':').map(|i| &rest[..i]).unwrap_or(rest);
    match (phost.strip_prefix("*."), host) {
        (Some(suffix), Some(h)) => !suffix.is_empty() && h.len() > suffix.len() + 1,
        _ => true,
    }
}

/// The degenerate / surprising pattern texts pinned as theorems in Props/C26.lean, replayed on
/// `HostPattern::new` / `matches` (the model answers the same request lines).
fn pinned_matches(run: &mut Run) {
    let cases: [(&str, &str, bool); 11] = [
        ("*.", "https://evil.com./", true),
        ("*.", "https://evil.com/", false),
        ("*.example.org", "https://.example.org/", true),
        ("*.example.org", "https://example.org/", false),
        ("*.example.org", "https://fakeexample.org/", false),
        ("[::1]", "https://[::1]/", false),
        ("[::1]", "https://[::1]:8080/", false),
        ("[::1]:8080", "https://[::1]:8080/", true),
        ("example.org", "https://example.org./", false),
        ("example.org:", "https://example.org/", false),
        ("HTTPS://Cdn.Example.net:8443", "https://cdn.example.NET:8443/x", true),
    ];
    let mut ok = true;
    for (pat, uri, expect) in cases {
        let Ok(u) = uri.parse::<Uri>() else {
            run.notes.push(format!("pinned URI {uri} rejected by the http crate"));
            ok = false;
            continue;
        };
        let p = HostPattern::new(pat);
        let lc = serde_json::to_value(&p).ok().and_then(|v| v.as_str().map(|s| s.to_string())).unwrap_or_default();
        let m = p.matches(&u);
        let req = format!("C26 match pat={} {}", hx(pat.as_bytes()), uri_fields(&u));
        run.nontrivial(req.clone());
        run.case(req, format!("{} lc={}", bool_str(m), hx(lc.as_bytes())));
        if m != expect {
            ok = false;
            run.notes.push(format!("pinned fact changed: {pat:?} matches {uri} = {m}, pinned {expect}"));
        }
    }
    run.obligations.insert("pinned-pattern-facts".to_string(), ok);
}

fn one_allowed(run: &mut Run, rng: &mut Rng) {
    let allow = match gen_allow(rng) {
        None => Some(vec![gen_pattern(rng)]),
        a => a,
    };
    let uri = parse_uri(rng, &allow, run);
    let pats = patterns(allow.as_ref().unwrap());
    let req = format!("C26 allowed allow={} {}", allow_enc(&allow), uri_fields(&uri));
    match guarded(std::panic::AssertUnwindSafe(|| hook::is_uri_allowed(&pats, &uri))) {
        Ok(a) => {
            if a {
                run.nontrivial(req.clone());
            }
            run.count(if a { "allowed_yes" } else { "allowed_no" });
            let idx = run.case(req, bool_str(a).to_string());
            if a && !spec_allows(allow.as_ref().unwrap(), &uri) {
                run.fail(idx, "match-outside-documented-rule", format!("{uri} allowed by {:?} against the documented rule", allow));
            }
        }
        Err(e) => {
            let idx = run.case(req, "panic".to_string());
            run.fail(idx, "panic", format!("is_uri_allowed panicked: {e}"));
        }
    }
}

fn one_restrict(run: &mut Run, rng: &mut Rng) {
    let allow = gen_allow(rng);
    let uri = parse_uri(rng, &allow, run);
    let (t, seen) = Scripted::new(vec![Reply::Resp { status: 200, locations: vec![] }]);
    let resolver = match &allow {
        Some(v) if rng.chance(1, 2) => RestrictedResolver::with_allowed_hosts(t, patterns(v)),
        a => {
            let mut r = RestrictedResolver::new(t);
            r.set_allowed_hosts(a.as_ref().map(|v| patterns(v)));
            r
        }
    };
    let request = Request::get(uri.clone()).body(vec![]).expect("request");
    let req = format!("C26 restrict allow={} u={}", allow_enc(&allow), uri_enc(&uri));
    let res = guarded(std::panic::AssertUnwindSafe(|| result_class(&resolver.http_resolve(request))));
    let n = seen.lock().unwrap().len();
    match res {
        Ok(class) => {
            run.count(&format!("restrict_{}", if class.starts_with("ok") { "passed" } else { "refused" }));
            if allow.is_some() {
                run.nontrivial(req.clone());
            }
            let idx = run.case(req, format!("{class} n={n}"));
            if let Some(v) = &allow {
                let ok = spec_allows(v, &uri);
                if n > 0 && !ok {
                    run.fail(idx, "disallowed-request-reached-transport", format!("{uri} reached the transport; allow-list {v:?}"));
                }
                if !ok && class != "uri-disallowed" {
                    run.fail(idx, "refusal-not-uri-disallowed", format!("{uri} is outside {v:?} but the result is {class}"));
                }
            }
        }
        Err(e) => {
            let idx = run.case(req, "panic".to_string());
            run.fail(idx, "panic", format!("RestrictedResolver::http_resolve panicked: {e}"));
        }
    }
}

/// Runs one chain through the hook stack; returns (result class, requests seen by the transport).
fn run_stack(c: &ChainCase) -> Result<(String, Vec<Seen>), String> {
    let (t, seen) = Scripted::new(c.script.clone());
    let pats = c.allow.as_ref().map(|v| patterns(v));
    let request = c.request();
    let redirects = c.redirects;
    let async_mode = c.async_mode;
    let class = guarded(std::panic::AssertUnwindSafe(move || {
        if async_mode {
            let stack = hook::default_async_stack(t, pats, redirects);
            result_class(&block_on(stack.http_resolve_async(request)))
        } else {
            let stack = hook::default_sync_stack(t, pats, redirects);
            result_class(&stack.http_resolve(request))
        }
    }))?;
    let s = seen.lock().unwrap().clone();
    Ok((class, s))
}

/// The property evaluated on what the implementation did (independent of the model).
fn chain_oracle(run: &mut Run, idx: usize, c: &ChainCase, uris: &[Uri], hops: &[Hop], class: &str, seen: &[Seen]) {
    let Some(allow) = &c.allow else {
        return;
    };
    for s in seen {
        if !spec_allows(allow, &s.uri) {
            run.fail(idx, "disallowed-request-reached-transport", format!("{} reached the transport; allow-list {allow:?}", s.uri));
            return;
        }
    }
    // the attempt that follows the last transport call
    let k = seen.len();
    let attempt_exists = if k == 0 {
        true
    } else {
        // hop k-1 answered with a followable redirect to uris[k], which is not an internal host
        c.redirects
            && k < 11
            && k < uris.len()
            && matches!(hops.get(k - 1).map(|h| &h.join), Some(JoinRes::Ok(_)))
            && uris[k].host().map(|h| spec_internal_host(h).is_none()).unwrap_or(false)
    };
    if class == "uri-disallowed" {
        let refused_is_outside = k < uris.len() && !spec_allows(allow, &uris[k]);
        if !refused_is_outside {
            run.fail(idx, "uri-disallowed-for-allowed-uri", format!("uri-disallowed although hop {k} ({:?}) matches {allow:?}", uris.get(k).map(|u| u.to_string())));
        }
    } else if attempt_exists && k < uris.len() && !spec_allows(allow, &uris[k]) && class != "target-disallowed" {
        run.fail(idx, "refusal-not-uri-disallowed", format!("hop {k} ({}) is outside {allow:?} but the result is {class}", uris[k]));
    }
}

fn one_chain(run: &mut Run, rng: &mut Rng) {
    let allow = gen_allow(rng);
    let friendly = friendly_hosts(rng, &allow);
    let uri = parse_uri_biased(rng, &allow, run, 80);
    let len = match rng.below(10) {
        0 => 0,
        1 | 2 => 1,
        3 | 4 => 2,
        5 => 3,
        6 => rng.range(4, 9) as usize,
        _ => rng.range(10, 12) as usize,
    };
    let c = ChainCase {
        allow,
        redirects: !rng.chance(1, 8),
        method: rng.pick(&["GET", "GET", "POST", "HEAD", "PUT"]).to_string(),
        uri,
        headers: gen_headers(rng),
        body: rng.bytes(rng.clone().below(4) as usize),
        script: gen_script(rng, len, &friendly, 15),
        async_mode: rng.chance(1, 3),
    };
    chain_case(run, &c, "chain");
}

fn chain_case(run: &mut Run, c: &ChainCase, tag: &str) {
    let (uris, hops) = plan(&c.uri, &c.script);
    let req = format!("C26 chain {}", c.line(&hops));
    match run_stack(c) {
        Ok((class, seen)) => {
            run.count(&format!("{tag}_result_{}", class.split(':').next().unwrap()));
            run.count(&format!("{tag}_transport_calls_{:02}", seen.len()));
            if c.allow.is_some() && (seen.len() >= 2 || (class == "uri-disallowed" && !seen.is_empty())) {
                // the allow-list decided a redirect hop
                run.nontrivial(req.clone());
            }
            if class == "uri-disallowed" {
                run.count(&format!("{tag}_refused_at_hop_{:02}", seen.len()));
            }
            let idx = run.case(req, format!("{class} n={} t={}", seen.len(), trace_enc(&seen)));
            chain_oracle(run, idx, c, &uris, &hops, &class, &seen);
        }
        Err(e) => {
            let idx = run.case(req, "panic".to_string());
            run.fail(idx, "panic", format!("resolver stack panicked: {e}"));
        }
    }
}

/// Hand-written chains that pin the corner cases every run.
fn fixed_chains(run: &mut Run) {
    let r = |loc: &str| Reply::Resp { status: 302, locations: vec![loc.as_bytes().to_vec()] };
    let ok = Reply::Resp { status: 200, locations: vec![] };
    let mk = |allow: Option<Vec<&str>>, redirects: bool, uri: &str, script: Vec<Reply>, async_mode: bool| ChainCase {
        allow: allow.map(|v| v.into_iter().map(|s| s.to_string()).collect()),
        redirects,
        method: "GET".into(),
        uri: uri.parse().unwrap(),
        headers: vec![("Authorization".into(), b"secret".to_vec()), ("accept".into(), b"x".to_vec())],
        body: vec![],
        script,
        async_mode,
    };
    for a in [false, true] {
        let cases = vec![
            mk(Some(vec!["example.org"]), true, "https://example.org/a", vec![r("https://evil.example.com/x"), ok.clone()], a),
            mk(Some(vec!["example.org"]), true, "https://example.org/a", vec![r("/b"), r("https://example.org:8443/c"), ok.clone()], a),
            mk(Some(vec!["*.example.org"]), true, "https://a.example.org/", vec![r("https://example.org/"), ok.clone()], a),
            mk(Some(vec!["*.example.org"]), true, "https://a.example.org/", vec![r("https://b.a.example.org/"), r("http://.example.org/"), ok.clone()], a),
            mk(Some(vec!["https://example.org"]), true, "https://example.org/", vec![r("http://example.org/"), ok.clone()], a),
            mk(Some(vec!["example.org"]), true, "https://example.org/", vec![r("https://example.org@evil.example.com/"), ok.clone()], a),
            mk(Some(vec!["example.org"]), true, "https://example.org/", vec![r("https://evil.example.com/#@example.org"), ok.clone()], a),
            mk(Some(vec!["example.org"]), true, "https://example.org/", vec![r("https://EXAMPLE.ORG./"), ok.clone()], a),
            mk(Some(vec![]), true, "https://example.org/", vec![ok.clone()], a),
            mk(None, true, "https://example.org/", vec![r("https://anything.example.net/"), ok.clone()], a),
            mk(Some(vec!["example.org"]), false, "https://example.org/", vec![r("https://example.org/x"), ok.clone()], a),
            mk(Some(vec!["example.org"]), true, "https://example.org/", (0..12).map(|i| r(&format!("/{i}"))).collect(), a),
            mk(Some(vec!["127.0.0.1"]), true, "http://127.0.0.1/", vec![r("/again"), ok.clone()], a),
            mk(Some(vec!["example.org"]), true, "example.org", vec![r("https://example.org/"), ok.clone()], a),
        ];
        for c in &cases {
            chain_case(run, c, "fixed");
        }
    }
}

// ---------------------------------------------------------------- real Context over loopback

/// The real `Context::resolver()` (built by `build_default_sync_resolver` from the settings)
/// against a loopback server: allow-list and redirect follower must be stacked as in the model.
/// Every case ends without leaving the machine: the hop after the loopback server is always
/// refused by one of the two layers.
fn context_cases(run: &mut Run) {
    let Some(mut lb) = loopback() else {
        run.notes.push("loopback listener unavailable: real-Context cases skipped".to_string());
        run.obligations.insert("context-stack-over-loopback".to_string(), false);
        return;
    };
    let me = format!("127.0.0.1:{}", lb.port);
    let base = format!("http://{me}");
    let red = |loc: &str| format!("{base}/r/{}", hex::encode(loc));
    let ok200 = || vec![Reply::Resp { status: 200, locations: vec![] }];
    let cases: Vec<(Option<Vec<String>>, bool, String, Vec<Reply>)> = vec![
        (Some(vec![me.clone()]), true, format!("{base}/ok"), vec![Reply::Resp { status: 200, locations: vec![] }]),
        (Some(vec![me.clone()]), true, red("http://93.184.216.34/x"), vec![Reply::Resp { status: 302, locations: vec![b"http://93.184.216.34/x".to_vec()] }]),
        (Some(vec![me.clone()]), true, red("https://outside.example.com/"), vec![Reply::Resp { status: 302, locations: vec![b"https://outside.example.com/".to_vec()] }]),
        (Some(vec!["example.org".to_string()]), true, format!("{base}/ok"), vec![]),
        (Some(vec![]), true, format!("{base}/ok"), vec![]),
        (Some(vec![me.clone()]), true, red("/ok"), vec![Reply::Resp { status: 302, locations: vec![b"/ok".to_vec()] }]),
        (Some(vec![me.clone()]), false, red("https://outside.example.com/"), vec![Reply::Resp { status: 302, locations: vec![b"https://outside.example.com/".to_vec()] }]),
        (None, true, red(&format!("{base}/ok")), vec![Reply::Resp { status: 302, locations: vec![format!("{base}/ok").into_bytes()] }]),
        (None, false, red("https://outside.example.com/"), vec![Reply::Resp { status: 302, locations: vec![b"https://outside.example.com/".to_vec()] }]),
        (None, true, format!("{base}/ok"), vec![Reply::Resp { status: 200, locations: vec![] }]),
        // the host `http::Uri::host()` reports is the host the client connects to: userinfo that
        // looks like an allowed host does not get a request through, an allowed host behind
        // userinfo is reached
        (Some(vec!["example.org".to_string()]), true, format!("http://example.org@{me}/ok"), vec![]),
        (Some(vec!["example.org".to_string()]), true, format!("http://example.org:443@{me}/ok"), vec![]),
        (Some(vec![me.clone()]), true, format!("http://{me}@example.org/ok"), vec![]),
        (Some(vec![me.clone()]), true, format!("http://user:pw@{me}/ok"), ok200()),
        (Some(vec![format!("{me}")]), true, format!("http://{}/ok", me.replace("127.0.0.1", "127.0.0.1.")), vec![]),
    ];
    let mut all_ok = true;
    let cases: Vec<_> = [false, true].into_iter().flat_map(|a| cases.iter().cloned().map(move |c| (a, c))).collect();
    for (async_mode, (allow, redirects, uri, script)) in cases {
        let mut core = serde_json::json!({ "allow_redirects": redirects });
        if let Some(v) = &allow {
            core["allowed_network_hosts"] = serde_json::json!(v);
        }
        let settings = serde_json::json!({ "core": core }).to_string();
        let ctx = match Context::new().with_settings(settings.as_str()) {
            Ok(c) => c,
            Err(e) => {
                run.notes.push(format!("settings rejected: {e}"));
                all_ok = false;
                continue;
            }
        };
        let u: Uri = uri.parse().expect("uri");
        let c = ChainCase { allow: allow.clone(), redirects, method: "GET".into(), uri: u.clone(), headers: vec![], body: vec![], script, async_mode };
        let (uris, hops) = plan(&c.uri, &c.script);
        lb.take();
        let request = Request::get(u).body(vec![]).expect("request");
        let class = result_class(&ctx_resolve(&ctx, request, async_mode));
        let n = lb.take().len();
        let req = format!("C26 ctx {}", c.line(&hops));
        run.count(&format!("ctx_{}_result_{}", if async_mode { "async" } else { "sync" }, class.split(':').next().unwrap()));
        run.nontrivial(req.clone());
        let idx = run.case(req, format!("{class} n={n}"));
        if let Some(v) = &allow {
            if n > 0 && (v.is_empty() || !spec_allows(v, &c.uri)) {
                run.fail(idx, "disallowed-request-reached-transport", format!("Context::{} delivered {} request(s) for {} although core.allowed_network_hosts = {v:?}", if async_mode { "resolver_async()" } else { "resolver()" }, n, c.uri));
            }
            // a redirect hop outside the list must end in one of the three refusals; anything else
            // (a response, or a transport error from an attempted connection) means it was sent
            if uris.len() > 1
                && !spec_allows(v, &uris[1])
                && !["uri-disallowed", "target-disallowed", "redirect-disallowed"].contains(&class.as_str())
            {
                run.fail(idx, "disallowed-request-reached-transport", format!("Context resolver did not refuse the redirect to {} outside {v:?} (result {class})", uris[1]));
            }
        }
        if let Some(v) = &allow {
            if spec_allows(v, &c.uri) && n == 0 {
                // admitted by the rule on `Uri::host()` but the client did not reach this listener
                all_ok = false;
                run.notes.push(format!("{} is admitted by {v:?} but no request arrived at the listener (result {class})", c.uri));
            }
        }
        if class == "unexpected" || class == "io" {
            all_ok = false;
        }
    }
    site_cases(run, &lb);
    lb.shutdown();
    run.obligations.insert("context-stack-over-loopback".to_string(), all_ok);
}

/// "Every request": the request sites of the SDK that do not use the caller's Context
/// (`Model/C26.lean`, `Site`), driven on the real code against the loopback listener under a
/// configured allow-list. The property: no request arrives whose URI the list does not admit.
fn site_cases(run: &mut Run, lb: &Loopback) {
    let me = format!("127.0.0.1:{}", lb.port);
    let lists: Vec<Option<Vec<String>>> = vec![Some(vec![]), Some(vec!["example.org".to_string()]), Some(vec![me.clone()]), None];
    let mut ran = 0;
    for (kind, async_mode) in [(SiteKind::Ctx, false), (SiteKind::Ctx, true), (SiteKind::Tsa, false), (SiteKind::Remote, false)] {
        for allow in &lists {
            for (url, script) in [
                (format!("{}/site", lb.base()), vec![Reply::Resp { status: 200, locations: vec![] }]),
            ] {
                let u: Uri = url.parse().expect("uri");
                let c = ChainCase { allow: allow.clone(), redirects: true, method: "POST".into(), uri: u.clone(), headers: vec![], body: vec![], script, async_mode };
                let (_, hops) = plan(&c.uri, &c.script);
                let req = format!("C26 site kind={} {}", kind.tag(), c.line(&hops));
                match run_site(lb, kind, allow, true, &url, async_mode) {
                    Ok((class, hits)) => {
                        ran += 1;
                        run.count(&format!("site_{}_{}_{}", kind.tag(), if async_mode { "async" } else { "sync" }, class));
                        run.nontrivial(req.clone());
                        let idx = run.case(req, format!("{class} n={}", hits.len()));
                        if let Some(v) = allow {
                            for h in &hits {
                                let outside = v.is_empty() || hit_uri(lb, h).map(|u| !spec_allows(v, &u)).unwrap_or(true);
                                if outside {
                                    let cls = match kind {
                                        SiteKind::Ctx => "disallowed-request-reached-transport",
                                        SiteKind::Tsa => "signer-timestamp-request-ignores-allow-list",
                                        SiteKind::Remote => "remote-signer-ignores-allow-list",
                                    };
                                    run.fail(idx, cls, format!("with core.allowed_network_hosts = {v:?} the {} request `{h}` to {url} reached the listener", kind.tag()));
                                    break;
                                }
                            }
                        }
                    }
                    Err(e) => {
                        run.notes.push(format!("site case {} not run: {e}", kind.tag()));
                    }
                }
            }
        }
    }
    run.obligations.insert("request-sites-driven-over-loopback".to_string(), ran == 16);
}

/// `build_default_{sync,async}_resolver` must still be the wrapper stack the hook mirrors.
fn source_obligations(run: &mut Run) {
    let src = std::fs::read_to_string("/repo/sdk/src/context.rs").unwrap_or_default();
    let squeeze = |s: &str| s.split_whitespace().collect::<Vec<_>>().join(" ");
    for (name, client) in [("build_default_sync_resolver", "SyncGenericResolver::new()"), ("build_default_async_resolver", "AsyncGenericResolver::new()")] {
        let body = src
            .split(&format!("fn {name}(&self)"))
            .nth(1)
            .and_then(|rest| rest.split("\n    }\n").next())
            .map(squeeze)
            .unwrap_or_default();
        let expect = squeeze(&format!(
            "{{ let core = &self.settings.core; let client = {client}; \
             if let Some(allowed_hosts) = core.allowed_network_hosts.clone() {{ \
             let mut restricted = RestrictedResolver::new(client); \
             restricted.set_allowed_hosts(Some(allowed_hosts)); \
             Arc::new(RedirectResolver::new(restricted, core.allow_redirects)) \
             }} else {{ Arc::new(RedirectResolver::new(client, core.allow_redirects)) }}"
        ));
        let got = body.split_once('{').map(|x| format!("{{{}", x.1)).unwrap_or_default();
        let ok = got == expect;
        if !ok {
            run.notes.push(format!("{name} is no longer the stack mirrored by verif_hooks::c26: {got}"));
        }
        run.obligations.insert(format!("hook-mirrors-{name}"), ok);
    }
}

pub fn run(run: &mut Run, rng: &mut Rng) {
    run.rule = "patterns from a grammar (scheme? host|*.host port?, odd shapes) and URIs built near a pattern of the list (exact, sub-domain, sibling prefix, leading/trailing dot, case, userinfo, wrong/missing port, other scheme, authority/origin form); chains of 0–12 redirects through the default stack with Location values aimed at allowed / outside / internal hosts. Non-trivial: a match that holds, an allow-list decision on a redirect hop (≥2 transport calls or a refusal after the first hop), every restrict case with a list, every real-Context case; distinct by request text".to_string();
    source_obligations(run);
    pinned_matches(run);
    fixed_chains(run);
    context_cases(run);
    let scale = if run.thorough() { 40 } else { 1 };
    for _ in 0..20_000 * scale {
        let mut r = rng.fork();
        one_match(run, &mut r);
    }
    for _ in 0..6_000 * scale {
        let mut r = rng.fork();
        one_allowed(run, &mut r);
    }
    for _ in 0..4_000 * scale {
        let mut r = rng.fork();
        one_restrict(run, &mut r);
    }
    for _ in 0..15_000 * scale {
        let mut r = rng.fork();
        one_chain(run, &mut r);
    }
}
