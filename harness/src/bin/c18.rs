//! C18 — JUMBF manifest stores round-trip canonically.
//!
//! Request lines (answered by lean/Drv/C18.lean, see the protocol comment in Model/C18.lean):
//!   C18 parse data=<hex>   real `BoxReader::read_super_box` on `Cursor::new(data)`, canonical dump of
//!                          the tree, re-serialisation with the real `write_box`, second pass
//!   C18 tree t=<tree>      the tree is built from the real box types, written with `write_box`,
//!                          then as `parse`
//!
//! Property oracle on the implementation (independent of the model):
//!   store-identity / store-fixed-point   `Store::from_jumbf_with_context` → `to_jumbf_internal` on stores the
//!        SDK produced (byte identity) and on every accepted mutant (second pass is a fixed point)
//!   box-fixed-point    `BoxReader` accepts x, the tree has none of the listed quirks ⇒ write → read → write is
//!        the identity on the written bytes
//!   box-parse-ser      generated well-formed trees: read(write(t)) dumps as t
//!   depth              accepted trees nest ≤ 32, panic / hang (watchdog) never

use std::{io::Cursor, sync::mpsc, time::Duration};

use c2pa::{status_tracker::StatusTracker, verif_hooks::c18 as hook, Builder, BuilderIntent, Context, EphemeralSigner};
use hook::{BMFFBox, BoxReader, JUMBFSuperBox};
use vh::common::{fixtures, hex, main_with, Rng, Run};

fn main() {
    let args: Vec<String> = std::env::args().collect();
    if args.len() >= 3 && args[1] == "replay" {
        // c18 replay <file with hex>: print what the implementation does with these bytes
        let x = vh::common::unhex(std::fs::read_to_string(&args[2]).expect("read").trim());
        println!("box level: {}", impl_parse(&x).reply);
        let ctx = Context::new();
        match hook::from_jumbf_with_context(&x, &mut StatusTracker::default(), &ctx) {
            Err(e) => println!("from_jumbf: {e:?}"),
            Ok(s) => match hook::to_jumbf_internal(&s, 0) {
                Err(e) => println!("to_jumbf_internal: {e:?}"),
                Ok(y) => {
                    println!("re-serialised {} bytes (input {}), identical: {}", y.len(), x.len(), y == x);
                    println!("second pass box level: {}", impl_parse(&y).reply);
                    match hook::from_jumbf_with_context(&y, &mut StatusTracker::default(), &ctx) {
                        Err(e) => println!("second from_jumbf: {e:?}"),
                        Ok(s2) => println!("second to_jumbf identical: {:?}", hook::to_jumbf_internal(&s2, 0).map(|y2| y2 == y)),
                    }
                }
            },
        }
        return;
    }
    main_with("C18", run);
}

// ---------------------------------------------------------------------------------------------
// watchdog: a call that does not return within the budget is a `hang`, a panic is a `panic`
// ---------------------------------------------------------------------------------------------

enum Out<T> {
    Done(T),
    Panic(String),
    Hang,
}

fn watched<T: Send + 'static>(secs: u64, f: impl FnOnce() -> T + Send + 'static) -> Out<T> {
    let (tx, rx) = mpsc::channel();
    std::thread::Builder::new()
        .stack_size(16 << 20)
        .spawn(move || {
            let r = std::panic::catch_unwind(std::panic::AssertUnwindSafe(f));
            let _ = tx.send(r);
        })
        .expect("spawn");
    match rx.recv_timeout(Duration::from_secs(secs)) {
        Ok(Ok(v)) => Out::Done(v),
        Ok(Err(e)) => Out::Panic(
            e.downcast_ref::<&str>().map(|s| s.to_string()).or_else(|| e.downcast_ref::<String>().cloned()).unwrap_or_else(|| "panic".into()),
        ),
        Err(_) => Out::Hang,
    }
}

// ---------------------------------------------------------------------------------------------
// canonical dump of the implementation's tree
// ---------------------------------------------------------------------------------------------

fn fnv(b: &[u8]) -> u64 {
    let mut h: u64 = 14695981039346656037;
    for x in b {
        h = (h ^ (*x as u64)).wrapping_mul(1099511628211);
    }
    h
}

fn len_fnv(b: &[u8]) -> String {
    format!("{}:{}", b.len(), fnv(b))
}

fn written(b: &dyn BMFFBox) -> Vec<u8> {
    let mut v = vec![];
    b.write_box(&mut v).expect("write to vec");
    v
}

fn written_payload(b: &dyn BMFFBox) -> Vec<u8> {
    let mut v = vec![];
    b.write_box_payload(&mut v).expect("write to vec");
    v
}

#[derive(Default, Clone, Debug)]
struct Shape {
    depth: usize,
    boxes: usize,
    empty_super: bool,
    empty_uuid: bool,
    bfdb_grows: bool,
    salts: usize,
    kinds: std::collections::BTreeSet<String>,
}

fn dump_super(sb: &JUMBFSuperBox, depth: usize, sh: &mut Shape) -> String {
    sh.depth = sh.depth.max(depth);
    sh.boxes += 1;
    if sb.desc_box().get_salt().is_some() {
        sh.salts += 1;
    }
    let mut s = format!("S{}[", hex(&written(sb.desc_box())));
    let n = sb.data_box_count();
    if n == 0 {
        sh.empty_super = true;
    }
    for i in 0..n {
        if i > 0 {
            s.push(',');
        }
        if let Some(c) = sb.data_box_as_superbox(i) {
            s.push_str(&dump_super(c, depth + 1, sh));
            continue;
        }
        sh.boxes += 1;
        let b = sb.data_box(i).expect("index in range");
        let ty = String::from_utf8_lossy(b.box_type()).to_string();
        sh.kinds.insert(ty.clone());
        let psize = b.box_payload_size().expect("payload size");
        let pl = written_payload(b);
        if let Some(m) = sb.data_box_as_embedded_media_type_box(i) {
            let fname = m.file_name().map(|f| hex(f.as_bytes())).unwrap_or_else(|| "-".into());
            s.push_str(&format!("bfdb:{}:{}:{}:{}", psize, hex(&pl), hex(m.media_type().as_bytes()), fname));
            if pl.len() >= 2 && pl[0] == 1 && pl[1..pl.len() - 1].contains(&0) {
                sh.bfdb_grows = true;
            }
        } else {
            if let Some(u) = sb.data_box_as_uuid_box(i) {
                if u.data().is_empty() {
                    sh.empty_uuid = true;
                }
            }
            s.push_str(&format!("{}:{}:{}", ty, psize, len_fnv(&pl)));
        }
    }
    s.push(']');
    s
}

fn err_class(e: &hook::JumbfParseError) -> String {
    let d = format!("{e:?}");
    d.chars().take_while(|c| c.is_ascii_alphanumeric()).collect()
}

struct Parsed {
    reply: String,
    /// Some(..) when the reader accepted
    shape: Option<Shape>,
    /// bytes written from the accepted tree
    ser: Vec<u8>,
    /// second pass: Some(bytes written from the re-read tree) when the re-serialisation was accepted
    ser2: Option<Vec<u8>>,
    second_err: Option<String>,
}

fn read_at(x: &[u8]) -> (Result<JUMBFSuperBox, hook::JumbfParseError>, u64) {
    let mut c = Cursor::new(x);
    let r = BoxReader::read_super_box(&mut c);
    (r, c.position())
}

fn impl_parse(x: &[u8]) -> Parsed {
    let (r, end) = read_at(x);
    match r {
        Err(e) => Parsed { reply: format!("err {}", err_class(&e)), shape: None, ser: vec![], ser2: None, second_err: None },
        Ok(sb) => {
            let mut sh = Shape::default();
            let dump = dump_super(&sb, 1, &mut sh);
            let y = written(&sb);
            let size = sb.box_size().expect("box size");
            let (r2, end2) = read_at(&y);
            let (re, ser2, second_err) = match r2 {
                Ok(sb2) => {
                    let mut sh2 = Shape::default();
                    let dump2 = dump_super(&sb2, 1, &mut sh2);
                    let y2 = written(&sb2);
                    if dump2 == dump && end2 as usize == y.len() {
                        ("same".to_string(), Some(y2), None)
                    } else {
                        (format!("ok:{end2}:{dump2}"), Some(y2), None)
                    }
                }
                Err(e) => (format!("err:{}", err_class(&e)), None, Some(err_class(&e))),
            };
            Parsed {
                reply: format!("ok end={end} size={size} tree={dump} ser={} re={re}", len_fnv(&y)),
                shape: Some(sh),
                ser: y,
                ser2,
                second_err,
            }
        }
    }
}

// ---------------------------------------------------------------------------------------------
// generated trees
// ---------------------------------------------------------------------------------------------

#[derive(Clone, Debug)]
enum T {
    S { uuid: [u8; 16], togs: u8, label: Vec<u8>, id: Option<u32>, sig: Option<[u8; 32]>, salt: Option<Vec<u8>>, kids: Vec<T> },
    L(char, Vec<u8>),
    U([u8; 16], Vec<u8>),
    M(u8, Vec<u8>, Option<Vec<u8>>),
}

fn oh(b: &Option<Vec<u8>>) -> String {
    b.as_ref().map(|v| hex(v)).unwrap_or_else(|| "~".into())
}

fn t_text(t: &T) -> String {
    match t {
        T::S { uuid, togs, label, id, sig, salt, kids } => format!(
            "S({};{};{};{};{};{})[{}]",
            hex(uuid),
            togs,
            hex(label),
            id.map(|v| v.to_string()).unwrap_or_else(|| "-".into()),
            sig.map(|s| hex(&s)).unwrap_or_else(|| "~".into()),
            oh(salt),
            kids.iter().map(t_text).collect::<Vec<_>>().join(",")
        ),
        T::L(k, d) => format!("L{k}({})", hex(d)),
        T::U(u, d) => format!("U({};{})", hex(u), hex(d)),
        T::M(t, m, f) => format!("M({};{};{})", t, hex(m), oh(f)),
    }
}

fn t_build_super(t: &T) -> JUMBFSuperBox {
    match t {
        T::S { uuid, togs, label, id, sig, salt, kids } => {
            let d = hook::JUMBFDescriptionBox::from(uuid, *togs, label.clone(), *id, *sig, salt.clone().map(hook::CAISaltContentBox::new));
            let mut sb = JUMBFSuperBox::from(d);
            for k in kids {
                sb.add_data_box(t_build(k));
            }
            sb
        }
        _ => unreachable!("top level is a super box"),
    }
}

fn t_build(t: &T) -> Box<dyn BMFFBox> {
    match t {
        T::S { .. } => Box::new(t_build_super(t)),
        T::L('j', d) => Box::new(hook::JUMBFJSONContentBox::new(d.clone())),
        T::L('c', d) => Box::new(hook::JUMBFCBORContentBox::new(d.clone())),
        T::L('f', d) => Box::new(hook::JUMBFPaddingContentBox::new_with_vec(d.clone())),
        T::L('p', d) => Box::new(hook::JUMBFCodestreamContentBox::new(d.clone())),
        T::L('b', d) => Box::new(hook::JUMBFBrotliContentBox::new(d.clone())),
        T::L(_, d) => Box::new(hook::JUMBFEmbeddedFileContentBox::new(d.clone())),
        T::U(u, d) => Box::new(hook::JUMBFUUIDContentBox::new(u, d.clone())),
        T::M(t, m, f) => Box::new(hook::JUMBFEmbeddedFileDescriptionBox::from(*t, m.clone(), f.clone())),
    }
}

const LEAF_KINDS: [char; 6] = ['j', 'c', 'f', 'p', 'b', 'd'];

fn gen_label(r: &mut Rng, wf: bool) -> Vec<u8> {
    let ascii = |r: &mut Rng, n: usize| -> Vec<u8> { (0..n).map(|_| *r.pick(b"abcxyz.019_-ACZ")).collect() };
    match r.below(if wf { 4 } else { 7 }) {
        0 => ascii(r, 1),
        1 | 2 => { let n = r.range(1, 12) as usize; ascii(r, n) }
        3 => {
            // multi-byte UTF-8
            let parts: Vec<&[u8]> = vec![b"\xc3\xa9", b"\xe2\x82\xac", b"\xf0\x9f\x98\x80", b"\xe0\xa0\x80", b"\xed\x9f\xbf", b"\xf4\x8f\xbf\xbf"];
            let n0 = r.below(3) as usize;
            let mut v = ascii(r, n0);
            for _ in 0..r.range(1, 3) {
                v.extend_from_slice(*r.pick(&parts[..]));
            }
            v
        }
        4 => vec![],
        5 => {
            // invalid UTF-8 (overlong, surrogate, stray continuation, truncated, > U+10FFFF)
            let bad: Vec<&[u8]> = vec![b"\xc0\xaf", b"\xed\xa0\x80", b"\x80", b"\xe2\x82", b"\xf4\x90\x80\x80", b"\xff", b"\xc1\xbf", b"\xf0\x8f\xbf\xbf"];
            let n0 = r.below(3) as usize;
            let mut v = ascii(r, n0);
            v.extend_from_slice(*r.pick(&bad[..]));
            let n1 = r.below(2) as usize;
            v.extend(ascii(r, n1));
            v
        }
        _ => { let n = r.range(1, 6) as usize; r.bytes(n).into_iter().map(|b| if b == 0 { 1 } else { b }).collect() }
    }
}

fn gen_media(r: &mut Rng, wf: bool) -> (u8, Vec<u8>, Option<Vec<u8>>) {
    let mts: Vec<&[u8]> = vec![b"image/png", b"image/jpeg", b"a", b"application/x-\xc3\xa9"];
    let mt = r.pick(&mts[..]).to_vec();
    if wf {
        // canonical forms only: what the reader itself would produce
        if r.chance(1, 3) { (1, mt, Some(vec![0])) } else { (*r.pick(&[0u8, 2, 0x80]), mt, None) }
    } else {
        match r.below(7) {
            0 => (1, [mt.as_slice(), b"\0name.png"].concat(), None),
            1 => (1, [mt.as_slice(), b"\0name.png\0"].concat(), None),
            2 => (r.below(3) as u8, vec![], None),
            3 => (r.below(3) as u8, b"\xff\xfe".to_vec(), None),
            4 => (0, [mt.as_slice(), b"\0"].concat(), None),
            5 => (1, mt, None),
            _ => (r.next() as u8, mt, Some(b"x".to_vec())),
        }
    }
}

/// `wf` = inside the domain of the round-trip theorem (valid, none of the quirks).
fn gen_tree(r: &mut Rng, depth: usize, wf: bool) -> T {
    let mut togs: u8 = 3;
    let id = if r.chance(1, 5) { togs |= 4; Some(*r.pick(&[0u32, 1, 7, 0x6a756d62, u32::MAX])) } else { None };
    let sig = if r.chance(1, 6) { togs |= 8; let mut s = [0u8; 32]; s.copy_from_slice(&r.bytes(32)); Some(s) } else { None };
    let salt = if r.chance(1, 3) { togs |= 16; let n = *r.pick(&[16usize, 32, 0, 1, 17]); Some(r.bytes(n)) } else { None };
    if r.chance(1, 6) {
        togs |= (r.below(8) as u8) << 5;
    }
    if !wf && r.chance(1, 10) {
        togs = r.next() as u8; // inconsistent toggles: the writer ignores them, the reader does not
    }
    let mut uuid = [0u8; 16];
    uuid.copy_from_slice(&r.bytes(16));
    let label = gen_label(r, wf);
    let nk = if depth >= 4 { r.range(1, 2) } else { r.range(if wf { 1 } else { 0 }, 4) };
    let mut kids = vec![];
    for _ in 0..nk {
        let c = r.below(10);
        let k = if c < 3 && depth < 5 {
            gen_tree(r, depth + 1, wf)
        } else if c < 7 {
            let n = *r.pick(&[0usize, 1, 2, 5, 8, 9, 24, 40]);
            T::L(*r.pick(&LEAF_KINDS), r.bytes(n))
        } else if c < 9 {
            let mut u = [0u8; 16];
            u.copy_from_slice(&r.bytes(16));
            let n = if wf { r.range(1, 20) } else { *r.pick(&[0u64, 0, 1, 8]) } as usize;
            T::U(u, r.bytes(n))
        } else {
            let (t, m, f) = gen_media(r, wf);
            T::M(t, m, f)
        };
        kids.push(k);
    }
    T::S { uuid, togs, label, id, sig, salt, kids }
}

fn chain(n: usize) -> T {
    let mut t = T::S { uuid: [7; 16], togs: 3, label: b"leaf".to_vec(), id: None, sig: None, salt: None, kids: vec![T::L('j', b"{}".to_vec())] };
    for i in 1..n {
        t = T::S { uuid: [i as u8; 16], togs: 3, label: format!("n{i}").into_bytes(), id: None, sig: None, salt: None, kids: vec![t] };
    }
    t
}

// ---------------------------------------------------------------------------------------------
// independent walker over box headers (for structure-aware mutation)
// ---------------------------------------------------------------------------------------------

fn be32(x: &[u8], o: usize) -> Option<u32> {
    x.get(o..o + 4).map(|b| u32::from_be_bytes([b[0], b[1], b[2], b[3]]))
}

/// offsets of every box header reachable by following sizes (tolerant; stops at nonsense)
fn headers(x: &[u8], start: usize, end: usize, depth: usize, out: &mut Vec<usize>) {
    let mut o = start;
    while o + 8 <= end.min(x.len()) && out.len() < 4000 {
        let size = be32(x, o).unwrap_or(0) as usize;
        out.push(o);
        if size < 8 || o + size > end {
            break;
        }
        if &x[o + 4..o + 8] == b"jumb" && depth < 40 {
            headers(x, o + 8, o + size, depth + 1, out);
        }
        o += size;
    }
}

fn mutate(r: &mut Rng, x: &[u8]) -> (Vec<u8>, &'static str) {
    let mut y = x.to_vec();
    if y.len() < 16 {
        y.extend(r.bytes(4));
        return (y, "tiny");
    }
    let mut hs = vec![];
    headers(x, 0, x.len(), 0, &mut hs);
    let fourccs: [&[u8; 4]; 14] = [b"jumb", b"jumd", b"json", b"cbor", b"free", b"jp2c", b"brob", b"uuid", b"bfdb", b"bidb", b"c2sh", b"xxxx", b"\0\0\0\0", b"jum\0"];
    let h = *r.pick(&hs);
    match r.below(16) {
        0 => {
            let i = r.below(y.len() as u64) as usize;
            y[i] ^= 1 << r.below(8);
            (y, "bitflip")
        }
        1 => {
            for _ in 0..r.range(2, 6) {
                let i = r.below(y.len() as u64) as usize;
                y[i] = r.next() as u8;
            }
            (y, "bytes")
        }
        2 => {
            let s = be32(&y, h).unwrap_or(0);
            let d = *r.pick(&[1i64, -1, 8, -8, 2, 16, -16, 7]);
            y[h..h + 4].copy_from_slice(&((s as i64 + d) as u32).to_be_bytes());
            (y, "size-delta")
        }
        3 => {
            let v = *r.pick(&[0u32, 1, 2, 7, 8, 9, 25, 26, 0x7fff_ffff, 0xffff_ffff]);
            y[h..h + 4].copy_from_slice(&v.to_be_bytes());
            (y, "size-set")
        }
        4 => {
            y[h + 4..h + 8].copy_from_slice(*r.pick(&fourccs));
            (y, "type")
        }
        5 => {
            // toggles of a jumd (header + 8 + 16)
            let cands: Vec<usize> = hs.iter().copied().filter(|&o| y.get(o + 4..o + 8) == Some(b"jumd") && o + 24 < y.len()).collect();
            if let Some(&o) = cands.get(r.below(cands.len().max(1) as u64) as usize) {
                y[o + 24] = if r.chance(1, 2) { y[o + 24] ^ (1 << r.below(8)) } else { r.next() as u8 };
            }
            (y, "toggles")
        }
        6 => {
            // a label byte
            let cands: Vec<usize> = hs.iter().copied().filter(|&o| y.get(o + 4..o + 8) == Some(b"jumd") && o + 26 < y.len()).collect();
            if let Some(&o) = cands.get(r.below(cands.len().max(1) as u64) as usize) {
                let k = r.below(4) as usize;
                if o + 25 + k < y.len() {
                    y[o + 25 + k] = *r.pick(&[0u8, 0xff, 0xc3, 0x80, b'a', 0xe2]);
                }
            }
            (y, "label")
        }
        7 => {
            let k = r.below(y.len() as u64) as usize;
            y.truncate(k);
            (y, "truncate")
        }
        8 => {
            // truncate near a header: 0..15 bytes after it
            let k = (h + r.below(16) as usize).min(y.len());
            y.truncate(k);
            (y, "truncate-header")
        }
        9 => {
            let ins: Vec<u8> = match r.below(4) {
                0 => vec![0; 8],
                1 => [&8u32.to_be_bytes()[..], *r.pick(&fourccs)].concat(),
                2 => { let n = r.range(1, 7) as usize; r.bytes(n) }
                _ => [&12u32.to_be_bytes()[..], b"json", b"{}{}"].concat(),
            };
            let at = if r.chance(1, 2) { h } else { y.len() };
            y.splice(at..at, ins);
            (y, "insert")
        }
        10 => {
            // large-size form of a header: size=1 then a 64-bit size
            let s = be32(&y, h).unwrap_or(0) as u64;
            let l: u64 = *r.pick(&[s, s + 8, 0, 8, 1 << 32, u64::MAX, (1u64 << 32) + 0x6a75_6d62, 0x0000_0001_6a75_6d62]);
            y[h..h + 4].copy_from_slice(&1u32.to_be_bytes());
            if r.chance(1, 2) {
                y.splice(h + 8..h + 8, l.to_be_bytes());
            } else if h + 16 <= y.len() {
                y[h + 8..h + 16].copy_from_slice(&l.to_be_bytes());
            }
            (y, "large-size")
        }
        11 => {
            // grow the outermost size (the reader then runs into the end of data)
            let s = be32(&y, 0).unwrap_or(0);
            y[0..4].copy_from_slice(&(s.wrapping_add(r.range(1, 64) as u32)).to_be_bytes());
            let n = r.below(12) as usize;
            y.extend(r.bytes(n));
            (y, "outer-grow")
        }
        12 => {
            // trailing partial header 1..7 bytes, outer size covering it
            let k = r.range(1, 7) as usize;
            let s = be32(&y, 0).unwrap_or(0);
            y[0..4].copy_from_slice(&(s.wrapping_add(64)).to_be_bytes());
            let mut tail = vec![0, 0, 0, *r.pick(&[8u8, 9, 10, 11, 12])];
            tail.extend(r.bytes(3));
            tail.truncate(k);
            y.extend(tail);
            (y, "partial-header")
        }
        13 => {
            // delete a range
            let a = r.below(y.len() as u64) as usize;
            let b = (a + r.range(1, 24) as usize).min(y.len());
            y.drain(a..b);
            (y, "delete")
        }
        14 => {
            // duplicate a whole box in place (sizes of the parents not adjusted)
            let s = be32(&y, h).unwrap_or(0) as usize;
            if s >= 8 && h + s <= y.len() && s < 4096 {
                let b = y[h..h + s].to_vec();
                y.splice(h..h, b);
            }
            (y, "dup-box")
        }
        _ => {
            // zero out a header
            for b in y[h..h + 8].iter_mut() {
                *b = 0;
            }
            (y, "zero-header")
        }
    }
}

// ---------------------------------------------------------------------------------------------
// real stores
// ---------------------------------------------------------------------------------------------

fn jumbf_of(format: &str, asset: &[u8]) -> Option<Vec<u8>> {
    c2pa::jumbf_io::load_jumbf_from_stream(format, &mut Cursor::new(asset.to_vec())).ok()
}

fn base_def(title: &str, format: &str, version: u8, r: &mut Rng) -> serde_json::Value {
    let mut assertions = vec![serde_json::json!(
        {"label": "c2pa.actions", "data": {"actions": [{"action": "c2pa.created", "digitalSourceType": "http://cv.iptc.org/newscodes/digitalsourcetype/digitalCapture"}]}}
    )];
    for i in 0..r.below(4) {
        let n = r.range(0, 40) as usize;
        let text: String = (0..n).map(|_| *r.pick(&['a', 'é', '€', ' ', '"', 'z', '😀'])).collect();
        let kind = if r.chance(1, 2) { "Json" } else { "Cbor" };
        assertions.push(serde_json::json!({"label": format!("org.verif.t{i}"), "kind": kind, "data": {"text": text, "n": r.below(1 << 40), "list": [1, 2, {"k": null}]}}));
    }
    if title != "compressed" || r.chance(1, 3) {
        assertions.push(serde_json::json!({"label": "stds.schema-org.CreativeWork", "kind": "Json", "data": {"@context": "https://schema.org", "@type": "CreativeWork", "author": [{"@type": "Person", "name": "V. Erif"}]}}));
    }
    let mut d = serde_json::json!({
        "title": title,
        "format": format,
        "claim_generator_info": [{"name": "verif-harness", "version": "0.1"}],
        "assertions": assertions,
    });
    if version == 1 {
        d["claim_version"] = serde_json::json!(1);
    }
    d
}

struct Made {
    name: String,
    jumbf: Vec<u8>,
}

fn settings_json(compress: bool, thumbs: bool) -> String {
    serde_json::json!({
        "core": {"prefer_compress_manifests": compress},
        "builder": {"thumbnail": {"enabled": thumbs}},
        "verify": {"verify_after_sign": false}
    })
    .to_string()
}

fn sign_with(def: &serde_json::Value, settings: &str, format: &str, src: &[u8], setup: impl FnOnce(&mut Builder) -> c2pa::Result<()>) -> c2pa::Result<Vec<u8>> {
    let signer = EphemeralSigner::new("verif.test")?;
    let ctx = Context::new().with_settings(settings)?.with_signer(signer);
    let mut b = Builder::from_context(ctx).with_definition(def.to_string().as_str())?;
    setup(&mut b)?;
    let mut input = Cursor::new(src.to_vec());
    let mut output = Cursor::new(Vec::new());
    b.save_to_stream(format, &mut input, &mut output)?;
    Ok(output.into_inner())
}

fn make_stores(run: &mut Run, rng: &mut Rng) -> Vec<Made> {
    let dir = fixtures();
    let mut out: Vec<Made> = vec![];
    let srcs: Vec<(&str, &str)> = if run.thorough() {
        vec![("image/jpeg", "IMG_0003.jpg"), ("image/png", "libpng-test.png"), ("image/gif", "sample1.gif"), ("image/webp", "test.webp"), ("audio/wav", "sample1.wav"), ("image/svg+xml", "sample1.svg")]
    } else {
        vec![("image/jpeg", "IMG_0003.jpg"), ("image/png", "libpng-test.png")]
    };
    let rounds = if run.thorough() { 6 } else { 2 };
    let mut push = |run: &mut Run, out: &mut Vec<Made>, name: String, fmt: &str, res: c2pa::Result<Vec<u8>>| -> Option<Vec<u8>> {
        match res {
            Ok(asset) => match jumbf_of(fmt, &asset) {
                Some(j) => {
                    run.count(&format!("store_{}", name.split(':').next().unwrap_or("x")));
                    out.push(Made { name, jumbf: j });
                    Some(asset)
                }
                None => { run.notes.push(format!("no jumbf in signed {name}")); None }
            },
            Err(e) => { run.notes.push(format!("could not sign {name}: {e:?}")); None }
        }
    };
    for (fmt, file) in &srcs {
        let src = match std::fs::read(dir.join(file)) { Ok(s) => s, Err(_) => continue };
        for round in 0..rounds {
            let mut r = rng.fork();
            // plain v2 / v1
            for ver in [2u8, 1] {
                let def = base_def("plain", fmt, ver, &mut r);
                let res = sign_with(&def, &settings_json(false, false), fmt, &src, |_| Ok(()));
                push(run, &mut out, format!("plain-v{ver}:{file}:{round}"), fmt, res);
            }
            // compressed
            let def = base_def("compressed", fmt, 2, &mut r);
            let res = sign_with(&def, &settings_json(true, false), fmt, &src, |_| Ok(()));
            push(run, &mut out, format!("compressed:{file}:{round}"), fmt, res);
            // thumbnail resource + extra resource-bearing assertion
            let mut def = base_def("thumb", fmt, 2, &mut r);
            def["thumbnail"] = serde_json::json!({"format": "image/jpeg", "identifier": "thumb.jpg"});
            let tn = r.range(1, 300) as usize;
            let thumb = r.bytes(tn);
            let res = sign_with(&def, &settings_json(false, false), fmt, &src, |b| { b.add_resource("thumb.jpg", Cursor::new(thumb.clone()))?; Ok(()) });
            let parent = push(run, &mut out, format!("thumb:{file}:{round}"), fmt, res);
            // edit with parent ingredient (store with two manifests + ingredient thumbnail), optional redaction
            if let Some(parent) = parent {
                let def = base_def("edit", fmt, 2, &mut r);
                let compress = r.chance(1, 3);
                let ing = serde_json::json!({"title": "parent", "relationship": "parentOf"}).to_string();
                let p2 = parent.clone();
                let f2 = fmt.to_string();
                let res = sign_with(&def, &settings_json(compress, round % 2 == 0), fmt, &parent, |b| {
                    b.set_intent(BuilderIntent::Edit);
                    b.add_ingredient_from_stream(ing.as_str(), f2.as_str(), &mut Cursor::new(p2))?;
                    Ok(())
                });
                let edited = push(run, &mut out, format!("edit:{file}:{round}"), fmt, res);
                // update manifest on top
                if let Some(edited) = edited {
                    let def = serde_json::json!({"title": "update", "format": fmt, "claim_generator_info": [{"name": "verif-harness", "version": "0.1"}]});
                    let res = sign_with(&def, &settings_json(false, false), fmt, &edited, |b| { b.set_intent(BuilderIntent::Update); Ok(()) });
                    push(run, &mut out, format!("update:{file}:{round}"), fmt, res);
                }
                // redaction of an assertion of the parent
                if let Ok(reader) = c2pa::Reader::from_context(Context::new()).with_stream(fmt, Cursor::new(parent.clone())) {
                    if let (Some(label), Some(m)) = (reader.active_label(), reader.active_manifest()) {
                        if let Some(a) = m.assertions().iter().find(|a| a.label().starts_with("org.verif") || a.label().starts_with("stds.")) {
                            let uri = format!("self#jumbf=/c2pa/{}/c2pa.assertions/{}", label, a.label());
                            let mut def = base_def("redact", fmt, 2, &mut r);
                            def["redactions"] = serde_json::json!([uri]);
                            def["assertions"][0] = serde_json::json!({"label": "c2pa.actions", "data": {"actions": [{"action": "c2pa.redacted", "reason": "c2pa.PII.present", "parameters": {"redacted": uri}}]}});
                            let ing = serde_json::json!({"title": "parent", "relationship": "parentOf"}).to_string();
                            let p2 = parent.clone();
                            let f2 = fmt.to_string();
                            let res = sign_with(&def, &settings_json(false, false), fmt, &parent, |b| {
                                b.set_intent(BuilderIntent::Edit);
                                b.add_ingredient_from_stream(ing.as_str(), f2.as_str(), &mut Cursor::new(p2))?;
                                Ok(())
                            });
                            push(run, &mut out, format!("redact:{file}:{round}"), fmt, res);
                        }
                    }
                }
            }
        }
    }
    out
}

/// manifest stores of older SDK versions carried by fixture assets
fn fixture_stores(run: &mut Run) -> Vec<Made> {
    let mut out = vec![];
    let names: &[(&str, &str)] = &[
        ("image/jpeg", "C.jpg"), ("image/jpeg", "CA.jpg"), ("image/jpeg", "CIE-sig-CA.jpg"), ("image/jpeg", "XCA.jpg"),
        ("image/jpeg", "E-sig-CA.jpg"), ("image/jpeg", "CACAE-uri-CA.jpg"), ("image/jpeg", "cloud.jpg"), ("image/png", "exp-test1.png"),
        ("video/mp4", "video1.mp4"), ("image/jpeg", "legacy.jpg"), ("image/jpeg", "prerelease.jpg"), ("image/webp", "sample1.webp"),
    ];
    let limit = if run.thorough() { names.len() } else { 5 };
    for (fmt, n) in names.iter().take(limit) {
        if let Ok(a) = std::fs::read(fixtures().join(n)) {
            if let Some(j) = jumbf_of(fmt, &a) {
                run.count("store_fixture");
                out.push(Made { name: format!("fixture:{n}"), jumbf: j });
            }
        }
    }
    out
}

// ---------------------------------------------------------------------------------------------
// store-level oracle
// ---------------------------------------------------------------------------------------------

enum StoreRt {
    Rejected(String),
    /// first re-serialisation, second pass result
    Accepted { y: Vec<u8>, second: Result<Vec<u8>, String> },
    SerFailed(String),
}

fn store_rt(x: &[u8]) -> StoreRt {
    let ctx = Context::new();
    let cls = |e: &c2pa::Error| -> String { format!("{e:?}").chars().take_while(|c| c.is_ascii_alphanumeric()).collect() };
    let s = match hook::from_jumbf_with_context(x, &mut StatusTracker::default(), &ctx) {
        Ok(s) => s,
        Err(e) => return StoreRt::Rejected(cls(&e)),
    };
    let y = match hook::to_jumbf_internal(&s, 0) {
        Ok(y) => y,
        Err(e) => return StoreRt::SerFailed(cls(&e)),
    };
    let second = match hook::from_jumbf_with_context(&y, &mut StatusTracker::default(), &ctx) {
        Ok(s2) => hook::to_jumbf_internal(&s2, 0).map_err(|e| format!("ser:{}", cls(&e))),
        Err(e) => Err(format!("parse:{}", cls(&e))),
    };
    StoreRt::Accepted { y, second }
}

// ---------------------------------------------------------------------------------------------

struct Ctl {
    hangs: usize,
}

/// One `parse` case with all box-level oracles. Returns (case index, accepted?).
fn parse_case(run: &mut Run, ctl: &mut Ctl, x: &[u8], tag: &str) -> (usize, bool) {
    let req = format!("C18 parse data={}", hex(x));
    let xv = x.to_vec();
    let out = if ctl.hangs < 3 { watched(20, move || impl_parse(&xv)) } else { Out::Hang };
    match out {
        Out::Done(p) => {
            let accepted = p.shape.is_some();
            run.count(&format!("{tag}_{}", if accepted { "accepted" } else { "rejected" }));
            if !accepted {
                run.count(&format!("reject_{}", p.reply.trim_start_matches("err ")));
            }
            let idx = run.case(req, p.reply.clone());
            if let Some(sh) = &p.shape {
                box_oracle(run, idx, sh, &p, tag);
            }
            (idx, accepted)
        }
        Out::Panic(m) => {
            let idx = run.case(req, "panic".into());
            run.fail(idx, "panic", format!("BoxReader::read_super_box / write_box panicked: {m}"));
            (idx, false)
        }
        Out::Hang => {
            ctl.hangs += 1;
            let idx = run.case(req, "hang".into());
            run.fail(idx, "hang", "BoxReader::read_super_box did not return within 20 s".into());
            (idx, false)
        }
    }
}

fn box_oracle(run: &mut Run, idx: usize, sh: &Shape, p: &Parsed, tag: &str) {
    if sh.depth > 32 {
        run.fail(idx, "depth", format!("accepted tree nests {} deep (> MAX_JUMB_DEPTH)", sh.depth));
    }
    let quirk = sh.empty_super || sh.empty_uuid || sh.bfdb_grows;
    run.count(if quirk { "accepted_with_quirk" } else { "accepted_quirk_free" });
    if sh.empty_super { run.count("quirk_empty_super"); }
    if sh.empty_uuid { run.count("quirk_empty_uuid"); }
    if sh.bfdb_grows { run.count("quirk_bfdb_nul"); }
    if sh.salts > 0 { run.count("with_salt"); }
    if !quirk {
        // the partial fixed-point theorem evaluated on the implementation
        match (&p.ser2, &p.second_err) {
            (Some(y2), _) => {
                if *y2 != p.ser {
                    run.fail(idx, "box-fixed-point", format!("[{tag}] write(read(write(read x))) differs from write(read x): {} vs {} bytes", y2.len(), p.ser.len()));
                } else {
                    run.nontrivial(format!("fp {}", fnv(&p.ser)));
                }
            }
            (None, e) => run.fail(idx, "box-fixed-point", format!("[{tag}] the re-serialisation of an accepted quirk-free tree is rejected: {e:?}")),
        }
    }
}

/// store-level oracle for a byte string; `produced` = the SDK produced exactly these bytes
fn store_case(run: &mut Run, ctl: &mut Ctl, idx: usize, x: &[u8], produced: bool, name: &str) {
    let xv = x.to_vec();
    let out = if ctl.hangs < 3 { watched(60, move || store_rt(&xv)) } else { Out::Hang };
    match out {
        Out::Done(StoreRt::Rejected(c)) => {
            run.count("store_rejected");
            // fixture assets of SDK pre-releases are legitimately refused (PrereleaseError …)
            if produced && !name.starts_with("fixture:") {
                run.fail(idx, "store-unreadable", format!("{name}: a store the SDK produced is rejected by from_jumbf: {c}"));
            }
        }
        Out::Done(StoreRt::SerFailed(c)) => {
            run.fail(idx, "store-reserialise-failed", format!("{name}: to_jumbf_internal of a parsed store failed: {c}"));
        }
        Out::Done(StoreRt::Accepted { y, second }) => {
            run.count(if produced { "store_produced_accepted" } else { "store_mutant_accepted" });
            if produced {
                if y != x {
                    let at = y.iter().zip(x.iter()).position(|(a, b)| a != b).unwrap_or(y.len().min(x.len()));
                    run.fail(idx, "store-identity", format!("{name}: re-serialised store differs from the produced bytes ({} vs {} bytes, first difference at {at})", y.len(), x.len()));
                } else {
                    run.nontrivial(format!("id {}", fnv(x)));
                }
            } else if y != x {
                run.count("store_mutant_normalised");
            }
            match second {
                Ok(y2) if y2 == y => { run.nontrivial(format!("sfp {}", fnv(&y))); }
                Ok(y2) => run.fail(idx, "store-fixed-point", format!("{name}: second pass changes the bytes again ({} vs {} bytes)", y2.len(), y.len())),
                Err(e) => run.fail(idx, "store-fixed-point", format!("{name}: the re-serialised store is not read back: {e}")),
            }
        }
        Out::Panic(m) => run.fail(idx, "panic", format!("{name}: Store::from_jumbf/to_jumbf panicked: {m}")),
        Out::Hang => { ctl.hangs += 1; run.fail(idx, "hang", format!("{name}: Store::from_jumbf did not return within 60 s")) }
    }
}

fn tree_case(run: &mut Run, ctl: &mut Ctl, t: &T, wf: bool) -> Option<Vec<u8>> {
    let req = format!("C18 tree t={}", t_text(t));
    let t2 = t.clone();
    let out = if ctl.hangs < 3 {
        watched(20, move || {
            let sb = t_build_super(&t2);
            let bytes = written(&sb);
            let size = sb.box_size().expect("size");
            let mut sh = Shape::default();
            let dump = dump_super(&sb, 1, &mut sh);
            let p = impl_parse(&bytes);
            (bytes, size, dump, p)
        })
    } else {
        Out::Hang
    };
    match out {
        Out::Done((bytes, size, dump, p)) => {
            let idx = run.case(req, format!("bytes={} size={} {}", len_fnv(&bytes), size, p.reply));
            run.count(if wf { "tree_wf" } else { "tree_any" });
            if let Some(sh) = &p.shape {
                run.count("tree_accepted");
                box_oracle(run, idx, sh, &p, "tree");
                if wf {
                    // parse ∘ ser = id on the implementation
                    let got = p.reply.split(" tree=").nth(1).and_then(|s| s.split(" ser=").next()).unwrap_or("");
                    if got != dump || p.ser != bytes {
                        run.fail(idx, "box-parse-ser", format!("read(write(t)) is not t for a well-formed tree: {} vs {}", &got[..got.len().min(120)], &dump[..dump.len().min(120)]));
                    } else {
                        run.nontrivial(format!("ps {}", fnv(&bytes)));
                    }
                }
            } else if wf {
                run.fail(idx, "box-parse-ser", format!("a well-formed tree does not read back: {}", p.reply));
            }
            Some(bytes)
        }
        Out::Panic(m) => { let idx = run.case(req, "panic".into()); run.fail(idx, "panic", format!("tree write/read panicked: {m}")); None }
        Out::Hang => { ctl.hangs += 1; let idx = run.case(req, "hang".into()); run.fail(idx, "hang", "tree read did not return".into()); None }
    }
}

pub fn run(run: &mut Run, rng: &mut Rng) {
    run.rule = "inputs: manifest stores signed in-process (plain v1/v2, compressed, thumbnail resource, edit with parent ingredient, update manifest, redaction; JPEG/PNG[/GIF/WebP/WAV/SVG]) and stores of fixture assets; structure-aware mutants of them (size/type/toggles/label/large-size/truncation/insert/delete/dup at real header offsets); grammar-generated box trees (all box kinds, salt/id/signature toggles, multi-byte and invalid UTF-8 labels, quirk shapes) written by the real writer, and mutants of those bytes. non-trivial = accepted by the real reader and the fixed-point / identity oracle was evaluated (distinct by content hash)".to_string();
    let mut ctl = Ctl { hangs: 0 };

    // ---- fixed witnesses -------------------------------------------------------------------
    let desc = |label: &[u8]| -> Vec<u8> {
        let mut v = ((8 + 16 + 1 + label.len() + 1) as u32).to_be_bytes().to_vec();
        v.extend(b"jumd");
        v.extend([0u8; 16]);
        v.push(3);
        v.extend(label);
        v.push(0);
        v
    };
    let wrap = |size: u32, body: &[u8]| -> Vec<u8> { [&size.to_be_bytes()[..], b"jumb", body].concat() };
    // (1) formerly an endless loop: a 5-byte partial header `0000000b 78` behind the description box
    let w_hang = wrap(0x1000, &[desc(b"a"), vec![0, 0, 0, 11, 0x78]].concat());
    // (2) formerly `start_pos + size` overflow: nested large-size jumb with size 2^64-1
    let w_ovf = wrap(0x1000, &[desc(b"a"), [&1u32.to_be_bytes()[..], b"jumb", &1u32.to_be_bytes()[..], b"jumb", &[0xff; 8]].concat()].concat());
    for (w, name) in [(&w_hang, "witness:partial-header-loop"), (&w_ovf, "witness:dest-pos-overflow")] {
        let (idx, acc) = parse_case(run, &mut ctl, w, "witness");
        let ok = !acc && !run.oracle.iter().any(|o| o.case == idx);
        run.obligations.insert(format!("{name}-terminates-with-error"), ok);
    }
    // (3) the three quirks where the box-level fixed point really fails (Props.C18 proves them on the model)
    let q_bfdb = T::S { uuid: [1; 16], togs: 3, label: b"q".to_vec(), id: None, sig: None, salt: None, kids: vec![T::M(1, b"a\0b".to_vec(), None), T::L('d', vec![1, 2])] };
    let q_uuid = T::S { uuid: [1; 16], togs: 3, label: b"q".to_vec(), id: None, sig: None, salt: None, kids: vec![T::U([2; 16], vec![]), T::L('j', vec![0x7b, 0x7d])] };
    let q_empty = T::S { uuid: [1; 16], togs: 3, label: b"q".to_vec(), id: None, sig: None, salt: None, kids: vec![T::S { uuid: [3; 16], togs: 3, label: b"e".to_vec(), id: None, sig: None, salt: None, kids: vec![] }, T::L('j', vec![0x7b, 0x7d])] };
    for (t, name) in [(&q_bfdb, "bfdb-interior-nul"), (&q_uuid, "empty-uuid"), (&q_empty, "empty-superbox")] {
        let before = run.impls.len();
        tree_case(run, &mut ctl, t, false);
        // replay of the proved counter-examples: the implementation must show the same non-fixed-point
        let reply = run.impls.get(before).cloned().unwrap_or_default();
        let reproduced = match name {
            "bfdb-interior-nul" => reply.contains(" re=ok:"),
            _ => reply.contains("err ") || reply.contains(" re=err:") || reply.contains(" re=ok:"),
        };
        run.obligations.insert(format!("witness:{name}-not-a-fixed-point-on-implementation"), reproduced);
    }
    // (4) nesting limit
    for n in [1usize, 2, 31, 32, 33, 34, 40] {
        let t = chain(n);
        let before = run.impls.len();
        tree_case(run, &mut ctl, &t, n <= 32);
        let reply = run.impls.get(before).cloned().unwrap_or_default();
        let ok = if n <= 32 { reply.contains(" ok end=") } else { reply.contains("err BoxNestingTooDeep") };
        run.obligations.insert(format!("depth-limit:chain-{n}"), ok);
    }

    // ---- grammar-generated trees -------------------------------------------------------------
    let n_trees = if run.thorough() { 20_000 } else { 2_500 };
    let mut small: Vec<Vec<u8>> = vec![];
    for i in 0..n_trees {
        let mut r = rng.fork();
        let wf = i % 2 == 0;
        let t = gen_tree(&mut r, 1, wf);
        if let Some(b) = tree_case(run, &mut ctl, &t, wf) {
            if b.len() < 1500 && small.len() < 4000 {
                small.push(b);
            }
        }
    }
    // ---- mutants of written trees --------------------------------------------------------------
    let n_mut = if run.thorough() { 80_000 } else { 12_000 };
    for _ in 0..n_mut {
        let mut r = rng.fork();
        if small.is_empty() { break; }
        let base = r.pick(&small).clone();
        let (mut y, mut kind) = mutate(&mut r, &base);
        if r.chance(1, 4) {
            let (y2, k2) = mutate(&mut r, &y);
            y = y2;
            kind = k2;
        }
        run.count(&format!("mut_{kind}"));
        parse_case(run, &mut ctl, &y, "treemut");
    }

    // ---- real stores ----------------------------------------------------------------------------
    let mut stores = make_stores(run, rng);
    let n_made = stores.len();
    stores.extend(fixture_stores(run));
    run.notes.push(format!("stores signed in-process: {n_made}; fixture stores: {}", stores.len() - n_made));
    run.obligations.insert("stores:at-least-8-signed-in-process".to_string(), n_made >= 8);
    let mut_per_store = if run.thorough() { 40 } else { 6 };
    let mut kinds_seen: std::collections::BTreeSet<String> = Default::default();
    for m in &stores {
        let produced = !m.name.starts_with("fixture:");
        let (idx, acc) = parse_case(run, &mut ctl, &m.jumbf, "store");
        if !acc && produced {
            run.fail(idx, "store-unreadable", format!("{}: BoxReader rejects a store the SDK produced", m.name));
        }
        kinds_seen.insert(m.name.split(':').next().unwrap_or("").to_string());
        // fixture stores were produced by (older) SDK versions: when they are accepted they must
        // re-serialise to identical bytes as well
        let _ = produced;
        store_case(run, &mut ctl, idx, &m.jumbf, true, &m.name);
        if m.jumbf.len() > 60_000 && !run.thorough() {
            continue;
        }
        for _ in 0..mut_per_store {
            let mut r = rng.fork();
            let (y, kind) = mutate(&mut r, &m.jumbf);
            run.count(&format!("smut_{kind}"));
            let (idx, acc) = parse_case(run, &mut ctl, &y, "storemut");
            if acc {
                store_case(run, &mut ctl, idx, &y, false, &format!("{}+{kind}", m.name));
            }
        }
        // targeted: one character of the label of a manifest child box that is located by UUID
        // (claim / signature / assertion store / databoxes); the store must stay a fixed point
        for pat in [&b"c2pa.assertions\0"[..], b"c2pa.claim", b"c2pa.signature\0", b"c2pa.databoxes\0"] {
            let mut r = rng.fork();
            let hits: Vec<usize> = m.jumbf.windows(pat.len()).enumerate().filter(|(_, w)| *w == pat).map(|(i, _)| i).collect();
            if hits.is_empty() {
                continue;
            }
            let at = *r.pick(&hits);
            let mut y = m.jumbf.clone();
            let k = at + 5 + r.below(pat.len() as u64 - 6) as usize;
            y[k] = *r.pick(&[b'X', b'/', b'0', y[k] ^ 0x20]);
            run.count("smut_child-label");
            let (idx, acc) = parse_case(run, &mut ctl, &y, "storemut");
            if acc {
                store_case(run, &mut ctl, idx, &y, false, &format!("{}+child-label", m.name));
            }
        }
    }
    run.notes.push(format!("store kinds: {kinds_seen:?}"));
    for k in ["plain-v2", "plain-v1", "compressed", "thumb", "edit"] {
        run.obligations.insert(format!("stores:kind-{k}-present"), kinds_seen.contains(k));
    }
    run.obligations.insert("no-hang".to_string(), ctl.hangs == 0);
}
