//! C18 — JUMBF manifest stores round-trip canonically.
//!
//! Request lines (answered by lean/Drv/C18.lean, see the protocol comment in Model/C18.lean):
//!   C18 parse data=<hex>   real `BoxReader::read_super_box` on `Cursor::new(data)`, canonical dump of
//!                          the tree, re-serialisation with the real `write_box`, second pass
//!   C18 tree t=<tree>      the tree is built from the real box types, written with `write_box`,
//!                          then as `parse`; the constructor forms `N(..)` / `m(..)` are built with
//!                          `JUMBFDescriptionBox::new` + `set_salt` / `JUMBFEmbeddedFileDescriptionBox::new`,
//!                          or with the SDK's own wrappers (`CAIJSONAssertionBox::new` + `add_json` + `set_salt`,
//!                          `CAIUUIDAssertionBox::add_uuid`, `JumbfEmbeddedFileBox::add_data`, …)
//!   C18 mfrom data=.. dec=.. enc=..   `CAIManifest::from` on the super box read from `data`, and
//!                          `CAIManifest::write_box_payload` of the result (Brotli results supplied as a table)
//!
//! Property oracle on the implementation (independent of the model):
//!   store-identity / store-fixed-point   `Store::from_jumbf_with_context` → `to_jumbf_internal` on stores the
//!        SDK produced (byte identity) and on every accepted mutant (second pass is a fixed point)
//!   box-fixed-point    `BoxReader` accepts x, the tree has none of the listed quirks ⇒ write → read → write is
//!        the identity on the written bytes
//!   box-parse-ser      generated well-formed trees: read(write(t)) dumps as t
//!   depth              accepted trees nest ≤ 32, panic / hang (watchdog) never
//!   ctor-roundtrip     boxes built with the SDK's constructors from a label that is a non-empty string without
//!        NUL read back as themselves; `ctor-unreadable-label` is counted (not a failure of this property at box
//!        level: the store serialiser refuses such labels) for the others
//!   store-unreadable   a store produced through `Claim` / `Store::to_jumbf_internal` or `Builder::sign` is rejected
//!   large-size-child-misread   (finding) the payload of a large-size child box is read as sibling boxes

use std::{io::Cursor, sync::mpsc, time::Duration};

use c2pa::{status_tracker::StatusTracker, verif_hooks::c18 as hook, Builder, BuilderIntent, Context, EphemeralSigner};
use hook::{BMFFBox, BoxReader, JUMBFSuperBox};
use vh::common::{fixtures, guarded, hex, main_with, Rng, Run};

fn main() {
    let args: Vec<String> = std::env::args().collect();
    if args.len() >= 3 && args[1] == "replay" {
        // c18 replay <file with hex>: print what the implementation does with these bytes
        let x = vh::common::unhex(std::fs::read_to_string(&args[2]).expect("read").trim());
        println!("box level: {}", impl_parse(&x).reply);
        let ctx = Context::new();
        match hook::from_jumbf_with_context(&x, &mut StatusTracker::default(), &ctx) {
            Err(e) => println!("from_jumbf: {e:?}"),
            Ok(s) => match hook::to_jumbf_internal(&s, 0) {
                Err(e) => println!("to_jumbf_internal: {e:?}"),
                Ok(y) => {
                    println!("re-serialised {} bytes (input {}), identical: {}", y.len(), x.len(), y == x);
                    println!("second pass box level: {}", impl_parse(&y).reply);
                    match hook::from_jumbf_with_context(&y, &mut StatusTracker::default(), &ctx) {
                        Err(e) => println!("second from_jumbf: {e:?}"),
                        Ok(s2) => println!("second to_jumbf identical: {:?}", hook::to_jumbf_internal(&s2, 0).map(|y2| y2 == y)),
                    }
                }
            },
        }
        return;
    }
    main_with("C18", run);
}

// ---------------------------------------------------------------------------------------------
// watchdog: a call that does not return within the budget is a `hang`, a panic is a `panic`
// ---------------------------------------------------------------------------------------------

enum Out<T> {
    Done(T),
    Panic(String),
    Hang,
}

fn watched<T: Send + 'static>(secs: u64, f: impl FnOnce() -> T + Send + 'static) -> Out<T> {
    let (tx, rx) = mpsc::channel();
    std::thread::Builder::new()
        .stack_size(16 << 20)
        .spawn(move || {
            let r = std::panic::catch_unwind(std::panic::AssertUnwindSafe(f));
            let _ = tx.send(r);
        })
        .expect("spawn");
    match rx.recv_timeout(Duration::from_secs(secs)) {
        Ok(Ok(v)) => Out::Done(v),
        Ok(Err(e)) => Out::Panic(
            e.downcast_ref::<&str>().map(|s| s.to_string()).or_else(|| e.downcast_ref::<String>().cloned()).unwrap_or_else(|| "panic".into()),
        ),
        Err(_) => Out::Hang,
    }
}

// ---------------------------------------------------------------------------------------------
// canonical dump of the implementation's tree
// ---------------------------------------------------------------------------------------------

fn fnv(b: &[u8]) -> u64 {
    let mut h: u64 = 14695981039346656037;
    for x in b {
        h = (h ^ (*x as u64)).wrapping_mul(1099511628211);
    }
    h
}

fn len_fnv(b: &[u8]) -> String {
    format!("{}:{}", b.len(), fnv(b))
}

fn written(b: &dyn BMFFBox) -> Vec<u8> {
    let mut v = vec![];
    b.write_box(&mut v).expect("write to vec");
    v
}

fn written_payload(b: &dyn BMFFBox) -> Vec<u8> {
    let mut v = vec![];
    b.write_box_payload(&mut v).expect("write to vec");
    v
}

#[derive(Default, Clone, Debug)]
struct Shape {
    depth: usize,
    boxes: usize,
    empty_super: bool,
    empty_uuid: bool,
    bfdb_grows: bool,
    /// rebuilding a bfdb box from its accessors (`media_type()`, `file_name()`) writes other bytes
    bfdb_accessor: bool,
    salts: usize,
    kinds: std::collections::BTreeSet<String>,
}

fn dump_super(sb: &JUMBFSuperBox, depth: usize, sh: &mut Shape) -> String {
    sh.depth = sh.depth.max(depth);
    sh.boxes += 1;
    if sb.desc_box().get_salt().is_some() {
        sh.salts += 1;
    }
    let mut s = format!("S{}[", hex(&written(sb.desc_box())));
    let n = sb.data_box_count();
    if n == 0 {
        sh.empty_super = true;
    }
    for i in 0..n {
        if i > 0 {
            s.push(',');
        }
        if let Some(c) = sb.data_box_as_superbox(i) {
            s.push_str(&dump_super(c, depth + 1, sh));
            continue;
        }
        sh.boxes += 1;
        let b = sb.data_box(i).expect("index in range");
        let ty = String::from_utf8_lossy(b.box_type()).to_string();
        sh.kinds.insert(ty.clone());
        let psize = b.box_payload_size().expect("payload size");
        let pl = written_payload(b);
        if let Some(m) = sb.data_box_as_embedded_media_type_box(i) {
            let fname = m.file_name().map(|f| hex(f.as_bytes())).unwrap_or_else(|| "-".into());
            s.push_str(&format!("bfdb:{}:{}:{}:{}", psize, hex(&pl), hex(m.media_type().as_bytes()), fname));
            if pl.len() >= 2 && pl[0] == 1 && pl[1..pl.len() - 1].contains(&0) {
                sh.bfdb_grows = true;
            }
            // the accessor path of re-serialisation (`Store::get_assertion_from_jumbf_store` reads `media_type()`,
            // `add_assertion_to_jumbf_store` builds the box again with `new`): identity on the written bytes
            let interior_nul = pl.len() >= 2 && pl[1..pl.len() - 1].contains(&0);
            // judged on boxes of the shape the SDK itself writes for a media type without file name: toggle 0, one
            // terminating NUL, valid UTF-8 (a lossy conversion of invalid UTF-8, a missing terminator or a file-name
            // toggle without a file name are reader quirks covered by the model comparison, not by this oracle)
            let sdk_shape = pl.len() >= 2 && pl[0] == 0 && pl.last() == Some(&0) && std::str::from_utf8(&pl[1..pl.len() - 1]).is_ok();
            if sdk_shape && !interior_nul {
                let rebuilt = hook::JUMBFEmbeddedFileDescriptionBox::new(m.media_type(), None);
                if written_payload(&rebuilt) != pl {
                    sh.bfdb_accessor = true;
                }
            }
        } else {
            if let Some(u) = sb.data_box_as_uuid_box(i) {
                if u.data().is_empty() {
                    sh.empty_uuid = true;
                }
            }
            s.push_str(&format!("{}:{}:{}", ty, psize, len_fnv(&pl)));
        }
    }
    s.push(']');
    s
}

fn err_class(e: &hook::JumbfParseError) -> String {
    let d = format!("{e:?}");
    d.chars().take_while(|c| c.is_ascii_alphanumeric()).collect()
}

struct Parsed {
    reply: String,
    /// Some(..) when the reader accepted
    shape: Option<Shape>,
    /// bytes written from the accepted tree
    ser: Vec<u8>,
    /// second pass: Some(bytes written from the re-read tree) when the re-serialisation was accepted
    ser2: Option<Vec<u8>>,
    second_err: Option<String>,
}

fn read_at(x: &[u8]) -> (Result<JUMBFSuperBox, hook::JumbfParseError>, u64) {
    let mut c = Cursor::new(x);
    let r = BoxReader::read_super_box(&mut c);
    (r, c.position())
}

fn impl_parse(x: &[u8]) -> Parsed {
    let (r, end) = read_at(x);
    match r {
        Err(e) => Parsed { reply: format!("err {}", err_class(&e)), shape: None, ser: vec![], ser2: None, second_err: None },
        Ok(sb) => {
            let mut sh = Shape::default();
            let dump = dump_super(&sb, 1, &mut sh);
            let y = written(&sb);
            let size = sb.box_size().expect("box size");
            let (r2, end2) = read_at(&y);
            let (re, ser2, second_err) = match r2 {
                Ok(sb2) => {
                    let mut sh2 = Shape::default();
                    let dump2 = dump_super(&sb2, 1, &mut sh2);
                    let y2 = written(&sb2);
                    if dump2 == dump && end2 as usize == y.len() {
                        ("same".to_string(), Some(y2), None)
                    } else {
                        (format!("ok:{end2}:{dump2}"), Some(y2), None)
                    }
                }
                Err(e) => (format!("err:{}", err_class(&e)), None, Some(err_class(&e))),
            };
            Parsed {
                reply: format!("ok end={end} size={size} tree={dump} ser={} re={re}", len_fnv(&y)),
                shape: Some(sh),
                ser: y,
                ser2,
                second_err,
            }
        }
    }
}

// ---------------------------------------------------------------------------------------------
// generated trees
// ---------------------------------------------------------------------------------------------

#[derive(Clone, Debug)]
enum T {
    S { uuid: [u8; 16], togs: u8, label: Vec<u8>, id: Option<u32>, sig: Option<[u8; 32]>, salt: Option<Vec<u8>>, kids: Vec<T> },
    L(char, Vec<u8>),
    U([u8; 16], Vec<u8>),
    M(u8, Vec<u8>, Option<Vec<u8>>),
    /// `JUMBFDescriptionBox::new(label, Some(uuid))` (+ `set_salt`)
    N { uuid: [u8; 16], label: String, salt: Option<Vec<u8>>, kids: Vec<T> },
    /// `JUMBFEmbeddedFileDescriptionBox::new(media_type, file_name)`
    Mn(String, Option<String>),
}

fn oh(b: &Option<Vec<u8>>) -> String {
    b.as_ref().map(|v| hex(v)).unwrap_or_else(|| "~".into())
}

fn t_text(t: &T) -> String {
    match t {
        T::S { uuid, togs, label, id, sig, salt, kids } => format!(
            "S({};{};{};{};{};{})[{}]",
            hex(uuid),
            togs,
            hex(label),
            id.map(|v| v.to_string()).unwrap_or_else(|| "-".into()),
            sig.map(|s| hex(&s)).unwrap_or_else(|| "~".into()),
            oh(salt),
            kids.iter().map(t_text).collect::<Vec<_>>().join(",")
        ),
        T::L(k, d) => format!("L{k}({})", hex(d)),
        T::U(u, d) => format!("U({};{})", hex(u), hex(d)),
        T::M(t, m, f) => format!("M({};{};{})", t, hex(m), oh(f)),
        T::N { uuid, label, salt, kids } => {
            format!("N({};{};{})[{}]", hex(uuid), hex(label.as_bytes()), oh(salt), kids.iter().map(t_text).collect::<Vec<_>>().join(","))
        }
        T::Mn(m, f) => format!("m({};{})", hex(m.as_bytes()), f.as_ref().map(|f| hex(f.as_bytes())).unwrap_or_else(|| "~".into())),
    }
}

fn t_build_super(t: &T) -> JUMBFSuperBox {
    match t {
        T::S { uuid, togs, label, id, sig, salt, kids } => {
            let d = hook::JUMBFDescriptionBox::from(uuid, *togs, label.clone(), *id, *sig, salt.clone().map(hook::CAISaltContentBox::new));
            let mut sb = JUMBFSuperBox::from(d);
            for k in kids {
                sb.add_data_box(t_build(k));
            }
            sb
        }
        T::N { uuid, label, salt, kids } => {
            // the UUID string in lower, upper or mixed case (chosen from the value, so that the run is reproducible)
            let mut cr = Rng::new(uuid.iter().fold(label.len() as u64, |a, b| a.wrapping_mul(31).wrapping_add(*b as u64)));
            let mut d = hook::JUMBFDescriptionBox::new(label, Some(&hex_case(&mut cr, uuid)));
            if let Some(sa) = salt {
                // a refused salt (shorter than 16 bytes) leaves the box as it was
                let _ = d.set_salt(sa.clone());
            }
            let mut sb = JUMBFSuperBox::from(d);
            for k in kids {
                sb.add_data_box(t_build(k));
            }
            sb
        }
        _ => unreachable!("top level is a super box"),
    }
}

fn t_build(t: &T) -> Box<dyn BMFFBox> {
    match t {
        T::S { .. } | T::N { .. } => Box::new(t_build_super(t)),
        T::Mn(m, f) => Box::new(hook::JUMBFEmbeddedFileDescriptionBox::new(m.clone(), f.clone())),
        T::L('j', d) => Box::new(hook::JUMBFJSONContentBox::new(d.clone())),
        T::L('c', d) => Box::new(hook::JUMBFCBORContentBox::new(d.clone())),
        T::L('f', d) => Box::new(hook::JUMBFPaddingContentBox::new_with_vec(d.clone())),
        T::L('p', d) => Box::new(hook::JUMBFCodestreamContentBox::new(d.clone())),
        T::L('b', d) => Box::new(hook::JUMBFBrotliContentBox::new(d.clone())),
        T::L(_, d) => Box::new(hook::JUMBFEmbeddedFileContentBox::new(d.clone())),
        T::U(u, d) => Box::new(hook::JUMBFUUIDContentBox::new(u, d.clone())),
        T::M(t, m, f) => Box::new(hook::JUMBFEmbeddedFileDescriptionBox::from(*t, m.clone(), f.clone())),
    }
}

const LEAF_KINDS: [char; 6] = ['j', 'c', 'f', 'p', 'b', 'd'];

/// A non-empty string without NUL over a wide alphabet: upper / lower / mixed case, digits, spaces,
/// separators, non-ASCII UTF-8 (also letters with case: É é İ ß Σ), so that any accessor that folds case,
/// trims, or normalises a string-valued field changes the bytes of some generated value.
fn gen_text(r: &mut Rng, max: u64) -> String {
    let alpha = ['A', 'Z', 'a', 'z', 'J', 'P', 'E', 'G', 'm', 'X', '0', '9', ' ', '/', '+', '.', ';', '=', '-', '_', ':', ',', '"', '\\', '\t', 'É', 'é', 'İ', 'ß', 'Σ', '€', '😀', '\u{7f}'];
    let n = r.range(1, max);
    (0..n).map(|_| *r.pick(&alpha)).collect()
}

/// media types as callers spell them (not only the lower-case strings the SDK generates)
fn gen_media_type(r: &mut Rng) -> String {
    let fixed = ["image/png", "image/JPEG", "Image/Png", "IMAGE/SVG+XML", "image/svg+xml; charset=UTF-8", "application/X-É", " image/jpeg ", "a", "A", "text/Plain;Format=Flowed", "application/vnd.Adobe.Photoshop"];
    if r.chance(1, 2) { r.pick(&fixed).to_string() } else { gen_text(r, 24) }
}

/// a 32-digit hex string in lower, upper or mixed case (what `from_hex` / `hex::decode` accept)
fn hex_case(r: &mut Rng, u: &[u8; 16]) -> String {
    let h = hex::encode(u);
    match r.below(3) {
        0 => h,
        1 => h.to_uppercase(),
        _ => h.chars().map(|c| if r.chance(1, 2) { c.to_ascii_uppercase() } else { c }).collect(),
    }
}

fn gen_label(r: &mut Rng, wf: bool) -> Vec<u8> {
    let ascii = |r: &mut Rng, n: usize| -> Vec<u8> { (0..n).map(|_| *r.pick(b"abcxyz.019_-ACZ")).collect() };
    if r.chance(1, 4) {
        return gen_text(r, 20).into_bytes();
    }
    match r.below(if wf { 4 } else { 7 }) {
        0 => ascii(r, 1),
        1 | 2 => { let n = r.range(1, 12) as usize; ascii(r, n) }
        3 => {
            // multi-byte UTF-8
            let parts: Vec<&[u8]> = vec![b"\xc3\xa9", b"\xe2\x82\xac", b"\xf0\x9f\x98\x80", b"\xe0\xa0\x80", b"\xed\x9f\xbf", b"\xf4\x8f\xbf\xbf"];
            let n0 = r.below(3) as usize;
            let mut v = ascii(r, n0);
            for _ in 0..r.range(1, 3) {
                v.extend_from_slice(*r.pick(&parts[..]));
            }
            v
        }
        4 => vec![],
        5 => {
            // invalid UTF-8 (overlong, surrogate, stray continuation, truncated, > U+10FFFF)
            let bad: Vec<&[u8]> = vec![b"\xc0\xaf", b"\xed\xa0\x80", b"\x80", b"\xe2\x82", b"\xf4\x90\x80\x80", b"\xff", b"\xc1\xbf", b"\xf0\x8f\xbf\xbf"];
            let n0 = r.below(3) as usize;
            let mut v = ascii(r, n0);
            v.extend_from_slice(*r.pick(&bad[..]));
            let n1 = r.below(2) as usize;
            v.extend(ascii(r, n1));
            v
        }
        _ => { let n = r.range(1, 6) as usize; r.bytes(n).into_iter().map(|b| if b == 0 { 1 } else { b }).collect() }
    }
}

fn gen_media(r: &mut Rng, wf: bool) -> (u8, Vec<u8>, Option<Vec<u8>>) {
    let mt = gen_media_type(r).into_bytes();
    if wf {
        // canonical forms only: what the reader itself would produce
        if r.chance(1, 3) { (1, mt, Some(vec![0])) } else { (*r.pick(&[0u8, 2, 0x80]), mt, None) }
    } else {
        match r.below(7) {
            0 => (1, [mt.as_slice(), b"\0name.png"].concat(), None),
            1 => (1, [mt.as_slice(), b"\0name.png\0"].concat(), None),
            2 => (r.below(3) as u8, vec![], None),
            3 => (r.below(3) as u8, b"\xff\xfe".to_vec(), None),
            4 => (0, [mt.as_slice(), b"\0"].concat(), None),
            5 => (1, mt, None),
            _ => (r.next() as u8, mt, Some(b"x".to_vec())),
        }
    }
}

/// `wf` = inside the domain of the round-trip theorem (valid, none of the quirks).
fn gen_tree(r: &mut Rng, depth: usize, wf: bool) -> T {
    let mut togs: u8 = 3;
    let id = if r.chance(1, 5) { togs |= 4; Some(*r.pick(&[0u32, 1, 7, 0x6a756d62, u32::MAX])) } else { None };
    let sig = if r.chance(1, 6) { togs |= 8; let mut s = [0u8; 32]; s.copy_from_slice(&r.bytes(32)); Some(s) } else { None };
    let salt = if r.chance(1, 3) { togs |= 16; let n = *r.pick(&[16usize, 32, 0, 1, 17]); Some(r.bytes(n)) } else { None };
    if r.chance(1, 6) {
        togs |= (r.below(8) as u8) << 5;
    }
    if !wf && r.chance(1, 10) {
        togs = r.next() as u8; // inconsistent toggles: the writer ignores them, the reader does not
    }
    let mut uuid = [0u8; 16];
    uuid.copy_from_slice(&r.bytes(16));
    let label = gen_label(r, wf);
    let nk = if depth >= 4 { r.range(1, 2) } else { r.range(if wf { 1 } else { 0 }, 4) };
    let mut kids = vec![];
    for _ in 0..nk {
        let c = r.below(10);
        let k = if c < 3 && depth < 5 {
            gen_tree(r, depth + 1, wf)
        } else if c < 7 {
            let n = *r.pick(&[0usize, 1, 2, 5, 8, 9, 24, 40]);
            T::L(*r.pick(&LEAF_KINDS), r.bytes(n))
        } else if c < 9 {
            let mut u = [0u8; 16];
            u.copy_from_slice(&r.bytes(16));
            let n = if wf { r.range(1, 20) } else { *r.pick(&[0u64, 0, 1, 8]) } as usize;
            T::U(u, r.bytes(n))
        } else {
            let (t, m, f) = gen_media(r, wf);
            T::M(t, m, f)
        };
        kids.push(k);
    }
    T::S { uuid, togs, label, id, sig, salt, kids }
}

fn chain(n: usize) -> T {
    let mut t = T::S { uuid: [7; 16], togs: 3, label: b"leaf".to_vec(), id: None, sig: None, salt: None, kids: vec![T::L('j', b"{}".to_vec())] };
    for i in 1..n {
        t = T::S { uuid: [i as u8; 16], togs: 3, label: format!("n{i}").into_bytes(), id: None, sig: None, salt: None, kids: vec![t] };
    }
    t
}

// ---------------------------------------------------------------------------------------------
// independent walker over box headers (for structure-aware mutation)
// ---------------------------------------------------------------------------------------------

fn be32(x: &[u8], o: usize) -> Option<u32> {
    x.get(o..o + 4).map(|b| u32::from_be_bytes([b[0], b[1], b[2], b[3]]))
}

/// offsets of every box header reachable by following sizes (tolerant; stops at nonsense)
fn headers(x: &[u8], start: usize, end: usize, depth: usize, out: &mut Vec<usize>) {
    let mut o = start;
    while o + 8 <= end.min(x.len()) && out.len() < 4000 {
        let size = be32(x, o).unwrap_or(0) as usize;
        out.push(o);
        if size < 8 || o + size > end {
            break;
        }
        if &x[o + 4..o + 8] == b"jumb" && depth < 40 {
            headers(x, o + 8, o + size, depth + 1, out);
        }
        o += size;
    }
}

fn mutate(r: &mut Rng, x: &[u8]) -> (Vec<u8>, &'static str) {
    let mut y = x.to_vec();
    if y.len() < 16 {
        y.extend(r.bytes(4));
        return (y, "tiny");
    }
    let mut hs = vec![];
    headers(x, 0, x.len(), 0, &mut hs);
    let fourccs: [&[u8; 4]; 14] = [b"jumb", b"jumd", b"json", b"cbor", b"free", b"jp2c", b"brob", b"uuid", b"bfdb", b"bidb", b"c2sh", b"xxxx", b"\0\0\0\0", b"jum\0"];
    let h = *r.pick(&hs);
    match r.below(16) {
        0 => {
            let i = r.below(y.len() as u64) as usize;
            y[i] ^= 1 << r.below(8);
            (y, "bitflip")
        }
        1 => {
            for _ in 0..r.range(2, 6) {
                let i = r.below(y.len() as u64) as usize;
                y[i] = r.next() as u8;
            }
            (y, "bytes")
        }
        2 => {
            let s = be32(&y, h).unwrap_or(0);
            let d = *r.pick(&[1i64, -1, 8, -8, 2, 16, -16, 7]);
            y[h..h + 4].copy_from_slice(&((s as i64 + d) as u32).to_be_bytes());
            (y, "size-delta")
        }
        3 => {
            let v = *r.pick(&[0u32, 1, 2, 7, 8, 9, 25, 26, 0x7fff_ffff, 0xffff_ffff]);
            y[h..h + 4].copy_from_slice(&v.to_be_bytes());
            (y, "size-set")
        }
        4 => {
            y[h + 4..h + 8].copy_from_slice(*r.pick(&fourccs));
            (y, "type")
        }
        5 => {
            // toggles of a jumd (header + 8 + 16)
            let cands: Vec<usize> = hs.iter().copied().filter(|&o| y.get(o + 4..o + 8) == Some(b"jumd") && o + 24 < y.len()).collect();
            if let Some(&o) = cands.get(r.below(cands.len().max(1) as u64) as usize) {
                y[o + 24] = if r.chance(1, 2) { y[o + 24] ^ (1 << r.below(8)) } else { r.next() as u8 };
            }
            (y, "toggles")
        }
        6 => {
            // a label byte
            let cands: Vec<usize> = hs.iter().copied().filter(|&o| y.get(o + 4..o + 8) == Some(b"jumd") && o + 26 < y.len()).collect();
            if let Some(&o) = cands.get(r.below(cands.len().max(1) as u64) as usize) {
                let k = r.below(4) as usize;
                if o + 25 + k < y.len() {
                    y[o + 25 + k] = *r.pick(&[0u8, 0xff, 0xc3, 0x80, b'a', 0xe2]);
                }
            }
            (y, "label")
        }
        7 => {
            let k = r.below(y.len() as u64) as usize;
            y.truncate(k);
            (y, "truncate")
        }
        8 => {
            // truncate near a header: 0..15 bytes after it
            let k = (h + r.below(16) as usize).min(y.len());
            y.truncate(k);
            (y, "truncate-header")
        }
        9 => {
            let ins: Vec<u8> = match r.below(4) {
                0 => vec![0; 8],
                1 => [&8u32.to_be_bytes()[..], *r.pick(&fourccs)].concat(),
                2 => { let n = r.range(1, 7) as usize; r.bytes(n) }
                _ => [&12u32.to_be_bytes()[..], b"json", b"{}{}"].concat(),
            };
            let at = if r.chance(1, 2) { h } else { y.len() };
            y.splice(at..at, ins);
            (y, "insert")
        }
        10 => {
            // large-size form of a header: size=1 then a 64-bit size
            let s = be32(&y, h).unwrap_or(0) as u64;
            let l: u64 = *r.pick(&[s, s + 8, 0, 8, 1 << 32, u64::MAX, (1u64 << 32) + 0x6a75_6d62, 0x0000_0001_6a75_6d62]);
            y[h..h + 4].copy_from_slice(&1u32.to_be_bytes());
            if r.chance(1, 2) {
                y.splice(h + 8..h + 8, l.to_be_bytes());
            } else if h + 16 <= y.len() {
                y[h + 8..h + 16].copy_from_slice(&l.to_be_bytes());
            }
            (y, "large-size")
        }
        11 => {
            // grow the outermost size (the reader then runs into the end of data)
            let s = be32(&y, 0).unwrap_or(0);
            y[0..4].copy_from_slice(&(s.wrapping_add(r.range(1, 64) as u32)).to_be_bytes());
            let n = r.below(12) as usize;
            y.extend(r.bytes(n));
            (y, "outer-grow")
        }
        12 => {
            // trailing partial header 1..7 bytes, outer size covering it
            let k = r.range(1, 7) as usize;
            let s = be32(&y, 0).unwrap_or(0);
            y[0..4].copy_from_slice(&(s.wrapping_add(64)).to_be_bytes());
            let mut tail = vec![0, 0, 0, *r.pick(&[8u8, 9, 10, 11, 12])];
            tail.extend(r.bytes(3));
            tail.truncate(k);
            y.extend(tail);
            (y, "partial-header")
        }
        13 => {
            // delete a range
            let a = r.below(y.len() as u64) as usize;
            let b = (a + r.range(1, 24) as usize).min(y.len());
            y.drain(a..b);
            (y, "delete")
        }
        14 => {
            // duplicate a whole box in place (sizes of the parents not adjusted)
            let s = be32(&y, h).unwrap_or(0) as usize;
            if s >= 8 && h + s <= y.len() && s < 4096 {
                let b = y[h..h + s].to_vec();
                y.splice(h..h, b);
            }
            (y, "dup-box")
        }
        _ => {
            // zero out a header
            for b in y[h..h + 8].iter_mut() {
                *b = 0;
            }
            (y, "zero-header")
        }
    }
}

// ---------------------------------------------------------------------------------------------
// real stores
// ---------------------------------------------------------------------------------------------

fn jumbf_of(format: &str, asset: &[u8]) -> Option<Vec<u8>> {
    c2pa::jumbf_io::load_jumbf_from_stream(format, &mut Cursor::new(asset.to_vec())).ok()
}

fn base_def(title: &str, format: &str, version: u8, r: &mut Rng) -> serde_json::Value {
    let mut assertions = vec![serde_json::json!(
        {"label": "c2pa.actions", "data": {"actions": [{"action": "c2pa.created", "digitalSourceType": "http://cv.iptc.org/newscodes/digitalsourcetype/digitalCapture"}]}}
    )];
    for i in 0..r.below(4) {
        let n = r.range(0, 40) as usize;
        let text: String = (0..n).map(|_| *r.pick(&['a', 'é', '€', ' ', '"', 'z', '😀'])).collect();
        let kind = if r.chance(1, 2) { "Json" } else { "Cbor" };
        assertions.push(serde_json::json!({"label": format!("org.verif.t{i}"), "kind": kind, "data": {"text": text, "n": r.below(1 << 40), "list": [1, 2, {"k": null}]}}));
    }
    if title != "compressed" || r.chance(1, 3) {
        assertions.push(serde_json::json!({"label": "stds.schema-org.CreativeWork", "kind": "Json", "data": {"@context": "https://schema.org", "@type": "CreativeWork", "author": [{"@type": "Person", "name": "V. Erif"}]}}));
    }
    let mut d = serde_json::json!({
        "title": title,
        "format": format,
        "claim_generator_info": [{"name": "verif-harness", "version": "0.1"}],
        "assertions": assertions,
    });
    if version == 1 {
        d["claim_version"] = serde_json::json!(1);
    }
    d
}

struct Made {
    name: String,
    jumbf: Vec<u8>,
}

fn settings_json(compress: bool, thumbs: bool) -> String {
    serde_json::json!({
        "core": {"prefer_compress_manifests": compress},
        "builder": {"thumbnail": {"enabled": thumbs}},
        "verify": {"verify_after_sign": false}
    })
    .to_string()
}

fn sign_with(def: &serde_json::Value, settings: &str, format: &str, src: &[u8], setup: impl FnOnce(&mut Builder) -> c2pa::Result<()>) -> c2pa::Result<Vec<u8>> {
    let signer = EphemeralSigner::new("verif.test")?;
    let ctx = Context::new().with_settings(settings)?.with_signer(signer);
    let mut b = Builder::from_context(ctx).with_definition(def.to_string().as_str())?;
    setup(&mut b)?;
    let mut input = Cursor::new(src.to_vec());
    let mut output = Cursor::new(Vec::new());
    b.save_to_stream(format, &mut input, &mut output)?;
    Ok(output.into_inner())
}

fn make_stores(run: &mut Run, rng: &mut Rng) -> Vec<Made> {
    let dir = fixtures();
    let mut out: Vec<Made> = vec![];
    let srcs: Vec<(&str, &str)> = if run.thorough() {
        vec![("image/jpeg", "IMG_0003.jpg"), ("image/png", "libpng-test.png"), ("image/gif", "sample1.gif"), ("image/webp", "test.webp"), ("audio/wav", "sample1.wav"), ("image/svg+xml", "sample1.svg")]
    } else {
        vec![("image/jpeg", "IMG_0003.jpg"), ("image/png", "libpng-test.png")]
    };
    let rounds = if run.thorough() { 6 } else { 2 };
    let mut push = |run: &mut Run, out: &mut Vec<Made>, name: String, fmt: &str, res: c2pa::Result<Vec<u8>>| -> Option<Vec<u8>> {
        match res {
            Ok(asset) => match jumbf_of(fmt, &asset) {
                Some(j) => {
                    run.count(&format!("store_{}", name.split(':').next().unwrap_or("x")));
                    out.push(Made { name, jumbf: j });
                    Some(asset)
                }
                None => { run.notes.push(format!("no jumbf in signed {name}")); None }
            },
            Err(e) => { run.notes.push(format!("could not sign {name}: {e:?}")); None }
        }
    };
    for (fmt, file) in &srcs {
        let src = match std::fs::read(dir.join(file)) { Ok(s) => s, Err(_) => continue };
        for round in 0..rounds {
            let mut r = rng.fork();
            // plain v2 / v1
            let mut v1_parent: Option<Vec<u8>> = None;
            for ver in [2u8, 1] {
                let def = base_def("plain", fmt, ver, &mut r);
                let res = sign_with(&def, &settings_json(false, false), fmt, &src, |_| Ok(()));
                let a = push(run, &mut out, format!("plain-v{ver}:{file}:{round}"), fmt, res);
                if ver == 1 {
                    v1_parent = a;
                }
            }
            // an edit as a v1 claim on a v1 parent, with thumbnails: ingredient thumbnail and ingredient data
            // become data boxes (`c2pa.databoxes` store) through the public API
            if let Some(parent) = v1_parent {
                let mut def = base_def("edit-v1", fmt, 1, &mut r);
                def["ingredients"] = serde_json::json!([{"title": "data-ingredient", "relationship": "componentOf", "format": "text/plain",
                    "thumbnail": {"format": "image/jpeg", "identifier": "ing-thumb.jpg"}, "data": {"format": "text/plain", "identifier": "ing-data.txt"}}]);
                let ing = serde_json::json!({"title": "parent", "relationship": "parentOf"}).to_string();
                let p2 = parent.clone();
                let f2 = fmt.to_string();
                let tb = r.bytes(40);
                let db = r.bytes(17);
                let res = sign_with(&def, &settings_json(false, true), fmt, &parent, |b| {
                    b.set_intent(BuilderIntent::Edit);
                    b.add_resource("ing-thumb.jpg", Cursor::new(tb.clone()))?;
                    b.add_resource("ing-data.txt", Cursor::new(db.clone()))?;
                    b.add_ingredient_from_stream(ing.as_str(), f2.as_str(), &mut Cursor::new(p2))?;
                    Ok(())
                });
                if let Some(a) = push(run, &mut out, format!("edit-v1:{file}:{round}"), fmt, res) {
                    if jumbf_of(fmt, &a).map(|j| j.windows(14).any(|w| w == b"c2pa.databoxes")).unwrap_or(false) {
                        run.count("builder_databox_store");
                    }
                }
            }
            // compressed
            let def = base_def("compressed", fmt, 2, &mut r);
            let res = sign_with(&def, &settings_json(true, false), fmt, &src, |_| Ok(()));
            push(run, &mut out, format!("compressed:{file}:{round}"), fmt, res);
            // an assertion label that a JUMBF description box cannot carry: signing must fail
            // (formerly: a store that cannot be read back; fixes/C18-reject-unstorable-box-labels.patch)
            if round == 0 {
                let mut def = base_def("badlabel", fmt, 2, &mut r);
                def["assertions"].as_array_mut().expect("array").push(serde_json::json!({"label": *r.pick(&["org.verif\u{0}x", "org.verif.t\u{0}", "\u{0}"]), "kind": "Json", "data": {"a": 1}}));
                match sign_with(&def, &settings_json(false, false), fmt, &src, |_| Ok(())) {
                    Err(_) => run.count("builder_refused_label"),
                    Ok(asset) => { push(run, &mut out, format!("badlabel:{file}:{round}"), fmt, Ok(asset)); }
                }
            }
            // thumbnail resource + extra resource-bearing assertion
            let mut def = base_def("thumb", fmt, 2, &mut r);
            // the format as a caller may spell it (definition field or Builder::set_thumbnail)
            let tfmt = r.pick(&["image/jpeg", "image/JPEG", "Image/Png", "IMAGE/SVG+XML", "application/X-Verif", " image/jpeg "]).to_string();
            let via_setter = r.chance(1, 2);
            if !via_setter {
                def["thumbnail"] = serde_json::json!({"format": tfmt, "identifier": "thumb.jpg"});
            }
            let tn = r.range(1, 300) as usize;
            let thumb = r.bytes(tn);
            let res = sign_with(&def, &settings_json(false, false), fmt, &src, |b| {
                if via_setter { b.set_thumbnail(tfmt.clone(), &mut Cursor::new(thumb.clone()))?; } else { b.add_resource("thumb.jpg", Cursor::new(thumb.clone()))?; }
                Ok(())
            });
            let parent = push(run, &mut out, format!("thumb:{file}:{round}"), fmt, res);
            // edit with parent ingredient (store with two manifests + ingredient thumbnail), optional redaction
            if let Some(parent) = parent {
                let def = base_def("edit", fmt, 2, &mut r);
                let compress = r.chance(1, 3);
                let ing = serde_json::json!({"title": "parent", "relationship": "parentOf"}).to_string();
                let p2 = parent.clone();
                let f2 = fmt.to_string();
                let res = sign_with(&def, &settings_json(compress, round % 2 == 0), fmt, &parent, |b| {
                    b.set_intent(BuilderIntent::Edit);
                    b.add_ingredient_from_stream(ing.as_str(), f2.as_str(), &mut Cursor::new(p2))?;
                    Ok(())
                });
                let edited = push(run, &mut out, format!("edit:{file}:{round}"), fmt, res);
                // update manifest on top
                if let Some(edited) = edited {
                    let def = serde_json::json!({"title": "update", "format": fmt, "claim_generator_info": [{"name": "verif-harness", "version": "0.1"}]});
                    let res = sign_with(&def, &settings_json(false, false), fmt, &edited, |b| { b.set_intent(BuilderIntent::Update); Ok(()) });
                    push(run, &mut out, format!("update:{file}:{round}"), fmt, res);
                }
                // redaction of an assertion of the parent
                if let Ok(reader) = c2pa::Reader::from_context(Context::new()).with_stream(fmt, Cursor::new(parent.clone())) {
                    if let (Some(label), Some(m)) = (reader.active_label(), reader.active_manifest()) {
                        if let Some(a) = m.assertions().iter().find(|a| a.label().starts_with("org.verif") || a.label().starts_with("stds.")) {
                            let uri = format!("self#jumbf=/c2pa/{}/c2pa.assertions/{}", label, a.label());
                            let mut def = base_def("redact", fmt, 2, &mut r);
                            def["redactions"] = serde_json::json!([uri]);
                            def["assertions"][0] = serde_json::json!({"label": "c2pa.actions", "data": {"actions": [{"action": "c2pa.redacted", "reason": "c2pa.PII.present", "parameters": {"redacted": uri}}]}});
                            let ing = serde_json::json!({"title": "parent", "relationship": "parentOf"}).to_string();
                            let p2 = parent.clone();
                            let f2 = fmt.to_string();
                            let res = sign_with(&def, &settings_json(false, false), fmt, &parent, |b| {
                                b.set_intent(BuilderIntent::Edit);
                                b.add_ingredient_from_stream(ing.as_str(), f2.as_str(), &mut Cursor::new(p2))?;
                                Ok(())
                            });
                            push(run, &mut out, format!("redact:{file}:{round}"), fmt, res);
                        }
                    }
                }
            }
        }
    }
    out
}

/// manifest stores of older SDK versions carried by fixture assets
fn fixture_stores(run: &mut Run) -> Vec<Made> {
    let mut out = vec![];
    let names: &[(&str, &str)] = &[
        ("image/jpeg", "C.jpg"), ("image/jpeg", "CA.jpg"), ("image/jpeg", "CIE-sig-CA.jpg"), ("image/jpeg", "XCA.jpg"),
        ("image/jpeg", "E-sig-CA.jpg"), ("image/jpeg", "CACAE-uri-CA.jpg"), ("image/jpeg", "cloud.jpg"), ("image/png", "exp-test1.png"),
        ("video/mp4", "video1.mp4"), ("image/jpeg", "legacy.jpg"), ("image/jpeg", "prerelease.jpg"), ("image/webp", "sample1.webp"),
    ];
    let limit = if run.thorough() { names.len() } else { 5 };
    for (fmt, n) in names.iter().take(limit) {
        if let Ok(a) = std::fs::read(fixtures().join(n)) {
            if let Some(j) = jumbf_of(fmt, &a) {
                run.count("store_fixture");
                out.push(Made { name: format!("fixture:{n}"), jumbf: j });
            }
        }
    }
    out
}

// ---------------------------------------------------------------------------------------------
// store-level oracle
// ---------------------------------------------------------------------------------------------

enum StoreRt {
    Rejected(String),
    /// first re-serialisation, second pass result
    Accepted { y: Vec<u8>, second: Result<Vec<u8>, String> },
    SerFailed(String),
}

fn store_rt(x: &[u8]) -> StoreRt {
    let ctx = Context::new();
    let cls = |e: &c2pa::Error| -> String { format!("{e:?}").chars().take_while(|c| c.is_ascii_alphanumeric()).collect() };
    let s = match hook::from_jumbf_with_context(x, &mut StatusTracker::default(), &ctx) {
        Ok(s) => s,
        Err(e) => return StoreRt::Rejected(cls(&e)),
    };
    let y = match hook::to_jumbf_internal(&s, 0) {
        Ok(y) => y,
        Err(e) => return StoreRt::SerFailed(cls(&e)),
    };
    let second = match hook::from_jumbf_with_context(&y, &mut StatusTracker::default(), &ctx) {
        Ok(s2) => hook::to_jumbf_internal(&s2, 0).map_err(|e| format!("ser:{}", cls(&e))),
        Err(e) => Err(format!("parse:{}", cls(&e))),
    };
    StoreRt::Accepted { y, second }
}

// ---------------------------------------------------------------------------------------------

struct Ctl {
    hangs: usize,
    /// accepted inputs whose tree has one of the quirks (fed to CAIManifest::from, whose re-read changes / rejects them)
    quirky: Vec<Vec<u8>>,
}

/// One `parse` case with all box-level oracles. Returns (case index, accepted?).
fn parse_case(run: &mut Run, ctl: &mut Ctl, x: &[u8], tag: &str) -> (usize, bool) {
    let req = format!("C18 parse data={}", hex(x));
    let xv = x.to_vec();
    let out = if ctl.hangs < 3 { watched(20, move || impl_parse(&xv)) } else { Out::Hang };
    match out {
        Out::Done(p) => {
            let accepted = p.shape.is_some();
            run.count(&format!("{tag}_{}", if accepted { "accepted" } else { "rejected" }));
            if !accepted {
                run.count(&format!("reject_{}", p.reply.trim_start_matches("err ")));
            }
            let idx = run.case(req, p.reply.clone());
            if let Some(sh) = &p.shape {
                box_oracle(run, idx, sh, &p, tag);
                if (sh.empty_super || sh.empty_uuid || sh.bfdb_grows) && ctl.quirky.len() < 400 && x.len() < 4000 {
                    ctl.quirky.push(x.to_vec());
                }
            }
            (idx, accepted)
        }
        Out::Panic(m) => {
            let idx = run.case(req, "panic".into());
            run.fail(idx, "panic", format!("BoxReader::read_super_box / write_box panicked: {m}"));
            (idx, false)
        }
        Out::Hang => {
            ctl.hangs += 1;
            let idx = run.case(req, "hang".into());
            run.fail(idx, "hang", "BoxReader::read_super_box did not return within 20 s".into());
            (idx, false)
        }
    }
}

fn box_oracle(run: &mut Run, idx: usize, sh: &Shape, p: &Parsed, tag: &str) {
    if sh.depth > 32 {
        run.fail(idx, "depth", format!("accepted tree nests {} deep (> MAX_JUMB_DEPTH)", sh.depth));
    }
    let quirk = sh.empty_super || sh.empty_uuid || sh.bfdb_grows;
    run.count(if quirk { "accepted_with_quirk" } else { "accepted_quirk_free" });
    if sh.empty_super { run.count("quirk_empty_super"); }
    if sh.empty_uuid { run.count("quirk_empty_uuid"); }
    if sh.bfdb_grows { run.count("quirk_bfdb_nul"); }
    if sh.salts > 0 { run.count("with_salt"); }
    if sh.bfdb_accessor {
        run.fail(idx, "bfdb-accessor", format!("[{tag}] a bfdb box rebuilt from media_type() / file_name() is written with other bytes than the box that was read"));
    }
    if !quirk {
        // the partial fixed-point theorem evaluated on the implementation
        match (&p.ser2, &p.second_err) {
            (Some(y2), _) => {
                if *y2 != p.ser {
                    run.fail(idx, "box-fixed-point", format!("[{tag}] write(read(write(read x))) differs from write(read x): {} vs {} bytes", y2.len(), p.ser.len()));
                } else {
                    run.nontrivial(format!("fp {}", fnv(&p.ser)));
                }
            }
            (None, e) => run.fail(idx, "box-fixed-point", format!("[{tag}] the re-serialisation of an accepted quirk-free tree is rejected: {e:?}")),
        }
    }
}

/// Labels of every JUMBF description box found in `x` (plain scan for `jumd` + 16-byte UUID + toggles + NUL-terminated label).
fn jumd_labels_of(x: &[u8]) -> Vec<Vec<u8>> {
    let mut v = vec![];
    let mut i = 0;
    while i + 4 <= x.len() {
        if &x[i..i + 4] == b"jumd" && i + 21 <= x.len() {
            let toggles = x[i + 20];
            if toggles & 0x02 != 0 {
                let s = i + 21;
                if let Some(e) = x[s..].iter().position(|b| *b == 0) {
                    v.push(x[s..s + e].to_vec());
                }
            }
        }
        i += 1;
    }
    v
}

/// store-level oracle for a byte string; `produced` = the SDK produced exactly these bytes
fn store_case(run: &mut Run, ctl: &mut Ctl, idx: usize, x: &[u8], produced: bool, name: &str) {
    let xv = x.to_vec();
    let out = if ctl.hangs < 3 { watched(60, move || store_rt(&xv)) } else { Out::Hang };
    match out {
        Out::Done(StoreRt::Rejected(c)) => {
            run.count("store_rejected");
            // fixture assets of SDK pre-releases are legitimately refused (PrereleaseError …)
            if produced && !name.starts_with("fixture:") {
                // an assertion label containing '=' is a finding of its own (the JUMBF URI helpers split at '='):
                // keyed separately so that any other unreadable store is still reported
                let eq_label = jumd_labels_of(x).iter().any(|l| l.contains(&b'='));
                let class = if eq_label && c.contains("AssertionMissing") { "store-unreadable:label-with-equals-sign" } else { "store-unreadable" };
                run.fail(idx, class, format!("{name}: a store the SDK produced is rejected by from_jumbf: {c}"));
            }
        }
        Out::Done(StoreRt::SerFailed(c)) => {
            run.fail(idx, "store-reserialise-failed", format!("{name}: to_jumbf_internal of a parsed store failed: {c}"));
        }
        Out::Done(StoreRt::Accepted { y, second }) => {
            run.count(if produced { "store_produced_accepted" } else { "store_mutant_accepted" });
            if produced {
                if y != x {
                    let at = y.iter().zip(x.iter()).position(|(a, b)| a != b).unwrap_or(y.len().min(x.len()));
                    run.fail(idx, "store-identity", format!("{name}: re-serialised store differs from the produced bytes ({} vs {} bytes, first difference at {at})", y.len(), x.len()));
                } else {
                    run.nontrivial(format!("id {}", fnv(x)));
                }
            } else if y != x {
                run.count("store_mutant_normalised");
            }
            match second {
                Ok(y2) if y2 == y => { run.nontrivial(format!("sfp {}", fnv(&y))); }
                Ok(y2) => run.fail(idx, "store-fixed-point", format!("{name}: second pass changes the bytes again ({} vs {} bytes)", y2.len(), y.len())),
                Err(e) => run.fail(idx, "store-fixed-point", format!("{name}: the re-serialised store is not read back: {e}")),
            }
        }
        Out::Panic(m) => run.fail(idx, "panic", format!("{name}: Store::from_jumbf/to_jumbf panicked: {m}")),
        Out::Hang => { ctl.hangs += 1; run.fail(idx, "hang", format!("{name}: Store::from_jumbf did not return within 60 s")) }
    }
}

fn tree_case(run: &mut Run, ctl: &mut Ctl, t: &T, wf: bool) -> Option<Vec<u8>> {
    tree_case_with(run, ctl, t, wf, None, true)
}

/// `wrapper` = bytes written by one of the SDK's wrapper types that must equal what the tree `t` writes;
/// `cmp_dump` = compare the dump of the built tree with the dump of the parsed one (otherwise bytes only).
fn tree_case_with(run: &mut Run, ctl: &mut Ctl, t: &T, wf: bool, wrapper: Option<Vec<u8>>, cmp_dump: bool) -> Option<Vec<u8>> {
    let req = format!("C18 tree t={}", t_text(t));
    let t2 = t.clone();
    let out = if ctl.hangs < 3 {
        watched(20, move || {
            let sb = t_build_super(&t2);
            let own = written(&sb);
            let differs = wrapper.as_ref().map(|w| *w != own).unwrap_or(false);
            let bytes = wrapper.unwrap_or(own);
            let size = sb.box_size().expect("size");
            let mut sh = Shape::default();
            let dump = dump_super(&sb, 1, &mut sh);
            let p = impl_parse(&bytes);
            (bytes, size, dump, p, differs)
        })
    } else {
        Out::Hang
    };
    match out {
        Out::Done((bytes, size, dump, p, differs)) => {
            let idx = run.case(req, format!("bytes={} size={} {}", len_fnv(&bytes), size, p.reply));
            run.count(if wf { "tree_wf" } else { "tree_any" });
            if differs {
                run.fail(idx, "ctor-wrapper", "an SDK wrapper type writes other bytes than JUMBFDescriptionBox::new / set_salt / add_data_box with the same arguments".into());
            }
            if let Some(sh) = &p.shape {
                run.count("tree_accepted");
                box_oracle(run, idx, sh, &p, "tree");
                if wf {
                    // parse ∘ ser = id on the implementation
                    let got = p.reply.split(" tree=").nth(1).and_then(|s| s.split(" ser=").next()).unwrap_or("");
                    if (cmp_dump && got != dump) || p.ser != bytes {
                        run.fail(idx, "box-parse-ser", format!("read(write(t)) is not t for a well-formed tree: {} vs {}", &got[..got.len().min(120)], &dump[..dump.len().min(120)]));
                    } else {
                        run.nontrivial(format!("ps {}", fnv(&bytes)));
                    }
                }
            } else if wf {
                run.fail(idx, "box-parse-ser", format!("a well-formed tree does not read back: {}", p.reply));
            }
            Some(bytes)
        }
        Out::Panic(m) => { let idx = run.case(req, "panic".into()); run.fail(idx, "panic", format!("tree write/read panicked: {m}")); None }
        Out::Hang => { ctl.hangs += 1; let idx = run.case(req, "hang".into()); run.fail(idx, "hang", "tree read did not return".into()); None }
    }
}

// ---------------------------------------------------------------------------------------------
// trees built with the SDK's constructors
// ---------------------------------------------------------------------------------------------

const U_JSON: &str = "6A736F6E00110010800000AA00389B71";
const U_CBOR: &str = "63626F7200110010800000AA00389B71";
const U_UUID: &str = "7575696400110010800000AA00389B71";
const U_EMBEDDED: &str = "40CB0C32BB8A489DA70B2AD6F47F4369";
const U_C2AS: &str = "6332617300110010800000AA00389B71";
const U_C2MA: &str = "63326D6100110010800000AA00389B71";
const U_C2UM: &str = "6332756D00110010800000AA00389B71";
const U_C2CM: &str = "6332636D00110010800000AA00389B71";
const U_C2CL: &str = "6332636C00110010800000AA00389B71";
const U_REDACTION: &str = "CAA98EEE9D4DF80E86AD4DFFCA263973";

fn u16b(h: &str) -> [u8; 16] {
    let v = hex::decode(h).expect("uuid hex");
    let mut u = [0u8; 16];
    u.copy_from_slice(&v);
    u
}

/// `ok` = a non-empty string without NUL (the domain of `new_roundtrip`)
fn gen_ctor_label(r: &mut Rng, ok: bool) -> String {
    let good = ["c2pa.actions", "org.verif.t1", "a", "é€😀", "c2pa.thumbnail.claim.jpeg", "did:x:1/../y", "c2pa.assertions", "x y\t\u{7f}"];
    let bad = ["", "a\0b", "\0", "c2pa.hash.data\0", "\0tail", "é\0€"];
    if ok || r.chance(1, 2) {
        if r.chance(1, 2) { r.pick(&good).to_string() } else { gen_text(r, 24) }
    } else {
        r.pick(&bad).to_string()
    }
}

fn label_ok(l: &str) -> bool {
    !l.is_empty() && !l.contains('\0')
}

fn gen_ctor_salt(r: &mut Rng) -> Option<Vec<u8>> {
    if r.chance(1, 2) {
        None
    } else {
        // below 16 bytes `set_salt` refuses and the box stays as it was
        let n = *r.pick(&[16usize, 32, 17, 0, 1, 15]);
        Some(r.bytes(n))
    }
}

/// Content boxes inside the domain of the round-trip theorem when `wf`.
fn gen_ctor_kids(r: &mut Rng, depth: usize, wf: bool) -> Vec<T> {
    let nk = r.range(if wf { 1 } else { 0 }, 3);
    let mut kids = vec![];
    for _ in 0..nk {
        let c = r.below(10);
        kids.push(if c < 2 && depth < 3 {
            gen_ctor_tree(r, depth + 1, wf)
        } else if c < 6 {
            let n = *r.pick(&[0usize, 1, 2, 9, 24]);
            T::L(*r.pick(&LEAF_KINDS), r.bytes(n))
        } else if c < 8 {
            let mut u = [0u8; 16];
            u.copy_from_slice(&r.bytes(16));
            let n = if wf { r.range(1, 12) } else { *r.pick(&[0u64, 0, 4]) } as usize;
            T::U(u, r.bytes(n))
        } else {
            let mt = if wf || r.chance(1, 2) { gen_media_type(r) } else { r.pick(&["", "image/\0png", "\0", "Image/\0PNG"]).to_string() };
            let f = if r.chance(1, 2) { None } else if r.chance(1, 2) { Some(gen_text(r, 16)) } else { Some(r.pick(&["name.png", "", "a\0b", "É.JPG"]).to_string()) };
            T::Mn(mt, f)
        });
    }
    kids
}

fn gen_ctor_tree(r: &mut Rng, depth: usize, wf: bool) -> T {
    let uuid = if r.chance(1, 3) { let mut u = [0u8; 16]; u.copy_from_slice(&r.bytes(16)); u } else { u16b(*r.pick(&[U_JSON, U_CBOR, U_UUID, U_EMBEDDED, U_C2AS, U_C2MA])) };
    T::N { uuid, label: gen_ctor_label(r, wf), salt: gen_ctor_salt(r), kids: gen_ctor_kids(r, depth, wf) }
}

fn all_labels_ok(t: &T) -> bool {
    match t {
        T::N { label, kids, .. } => label_ok(label) && kids.iter().all(all_labels_ok),
        T::S { kids, .. } => kids.iter().all(all_labels_ok),
        _ => true,
    }
}

/// A box built with one of the SDK's wrapper types, and the constructor tree that must write the same bytes.
fn gen_wrapper(r: &mut Rng, wf: bool) -> (Vec<u8>, T) {
    let label = gen_ctor_label(r, wf);
    let salt = gen_ctor_salt(r);
    let n = *r.pick(&[0usize, 1, 2, 9, 40]);
    let data = r.bytes(n);
    match r.below(5) {
        0 => {
            let mut b = hook::CAIJSONAssertionBox::new(&label);
            b.add_json(data.clone());
            if let Some(sa) = &salt { let _ = b.set_salt(sa.clone()); }
            (written(b.super_box()), T::N { uuid: u16b(U_JSON), label, salt, kids: vec![T::L('j', data)] })
        }
        1 => {
            let mut b = hook::CAICBORAssertionBox::new(&label);
            b.add_cbor(data.clone());
            if let Some(sa) = &salt { let _ = b.set_salt(sa.clone()); }
            (written(b.super_box()), T::N { uuid: u16b(U_CBOR), label, salt, kids: vec![T::L('c', data)] })
        }
        2 => {
            let mut u = [0u8; 16];
            u.copy_from_slice(&r.bytes(16));
            let data = if wf && data.is_empty() { vec![0u8; 4] } else { data };
            let mut b = hook::CAIUUIDAssertionBox::new(&label);
            b.add_uuid(&hex_case(r, &u), data.clone()).expect("16-byte uuid");
            if let Some(sa) = &salt { let _ = b.set_salt(sa.clone()); }
            (written(b.super_box()), T::N { uuid: u16b(U_UUID), label, salt, kids: vec![T::U(u, data)] })
        }
        3 => {
            let mt = gen_media_type(r);
            let f = if r.chance(1, 2) { None } else { Some(gen_text(r, 12)) };
            let mut b = hook::JumbfEmbeddedFileBox::new(&label);
            b.add_data(data.clone(), mt.clone(), f.clone());
            if let Some(sa) = &salt { let _ = b.set_salt(sa.clone()); }
            (written(b.super_box()), T::N { uuid: u16b(U_EMBEDDED), label, salt, kids: vec![T::Mn(mt, f), T::L('d', data)] })
        }
        _ => {
            // an assertion store with one or two assertion boxes
            let mut st = hook::CAIAssertionStore::new();
            let mut kids = vec![];
            for i in 0..r.range(1, 2) {
                let l = if i == 0 { label.clone() } else { gen_ctor_label(r, wf) };
                let mut b = hook::CAIJSONAssertionBox::new(&l);
                b.add_json(data.clone());
                if let Some(sa) = &salt { let _ = b.set_salt(sa.clone()); }
                st.add_assertion(Box::new(b));
                kids.push(T::N { uuid: u16b(U_JSON), label: l, salt: salt.clone(), kids: vec![T::L('j', data.clone())] });
            }
            (written(&st), T::N { uuid: u16b(U_C2AS), label: "c2pa.assertions".into(), salt: None, kids })
        }
    }
}

// ---------------------------------------------------------------------------------------------
// the manifest layer: CAIManifest::from / write_box_payload
// ---------------------------------------------------------------------------------------------

const MFROM_CAP: usize = 1 << 20;

fn brotli_dec(x: &[u8]) -> Option<Vec<u8>> {
    let mut out = vec![];
    match brotli::BrotliDecompress(&mut Cursor::new(x), &mut out) {
        Ok(()) if out.len() <= MFROM_CAP => Some(out),
        _ => None,
    }
}

fn brotli_enc(x: &[u8]) -> Vec<u8> {
    let mut out = vec![];
    let params = brotli::enc::BrotliEncoderParams::default();
    brotli::BrotliCompress(&mut Cursor::new(x), &mut out, &params).expect("compress to vec");
    out
}

struct MfromOut {
    req: String,
    reply: String,
    /// Some((input bytes consumed as written by the reader, compressed?, written manifest, quirk-free?))
    ok: Option<(Vec<u8>, bool, Vec<u8>, bool)>,
}

fn impl_mfrom(data: &[u8]) -> MfromOut {
    let (r, _) = read_at(data);
    let sb = match r {
        Err(e) => return MfromOut { req: format!("C18 mfrom data={} dec=~ enc=~", hex(data)), reply: format!("err {}", err_class(&e)), ok: None },
        Ok(sb) => sb,
    };
    // `~` = no brob child (not asked), `!` = decompression fails, otherwise the bytes (`-` = empty)
    let dec = match sb.data_box_as_brotli_box(0) {
        Some(b) => match brotli_dec(b.data()) { Some(raw) => hex(&raw), None => "!".to_string() },
        None => "~".to_string(),
    };
    match hook::manifest_from(&sb, MFROM_CAP) {
        Err(e) => MfromOut { req: format!("C18 mfrom data={} dec={} enc=~", hex(data), dec), reply: format!("err {}", err_class(&e)), ok: None },
        Ok(m) => {
            let inner = written(m.super_box());
            let enc = if m.compressed_store { hex(&brotli_enc(&inner)) } else { "~".to_string() };
            let w = written(&m);
            let t = match m.box_uuid() { U_C2UM => "u", "63326D6400110010800000AA00389B71" => "d", _ => "m" };
            let mut sh = Shape::default();
            let dump = dump_super(m.super_box(), 1, &mut sh);
            let quirk = sh.empty_super || sh.empty_uuid || sh.bfdb_grows;
            MfromOut {
                req: format!("C18 mfrom data={} dec={} enc={}", hex(data), dec, enc),
                reply: format!("ok c={} t={} tree={} w={}", m.compressed_store as u8, t, dump, len_fnv(&w)),
                ok: Some((written(&sb), m.compressed_store, w, !quirk)),
            }
        }
    }
}

/// One `mfrom` case with its oracles (independent of the model):
///  manifest-reload-identity  a plain quirk-free manifest is written back exactly as the store reader wrote it
///  manifest-fixed-point      the written manifest is loaded again and written to the same bytes (this is where
///                            Brotli determinism is exercised for compressed manifests)
fn mfrom_case(run: &mut Run, ctl: &mut Ctl, data: &[u8], tag: &str) {
    let dv = data.to_vec();
    let out = if ctl.hangs < 3 { watched(30, move || {
        let o = impl_mfrom(&dv);
        let second = o.ok.as_ref().map(|(_, _, w, _)| impl_mfrom(w).ok.map(|(_, _, w2, _)| w2));
        (o, second)
    }) } else { Out::Hang };
    match out {
        Out::Done((o, second)) => {
            let idx = run.case(o.req, o.reply.clone());
            run.count(&format!("mfrom_{tag}_{}", if o.ok.is_some() { "ok" } else { "err" }));
            if let Some((own, compressed, w, quirk_free)) = o.ok {
                run.count(if compressed { "mfrom_compressed" } else { "mfrom_plain" });
                if !compressed && quirk_free && w != own {
                    run.fail(idx, "manifest-reload-identity", format!("[{tag}] CAIManifest::from changes a quirk-free plain manifest: {} vs {} bytes", w.len(), own.len()));
                }
                if quirk_free {
                    match second {
                        Some(Some(w2)) if w2 == w => { run.nontrivial(format!("mf {}", fnv(&w))); }
                        Some(Some(w2)) => run.fail(idx, "manifest-fixed-point", format!("[{tag}] the written manifest loads and writes to other bytes ({} vs {})", w2.len(), w.len())),
                        _ => run.fail(idx, "manifest-fixed-point", format!("[{tag}] the written manifest ({} bytes, compressed={compressed}) is not loaded again", w.len())),
                    }
                }
            }
        }
        Out::Panic(m) => { let idx = run.case(format!("C18 mfrom data={} dec=~ enc=~", hex(data)), "panic".into()); run.fail(idx, "panic", format!("CAIManifest::from panicked: {m}")); }
        Out::Hang => { ctl.hangs += 1; let idx = run.case(format!("C18 mfrom data={} dec=~ enc=~", hex(data)), "hang".into()); run.fail(idx, "hang", "CAIManifest::from did not return".into()); }
    }
}

/// a `c2cm`-style box around the Brotli form of `inner`
fn compressed_wrap(uuid: &str, label: &str, inner: &[u8], extra: Vec<T>) -> T {
    let mut kids = vec![T::L('b', brotli_enc(inner))];
    kids.extend(extra);
    T::N { uuid: u16b(uuid), label: label.to_string(), salt: None, kids }
}

// ---------------------------------------------------------------------------------------------
// stores produced through the crate-internal claim API (databoxes, credentials, embedded data)
// ---------------------------------------------------------------------------------------------

fn vc_json(id: &str) -> String {
    serde_json::json!({"@context": ["https://www.w3.org/2018/credentials/v1"], "type": ["VerifiableCredential"], "issuer": "did:x:issuer",
        "credentialSubject": {"id": id, "name": "V. Erif"}}).to_string()
}

/// Returns the stores produced, and counts the claims whose serialisation the SDK refused.
fn claim_stores(run: &mut Run, rng: &mut Rng) -> Vec<Made> {
    use c2pa::ClaimGeneratorInfo;
    let mut out = vec![];
    let rounds = if run.thorough() { 12 } else { 3 };
    for round in 0..rounds {
        for kind in ["databox", "credential", "databox+credential", "embedded", "label-nul", "credential-bad-id"] {
            let mut r = rng.fork();
            let v1 = kind != "embedded" && !(kind == "label-nul" && round % 2 == 0);
            let mut c = hook::Claim::new("verif/0.1", if r.chance(1, 3) { Some("verif") } else { None }, if v1 { 1 } else { 2 });
            if !v1 {
                c.add_claim_generator_info(ClaimGeneratorInfo::new("verif-harness"));
            }
            let mut ok = hook::claim_add_user_assertion(&mut c, "org.verif.a", &serde_json::json!({"n": r.below(1000)}).to_string()).is_ok();
            if r.chance(1, 2) {
                // a caller-chosen label over the wide alphabet (no `__`, which is the instance separator)
                let l = format!("Org.Verif.{}", gen_text(&mut r, 10).replace("__", "_x").replace('/', "-"));
                // the claim API is tried on a throw-away claim first: a panic there (an SDK defect of its own,
                // see the C10 finding about labels whose last component starts with a multi-byte character)
                // must not take the whole run down
                let probe = guarded(std::panic::AssertUnwindSafe(|| {
                    let mut t = hook::Claim::new("verif/0.1", None, 2);
                    hook::claim_add_user_assertion(&mut t, &l, "{\"b\":2}").is_ok()
                }));
                match probe {
                    Err(_) => run.count("claim_label_panics_in_api"),
                    Ok(_) => {
                        if hook::claim_add_user_assertion(&mut c, &l, "{\"b\":2}").is_err() { run.count("claim_label_refused_by_api"); }
                    }
                }
            }
            if r.chance(1, 2) {
                ok &= hook::claim_add_user_cbor_assertion(&mut c, "org.verif.c", vec![0xa1, 0x61, 0x6b, 0x18, r.next() as u8]).is_ok();
            }
            if kind.contains("databox") {
                for _ in 0..r.range(1, 3) {
                    let n = *r.pick(&[0usize, 1, 5, 300]);
                    let types = if r.chance(1, 3) { Some(vec![c2pa::assertions::AssetType::new("c2pa.types.generator.prompt", None)]) } else { None };
                    ok &= c.add_databox(*r.pick(&["image/png", "text/plain", "application/octet-stream", ""]), r.bytes(n), types).is_ok();
                }
            }
            if kind.contains("credential") {
                let ids: &[&str] = if kind == "credential-bad-id" { &["", "did:x\0y"] } else { &["did:x:1", "did:nppa:eb1bb9934d9896a374c384521410c7f14", "é/../x"] };
                for (i, id) in ids.iter().enumerate() {
                    if i == 0 || r.chance(1, 2) {
                        ok &= c.add_verifiable_credential(&vc_json(id)).is_ok();
                    }
                }
            }
            if kind == "embedded" {
                let ct = gen_media_type(&mut r);
                ok &= hook::claim_add_embedded_data(&mut c, "c2pa.thumbnail.claim", &ct, r.bytes(20)).is_ok();
                let ct2 = if r.chance(1, 3) { String::new() } else { gen_media_type(&mut r) };
                ok &= hook::claim_add_embedded_data(&mut c, "c2pa.embedded-data", &ct2, vec![]).is_ok();
                let ct3 = gen_media_type(&mut r);
                ok &= hook::claim_add_embedded_data(&mut c, "c2pa.icon", &ct3, r.bytes(5)).is_ok();
            }
            if kind == "label-nul" {
                ok &= hook::claim_add_user_assertion(&mut c, *r.pick(&["org.verif\0x", "\0", "org.verif.t\0"]), "{\"a\":1}").is_ok();
            }
            if !ok {
                run.count("claim_api_refused");
                continue;
            }
            let mut st = hook::Store::new();
            if st.commit_claim(c).is_err() {
                run.count("claim_commit_refused");
                continue;
            }
            match hook::to_jumbf_internal(&st, 0) {
                Ok(j) => {
                    run.count(&format!("store_claim-{kind}"));
                    out.push(Made { name: format!("claim-{kind}:{round}"), jumbf: j });
                }
                // the serialiser refuses what could not be read back (labels with NUL, empty labels)
                Err(_) => run.count(&format!("claim_serialise_refused_{kind}")),
            }
        }
    }
    out
}

/// Replace the box at `start` (declared size `old`) by `new_box` and adjust the sizes of all enclosing boxes.
fn replace_box(x: &[u8], start: usize, old: usize, new_box: &[u8]) -> Vec<u8> {
    let mut hs = vec![];
    headers(x, 0, x.len(), 0, &mut hs);
    let mut y = x.to_vec();
    let delta = new_box.len() as i64 - old as i64;
    for o in hs {
        let s = be32(x, o).unwrap_or(0) as usize;
        if o < start && o + s >= start + old {
            y[o..o + 4].copy_from_slice(&((s as i64 + delta) as u32).to_be_bytes());
        }
    }
    y.splice(start..start + old, new_box.iter().copied());
    y
}

/// Non-canonical but equivalent CBOR for the first databox of a store: definite map -> indefinite-length map,
/// and the text key `dc:format` with a 2-byte length. `None` when the store has no databox.
fn databox_noncanonical(x: &[u8], variant: u64) -> Option<Vec<u8>> {
    let pat = b"cbor\xa2\x69dc:format";
    let at = x.windows(pat.len()).position(|w| w == pat)?;
    let start = at - 4;
    let size = be32(x, start)? as usize;
    let body = x.get(start + 8..start + size)?;
    let mut nb: Vec<u8> = vec![];
    match variant % 3 {
        0 => { nb.push(0xbf); nb.extend(&body[1..]); nb.push(0xff); }
        1 => { nb.push(0xa2); nb.extend([0x78, 0x09]); nb.extend(&body[2..]); }
        _ => { nb.push(0xb9); nb.extend([0x00, 0x02]); nb.extend(&body[1..]); }
    }
    let mut bx = ((nb.len() + 8) as u32).to_be_bytes().to_vec();
    bx.extend(b"cbor");
    bx.extend(nb);
    Some(replace_box(x, start, size, &bx))
}

pub fn run(run: &mut Run, rng: &mut Rng) {
    run.rule = "inputs: manifest stores signed in-process (plain v1/v2, compressed, thumbnail resource, edit with parent ingredient, update manifest, redaction; JPEG/PNG[/GIF/WebP/WAV/SVG]) and stores of fixture assets; structure-aware mutants of them (size/type/toggles/label/large-size/truncation/insert/delete/dup at real header offsets); grammar-generated box trees (all box kinds, salt/id/signature toggles, multi-byte and invalid UTF-8 labels, quirk shapes) written by the real writer, and mutants of those bytes; trees built with the SDK's constructors (JUMBFDescriptionBox::new + set_salt, JUMBFEmbeddedFileDescriptionBox::new, and the CAI*AssertionBox / JumbfEmbeddedFileBox / CAIAssertionStore wrappers) from good and bad labels; stores produced through the claim API (data boxes, credentials, embedded data) and v1 Builder edits with data boxes; non-canonical CBOR in a data box; every manifest of every store and generated plain / compressed manifests through CAIManifest::from. non-trivial = accepted by the real reader and the fixed-point / identity oracle was evaluated (distinct by content hash)".to_string();
    let mut ctl = Ctl { hangs: 0, quirky: vec![] };

    // ---- fixed witnesses -------------------------------------------------------------------
    let desc = |label: &[u8]| -> Vec<u8> {
        let mut v = ((8 + 16 + 1 + label.len() + 1) as u32).to_be_bytes().to_vec();
        v.extend(b"jumd");
        v.extend([0u8; 16]);
        v.push(3);
        v.extend(label);
        v.push(0);
        v
    };
    let wrap = |size: u32, body: &[u8]| -> Vec<u8> { [&size.to_be_bytes()[..], b"jumb", body].concat() };
    // (1) formerly an endless loop: a 5-byte partial header `0000000b 78` behind the description box
    let w_hang = wrap(0x1000, &[desc(b"a"), vec![0, 0, 0, 11, 0x78]].concat());
    // (2) formerly `start_pos + size` overflow: nested large-size jumb with size 2^64-1
    let w_ovf = wrap(0x1000, &[desc(b"a"), [&1u32.to_be_bytes()[..], b"jumb", &1u32.to_be_bytes()[..], b"jumb", &[0xff; 8]].concat()].concat());
    for (w, name) in [(&w_hang, "witness:partial-header-loop"), (&w_ovf, "witness:dest-pos-overflow")] {
        let (idx, acc) = parse_case(run, &mut ctl, w, "witness");
        let ok = !acc && !run.oracle.iter().any(|o| o.case == idx);
        run.obligations.insert(format!("{name}-terminates-with-error"), ok);
    }
    // (3) the three quirks where the box-level fixed point really fails (Props.C18 proves them on the model)
    let q_bfdb = T::S { uuid: [1; 16], togs: 3, label: b"q".to_vec(), id: None, sig: None, salt: None, kids: vec![T::M(1, b"a\0b".to_vec(), None), T::L('d', vec![1, 2])] };
    let q_uuid = T::S { uuid: [1; 16], togs: 3, label: b"q".to_vec(), id: None, sig: None, salt: None, kids: vec![T::U([2; 16], vec![]), T::L('j', vec![0x7b, 0x7d])] };
    let q_empty = T::S { uuid: [1; 16], togs: 3, label: b"q".to_vec(), id: None, sig: None, salt: None, kids: vec![T::S { uuid: [3; 16], togs: 3, label: b"e".to_vec(), id: None, sig: None, salt: None, kids: vec![] }, T::L('j', vec![0x7b, 0x7d])] };
    for (t, name) in [(&q_bfdb, "bfdb-interior-nul"), (&q_uuid, "empty-uuid"), (&q_empty, "empty-superbox")] {
        let before = run.impls.len();
        tree_case(run, &mut ctl, t, false);
        // replay of the proved counter-examples: the implementation must show the same non-fixed-point
        let reply = run.impls.get(before).cloned().unwrap_or_default();
        let reproduced = match name {
            "bfdb-interior-nul" => reply.contains(" re=ok:"),
            _ => reply.contains("err ") || reply.contains(" re=err:") || reply.contains(" re=ok:"),
        };
        run.obligations.insert(format!("witness:{name}-not-a-fixed-point-on-implementation"), reproduced);
    }
    // (4) nesting limit
    for n in [1usize, 2, 31, 32, 33, 34, 40] {
        let t = chain(n);
        let before = run.impls.len();
        tree_case(run, &mut ctl, &t, n <= 32);
        let reply = run.impls.get(before).cloned().unwrap_or_default();
        let ok = if n <= 32 { reply.contains(" ok end=") } else { reply.contains("err BoxNestingTooDeep") };
        run.obligations.insert(format!("depth-limit:chain-{n}"), ok);
    }

    // (5) a non-canonical accepted input (unknown box skipped, size-0 header, bfdb media type without NUL):
    //     Props.C18 `nonCanon_*` instantiates the fixed-point theorem on it
    {
        let x = wrap(75, &[desc(b"q"), [&12u32.to_be_bytes()[..], b"xxxx", &[1, 2, 3, 4]].concat(), [&0u32.to_be_bytes()[..], b"json"].concat(),
            [&10u32.to_be_bytes()[..], b"bfdb", &[0, 97]].concat(), [&10u32.to_be_bytes()[..], b"bidb", &[1, 2]].concat()].concat());
        let mut x1 = x.clone();
        x1[16..32].copy_from_slice(&[1u8; 16]);
        let before = run.impls.len();
        parse_case(run, &mut ctl, &x1, "witness");
        let reply = run.impls.get(before).cloned().unwrap_or_default();
        run.obligations.insert("witness:non-canonical-input-is-a-fixed-point-after-one-pass".to_string(), reply.contains("ok end=75 ") && reply.contains(" ser=64:") && reply.ends_with(" re=same"));
    }
    // (6) finding: the payload of a large-size child box is read as sibling boxes (Props.C18 `largeChild_misread`)
    {
        let mut x = wrap(59, &[desc(b"q"), [&1u32.to_be_bytes()[..], b"json", &24u64.to_be_bytes()[..], &8u32.to_be_bytes()[..], b"free"].concat()].concat());
        x[16..32].copy_from_slice(&[1u8; 16]);
        let before = run.impls.len();
        let (idx, _) = parse_case(run, &mut ctl, &x, "witness");
        let reply = run.impls.get(before).cloned().unwrap_or_default();
        if reply.contains("[json:0:0:") && reply.contains(",free:0:0:") {
            run.fail(idx, "large-size-child-misread", "a large-size (size = 1, 64-bit length 24) json child with the 8 payload bytes 00000008 66726565 is read as an empty json box followed by a free box: the payload of a large-size child box is parsed as sibling boxes".into());
        }
    }
    // (7) constructor witnesses (Props.C18 `ctorUuidEmpty_unreadable`, `ctorEmptyStore_unreadable`, `new_unreadable`)
    {
        let mut b = hook::CAIUUIDAssertionBox::new("c2pa.redacted");
        b.add_uuid(U_REDACTION, vec![]).expect("uuid");
        let t = T::N { uuid: u16b(U_UUID), label: "c2pa.redacted".into(), salt: None, kids: vec![T::U(u16b(U_REDACTION), vec![])] };
        let before = run.impls.len();
        tree_case_with(run, &mut ctl, &t, false, Some(written(b.super_box())), false);
        let reply = run.impls.get(before).cloned().unwrap_or_default();
        run.obligations.insert("witness:add_uuid-empty-data-unreadable-on-implementation".to_string(), reply.contains("err InvalidUuidBox"));

        let mut m = hook::CAIManifest::new("m", hook::ManifestType::Manifest, false);
        m.add_box(Box::new(hook::CAIAssertionStore::new()));
        let mut cb = hook::CAIClaimBox::new(1);
        cb.add_claim(Box::new(hook::JUMBFCBORContentBox::new(vec![0xa0])));
        m.add_box(Box::new(cb));
        let t = T::N { uuid: u16b(U_C2MA), label: "m".into(), salt: None, kids: vec![
            T::N { uuid: u16b(U_C2AS), label: "c2pa.assertions".into(), salt: None, kids: vec![] },
            T::N { uuid: u16b(U_C2CL), label: "c2pa.claim".into(), salt: None, kids: vec![T::L('c', vec![0xa0])] }] };
        let before = run.impls.len();
        tree_case_with(run, &mut ctl, &t, false, Some(written(&m)), false);
        let reply = run.impls.get(before).cloned().unwrap_or_default();
        run.obligations.insert("witness:empty-assertion-store-unreadable-on-implementation".to_string(), reply.contains("err InvalidJumbBox"));

        let t = T::N { uuid: u16b(U_JSON), label: "q\0x".into(), salt: None, kids: vec![T::L('j', b"{}".to_vec())] };
        let before = run.impls.len();
        tree_case(run, &mut ctl, &t, false);
        let reply = run.impls.get(before).cloned().unwrap_or_default();
        run.obligations.insert("witness:new-label-with-nul-unreadable-on-implementation".to_string(), reply.contains("err UnexpectedEof"));
    }

    // (8) malformed requests: the model driver must refuse them instead of defaulting fields
    for bad in [
        "S(zz;3;61;-;~;~)[Lj(7b7d)]", "S(00000000000000000000000000000000;300;61;-;~;~)[Lj(7b7d)]", "S(00000000000000000000000000000000;3;61;x;~;~)[Lj(7b7d)]",
        "S(00000000000000000000000000000000;3;61;-;~;~)[Lj(7b7d)]junk", "S(00000000000000000000000000000000;3;61;-;~;~)[Lj(7b7)]", "S(00000000000000000000000000000000;3;61;-;~)[Lj(7b7d)]",
        "S(00000000000000000000000000000000;3;61;4294967296;~;~)[Lj(7b7d)]", "N(6a736f6e00110010800000aa00389b71;6g;~)[Lj(7b7d)]", "S(00000000000000000000000000000000;3;61;-;~;~)[M(x;61;~)]",
        "S(00000000000000000000000000000000;3;61;-;~;~)[U(00;0q)]", "S(00000000000000000000000000000000;3;61;-;~;~)[Lq(00)]",
    ] {
        run.case(format!("C18 tree t={bad}"), "bad-tree".to_string());
        run.count("malformed_request");
    }

    // ---- trees built with the SDK's constructors -------------------------------------------------
    let n_ctor = if run.thorough() { 6_000 } else { 800 };
    for i in 0..n_ctor {
        let mut r = rng.fork();
        let wf = i % 2 == 0;
        if i % 4 < 2 {
            let t = gen_ctor_tree(&mut r, 1, wf);
            let ok = all_labels_ok(&t);
            run.count(if ok { "ctor_labels_ok" } else { "ctor_unreadable_label" });
            let before = run.impls.len();
            tree_case_with(run, &mut ctl, &t, wf, None, false);
            let top_bad = matches!(&t, T::N { label, .. } if !label_ok(label));
            if top_bad {
                // `new_unreadable` (about the outermost box): the real reader must reject what the real constructor + writer made
                let reply = run.impls.get(before).cloned().unwrap_or_default();
                if reply.contains(" ok end=") {
                    let idx = run.impls.len() - 1;
                    run.fail(idx, "ctor-roundtrip", "a box whose label was dropped by JUMBFDescriptionBox::new is accepted by the reader (the model says it is not)".into());
                }
            }
        } else {
            let (bytes, t) = gen_wrapper(&mut r, wf);
            run.count("ctor_wrapper");
            tree_case_with(run, &mut ctl, &t, wf, Some(bytes), false);
        }
    }

    // ---- grammar-generated trees -------------------------------------------------------------
    let n_trees = if run.thorough() { 20_000 } else { 2_500 };
    let mut small: Vec<Vec<u8>> = vec![];
    for i in 0..n_trees {
        let mut r = rng.fork();
        let wf = i % 2 == 0;
        let t = gen_tree(&mut r, 1, wf);
        if let Some(b) = tree_case(run, &mut ctl, &t, wf) {
            if b.len() < 1500 && small.len() < 4000 {
                small.push(b);
            }
        }
    }
    // ---- mutants of written trees --------------------------------------------------------------
    let n_mut = if run.thorough() { 80_000 } else { 12_000 };
    for _ in 0..n_mut {
        let mut r = rng.fork();
        if small.is_empty() { break; }
        let base = r.pick(&small).clone();
        let (mut y, mut kind) = mutate(&mut r, &base);
        if r.chance(1, 4) {
            let (y2, k2) = mutate(&mut r, &y);
            y = y2;
            kind = k2;
        }
        run.count(&format!("mut_{kind}"));
        parse_case(run, &mut ctl, &y, "treemut");
    }

    // ---- real stores ----------------------------------------------------------------------------
    let mut stores = make_stores(run, rng);
    stores.extend(claim_stores(run, rng));
    let n_made = stores.len();
    stores.extend(fixture_stores(run));
    run.notes.push(format!("stores signed in-process: {n_made}; fixture stores: {}", stores.len() - n_made));
    run.obligations.insert("stores:at-least-8-signed-in-process".to_string(), n_made >= 8);
    let mut_per_store = if run.thorough() { 40 } else { 6 };
    let mut kinds_seen: std::collections::BTreeSet<String> = Default::default();
    for m in &stores {
        let produced = !m.name.starts_with("fixture:");
        let (idx, acc) = parse_case(run, &mut ctl, &m.jumbf, "store");
        if !acc && produced {
            run.fail(idx, "store-unreadable", format!("{}: BoxReader rejects a store the SDK produced", m.name));
        }
        kinds_seen.insert(m.name.split(':').next().unwrap_or("").to_string());
        // fixture stores were produced by (older) SDK versions: when they are accepted they must
        // re-serialise to identical bytes as well
        let _ = produced;
        store_case(run, &mut ctl, idx, &m.jumbf, true, &m.name);
        if m.jumbf.len() > 60_000 && !run.thorough() {
            continue;
        }
        for _ in 0..mut_per_store {
            let mut r = rng.fork();
            let (y, kind) = mutate(&mut r, &m.jumbf);
            run.count(&format!("smut_{kind}"));
            let (idx, acc) = parse_case(run, &mut ctl, &y, "storemut");
            if acc {
                store_case(run, &mut ctl, idx, &y, false, &format!("{}+{kind}", m.name));
            }
        }
        // every manifest of the store through CAIManifest::from (model: `manifestFrom`)
        if let (Ok(sb), _) = read_at(&m.jumbf) {
            for i in 0..sb.data_box_count() {
                if let Some(child) = sb.data_box_as_superbox(i) {
                    let cb = written(child);
                    if cb.len() < 200_000 || run.thorough() {
                        mfrom_case(run, &mut ctl, &cb, "store");
                        // compressed-manifest detection looks at the first child only: the same manifest under another UUID
                        if child.data_box_as_brotli_box(0).is_some() {
                            let mut r = rng.fork();
                            let mut y = cb.clone();
                            if y.len() > 32 {
                                y[16..32].copy_from_slice(&u16b(*r.pick(&[U_C2MA, U_C2UM, U_JSON])));
                                run.count("mfrom_brob_other_uuid");
                                mfrom_case(run, &mut ctl, &y, "brob-uuid");
                            }
                        }
                    }
                }
            }
        }
        // a compressed store whose manifest box does not carry the c2cm UUID (still taken as compressed)
        if m.name.starts_with("compressed") {
            let pat = hex::decode(U_C2CM).expect("hex");
            if let Some(at) = m.jumbf.windows(16).position(|w| w == &pat[..]) {
                let mut y = m.jumbf.clone();
                y[at..at + 16].copy_from_slice(&u16b(U_C2MA));
                run.count("smut_brob-without-c2cm");
                let (idx, acc) = parse_case(run, &mut ctl, &y, "storemut");
                if acc {
                    store_case(run, &mut ctl, idx, &y, false, &format!("{}+brob-without-c2cm", m.name));
                }
            }
        }
        // non-canonical (but equivalent) CBOR in a data box: the store re-encodes data boxes
        if m.name.contains("databox") || m.name.starts_with("edit-v1") {
            for v in 0..3 {
                if let Some(y) = databox_noncanonical(&m.jumbf, v) {
                    run.count("smut_databox-noncanonical-cbor");
                    let (idx, acc) = parse_case(run, &mut ctl, &y, "storemut");
                    if acc {
                        store_case(run, &mut ctl, idx, &y, false, &format!("{}+databox-noncanonical-{v}", m.name));
                    }
                }
            }
        }
        // targeted: one character of the label of a manifest child box that is located by UUID
        // (claim / signature / assertion store / databoxes); the store must stay a fixed point
        for pat in [&b"c2pa.assertions\0"[..], b"c2pa.claim", b"c2pa.signature\0", b"c2pa.databoxes\0"] {
            let mut r = rng.fork();
            let hits: Vec<usize> = m.jumbf.windows(pat.len()).enumerate().filter(|(_, w)| *w == pat).map(|(i, _)| i).collect();
            if hits.is_empty() {
                continue;
            }
            let at = *r.pick(&hits);
            let mut y = m.jumbf.clone();
            let k = at + 5 + r.below(pat.len() as u64 - 6) as usize;
            y[k] = *r.pick(&[b'X', b'/', b'0', y[k] ^ 0x20]);
            run.count("smut_child-label");
            let (idx, acc) = parse_case(run, &mut ctl, &y, "storemut");
            if acc {
                store_case(run, &mut ctl, idx, &y, false, &format!("{}+child-label", m.name));
            }
        }
    }
    run.notes.push(format!("store kinds: {kinds_seen:?}"));
    for k in ["plain-v2", "plain-v1", "compressed", "thumb", "edit", "edit-v1", "update", "redact", "claim-databox", "claim-credential", "claim-databox+credential", "claim-embedded"] {
        run.obligations.insert(format!("stores:kind-{k}-present"), kinds_seen.contains(k));
    }
    run.obligations.insert("stores:databox-store-through-builder".to_string(), run.dist.get("builder_databox_store").copied().unwrap_or(0) > 0);
    run.obligations.insert("stores:non-canonical-databox-cbor-accepted-and-normalised".to_string(), run.dist.get("smut_databox-noncanonical-cbor").copied().unwrap_or(0) > 0);
    run.obligations.insert("labels-with-nul-refused-by-builder-and-store".to_string(), run.dist.get("builder_refused_label").copied().unwrap_or(0) > 0 && !kinds_seen.contains("badlabel") && !kinds_seen.contains("claim-label-nul") && !kinds_seen.contains("claim-credential-bad-id"));

    // ---- generated manifests through CAIManifest::from ----------------------------------------------
    let n_mf = if run.thorough() { 3_000 } else { 400 };
    for i in 0..n_mf {
        let mut r = rng.fork();
        let wf = i % 3 != 2;
        let inner_t = if r.chance(1, 2) { gen_tree(&mut r, 1, wf) } else { gen_ctor_tree(&mut r, 1, wf) };
        let inner = written(&t_build_super(&inner_t));
        match r.below(6) {
            0 | 1 => mfrom_case(run, &mut ctl, &inner, "plain"),
            2 | 3 => {
                let w = compressed_wrap(U_C2CM, "urn:c2pa:verif", &inner, vec![]);
                mfrom_case(run, &mut ctl, &written(&t_build_super(&w)), "compressed");
            }
            4 => {
                // other UUID, further children behind the brob box
                let extra = if r.chance(1, 2) { vec![T::L('j', b"{}".to_vec())] } else { vec![] };
                let w = compressed_wrap(*r.pick(&[U_C2MA, U_C2UM, U_JSON]), "other", &inner, extra);
                mfrom_case(run, &mut ctl, &written(&t_build_super(&w)), "brob-uuid");
            }
            _ => {
                // damaged Brotli stream
                let mut z = brotli_enc(&inner);
                if r.chance(1, 2) { let k = r.below(z.len() as u64) as usize; z.truncate(k); } else { let k = r.below(z.len() as u64) as usize; z[k] ^= 1 << r.below(8); }
                let w = T::N { uuid: u16b(U_C2CM), label: "bad".into(), salt: None, kids: vec![T::L('b', z)] };
                mfrom_case(run, &mut ctl, &written(&t_build_super(&w)), "brotli-damaged");
            }
        }
    }
    // accepted inputs with a quirk: the re-read inside CAIManifest::from changes or rejects them
    let quirky = std::mem::take(&mut ctl.quirky);
    for (i, x) in quirky.iter().enumerate() {
        if run.thorough() || i < 150 {
            mfrom_case(run, &mut ctl, x, "quirk");
        }
    }
    run.obligations.insert("manifest-reload:quirky-inputs-exercised".to_string(), quirky.len() >= 20);
    // a Brotli stream that decompresses to nothing: the decompressor succeeds, the reader then finds no box
    for z in [vec![0x1a, 0x54, 0x6a, 0x95, 0x22, 0x7a, 0xd8, 0x37, 0xd3], vec![0x06], brotli_enc(b"")] {
        let w = T::N { uuid: u16b(U_C2CM), label: "empty".into(), salt: None, kids: vec![T::L('b', z)] };
        let before = run.impls.len();
        mfrom_case(run, &mut ctl, &written(&t_build_super(&w)), "brotli-empty");
        let reply = run.impls.get(before).cloned().unwrap_or_default();
        run.obligations.insert("compressed-empty-output-is-an-error".to_string(), reply.starts_with("err "));
    }
    // the depth budget starts again inside a compressed manifest: 32 levels inside are accepted, 33 are not
    for n in [31usize, 32, 33] {
        let inner = written(&t_build_super(&chain(n)));
        let w = compressed_wrap(U_C2CM, "deep", &inner, vec![]);
        let before = run.impls.len();
        mfrom_case(run, &mut ctl, &written(&t_build_super(&w)), "depth");
        let reply = run.impls.get(before).cloned().unwrap_or_default();
        run.obligations.insert(format!("compressed-depth-restart:chain-{n}"), if n <= 32 { reply.starts_with("ok c=1") } else { reply == "err BoxNestingTooDeep" });
    }
    run.obligations.insert("no-hang".to_string(), ctl.hangs == 0);
}
