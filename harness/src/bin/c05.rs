//! C05 — signer trust decisions follow the configured trust policy.
//!
//! Request lines (see lean/C2paModel/Model/C05.lean):
//!   C05 trust backend=openssl pass= lines= pems= nsys= nuser= only= cfg= hash= eparse= cparse=
//!             sparse= uparse= eku= sysv= userv=             -> ok:<System|User|EndEntity|NoCheck> | err:<Kind>
//!   C05 e2e   <C06 facts> t=- now= mode=<trust|profile> sigok=1 + the fields above
//!                                                            -> <state> S=<codes> F=<codes>
//!
//! `trust` drives `CertificateTrustPolicy::check_certificate_trust` (public API) on generated
//! hierarchies; `e2e` signs an asset with the hierarchy's end-entity credential through a custom
//! signer and reads it back with trust settings. `sysv`/`userv` — does the supplied chain lead to
//! an anchor of that store at the signing time — are known *by construction* of the hierarchy
//! (which key signed which certificate, which certificates were supplied/anchored, validity
//! windows); the implementation decides the same question with OpenSSL.

#[path = "../certgen.rs"]
mod certgen;
#[path = "../credcase.rs"]
mod credcase;

use c2pa::crypto::cose::CertificateTrustPolicy;
use certgen::*;
use credcase::*;
use ::vh::common::{guarded, main_with, Rng, Run};

fn main() {
    main_with("C05", run);
}

const DAY: i64 = 86_400;

fn now_epoch() -> i64 {
    std::time::SystemTime::now()
        .duration_since(std::time::UNIX_EPOCH)
        .map(|d| d.as_secs() as i64)
        .unwrap_or(0)
}

fn b64_sha256(der: &[u8]) -> String {
    openssl::base64::encode_block(&openssl::sha::sha256(der))
}

/// One certificate of a generated world, with what is known about it by construction.
#[derive(Clone)]
struct Node {
    der: Vec<u8>,
    /// index of the node whose key signed this certificate (itself when self-signed)
    issuer: usize,
    nb: i64,
    na: i64,
    name: String,
}

/// A hierarchy: `nodes[0]` is the end-entity certificate, `nodes[1..=depth]` its CAs upwards
/// (the last one self-signed), then extras: an unrelated root and an impostor of the
/// end-entity's issuer (same subject name, different key).
struct World {
    nodes: Vec<Node>,
    depth: usize,
    unrelated: usize,
    /// the credential plan of the end-entity certificate (its C06 facts)
    plan: Plan,
    ee_kind: KeyKind,
}

const GOOD_KINDS: [KeyKind; 5] = [KeyKind::Rsa(2048), KeyKind::P256, KeyKind::P384, KeyKind::Ed25519, KeyKind::P521];

/// EKU variants of the end-entity certificate (mutation names of `credcase`).
const EKU_VARIANTS: [&str; 7] =
    ["", "eku-docsigning", "eku-c2pa", "eku-server-auth", "eku-absent", "eku-unlisted", "eku-any-email"];

struct Shape {
    depth: usize,
    eku: &'static str,
    /// which certificate (level) gets a validity window that excludes `bad_time`: none = usize::MAX
    expired_level: usize,
    /// the end-entity certificate is signed by the impostor key instead of its issuer's
    wrong_issuer: bool,
}

fn build_world(ring: &mut KeyRing, rng: &mut Rng, serial: &mut u64, shape: &Shape, t_ref: i64) -> World {
    let depth = shape.depth;
    // key kinds per level: level 0 = EE
    let kinds: Vec<KeyKind> = (0..=depth).map(|_| *rng.pick(&GOOD_KINDS)).collect();
    let key_no = |level: usize| -> u8 { 10 + level as u8 };
    for (l, k) in kinds.iter().enumerate() {
        ring.get(*k, key_no(l));
    }
    let names: Vec<String> = (0..=depth).map(|l| format!("h{} level{} {}", *serial, l, kinds[l].tag())).collect();
    let window = |level: usize| -> (i64, i64) {
        if level == shape.expired_level {
            (t_ref - 900 * DAY, t_ref - 100 * DAY)
        } else {
            (t_ref - 1000 * DAY, t_ref + 1000 * DAY)
        }
    };
    let mut nodes: Vec<Node> = vec![];
    // CAs, top down so that issuers exist; store temporarily by level
    let mut by_level: Vec<Option<Node>> = vec![None; depth + 1];
    for level in (1..=depth).rev() {
        *serial += 1;
        let is_root = level == depth;
        let issuer_level = if is_root { level } else { level + 1 };
        let (nb, na) = window(level);
        let spec = ca_spec(*serial, &names[issuer_level], &names[level], kinds[issuer_level], nb, na, is_root);
        let der = {
            ring.get(kinds[level], key_no(level));
            ring.get(kinds[issuer_level], key_no(issuer_level));
            let sk = ring_key(ring, kinds[level], key_no(level));
            let ik = ring_key(ring, kinds[issuer_level], key_no(issuer_level));
            build_cert(&spec, sk, ik)
        };
        by_level[level] = Some(Node { der, issuer: issuer_level, nb, na, name: names[level].clone() });
    }
    // impostor of the EE's issuer: same subject name, different key, self-signed
    let imp_kind = KeyKind::P256;
    ring.get(imp_kind, 99);
    // end entity
    *serial += 1;
    let (nb, na) = window(0);
    let issuer_kind = if depth == 0 { kinds[0] } else { kinds[1] };
    let mut plan = base_plan(*serial, kinds[0], issuer_kind, nb, na);
    plan.spec.subject.1 = names[0].clone();
    if depth == 0 {
        mutate(&mut plan, "self-signed", t_ref);
    } else {
        plan.spec.issuer.1 = names[1].clone();
    }
    if !shape.eku.is_empty() {
        mutate(&mut plan, shape.eku, t_ref);
    }
    let wrong = shape.wrong_issuer && depth > 0;
    if wrong {
        plan.spec.sig_alg = SigAlg::default_for(imp_kind);
        plan.label = format!("{}+wrong-issuer", plan.label);
    }
    let ee_der = {
        let sk = ring_key(ring, kinds[0], key_no(0));
        let ik = if depth == 0 {
            sk
        } else if wrong {
            ring_key(ring, imp_kind, 99)
        } else {
            ring_key(ring, kinds[1], key_no(1))
        };
        build_cert(&plan.spec, sk, ik)
    };
    // assemble: index = level for 0..=depth
    let imp_index = depth + 2;
    nodes.push(Node {
        der: ee_der,
        issuer: if depth == 0 { 0 } else if wrong { imp_index } else { 1 },
        nb,
        na,
        name: names[0].clone(),
    });
    for level in 1..=depth {
        nodes.push(by_level[level].take().expect("level"));
    }
    // unrelated root
    *serial += 1;
    let un_kind = KeyKind::P384;
    ring.get(un_kind, 98);
    let un_name = format!("h{} unrelated", *serial);
    let un_der = {
        let k = ring_key(ring, un_kind, 98);
        build_cert(&ca_spec(*serial, &un_name, &un_name, un_kind, t_ref - 1000 * DAY, t_ref + 1000 * DAY, true), k, k)
    };
    let unrelated = nodes.len();
    nodes.push(Node { der: un_der, issuer: unrelated, nb: t_ref - 1000 * DAY, na: t_ref + 1000 * DAY, name: un_name });
    // impostor certificate (self-signed, named like the EE's issuer)
    *serial += 1;
    let imp_name = if depth == 0 { format!("h{} impostor", *serial) } else { names[1].clone() };
    let imp_der = {
        let k = ring_key(ring, imp_kind, 99);
        build_cert(&ca_spec(*serial, &imp_name, &imp_name, imp_kind, t_ref - 1000 * DAY, t_ref + 1000 * DAY, true), k, k)
    };
    debug_assert_eq!(nodes.len(), imp_index);
    nodes.push(Node { der: imp_der, issuer: imp_index, nb: t_ref - 1000 * DAY, na: t_ref + 1000 * DAY, name: imp_name });
    World { nodes, depth, unrelated, plan, ee_kind: kinds[0] }
}

fn ring_key(ring: &KeyRing, kind: KeyKind, n: u8) -> &Key {
    ring.peek(kind, n)
}

impl World {
    /// Ground truth by construction: does the end-entity certificate chain, through the supplied
    /// certificates, to a certificate of `store`, every certificate of the path being inside its
    /// validity window at `t` (`None` = times are not checked)?
    ///
    /// The path is the one RFC 5280 path building with "trusted certificates first" and
    /// "any certificate of the store may end the path" (OpenSSL's PARTIAL_CHAIN) yields: walk up
    /// from the end entity; an issuer found in the store ends the path there; otherwise the walk
    /// continues through supplied certificates as far as they go; if no store certificate was
    /// reached the path is still accepted when the end-entity certificate itself is in the store
    /// — but then every supplied certificate that was walked belongs to the path and must be
    /// inside its validity window too.
    fn chains_to(&self, store: &[usize], supplied: &[usize], t: Option<i64>) -> bool {
        let mut path = vec![0usize];
        let mut cur = 0usize;
        let mut reached = false;
        for _ in 0..8 {
            let iss = self.nodes[cur].issuer;
            if iss == cur {
                reached = store.contains(&cur);
                break;
            }
            if store.contains(&iss) {
                path.push(iss);
                reached = true;
                break;
            }
            if supplied.contains(&iss) {
                path.push(iss);
                cur = iss;
            } else {
                break;
            }
        }
        if !reached && !store.contains(&0) {
            return false;
        }
        match t {
            None => true,
            Some(t) => path.iter().all(|i| self.nodes[*i].nb <= t && t <= self.nodes[*i].na),
        }
    }
}

/// One allow-list text element.
#[derive(Clone)]
enum AllowItem {
    /// PEM block of node i
    Pem(usize),
    /// bare hash line of node i
    Hash(usize),
    /// hash of node i placed between BEGIN/END lines of a bogus block: must be ignored
    HashInsideBlock(usize),
    /// a 44-character line that is not base64
    NotBase64,
    /// the hash of node i with one character removed (43 characters)
    ShortHash(usize),
    Comment,
}

struct Config {
    passthrough: bool,
    sys: Vec<usize>,
    user: Vec<usize>,
    /// a PEM block holding bytes that are not a certificate is appended to this store
    sys_junk: bool,
    user_junk: bool,
    allow: Vec<AllowItem>,
    only: bool,
    extra_ekus: Vec<String>,
    /// supplied chain (node indices, end-entity excluded), in the order supplied
    supplied: Vec<usize>,
    /// a non-certificate blob is appended to the supplied chain
    chain_junk: bool,
    time: Option<i64>,
}

struct AllowText {
    text: String,
    /// protocol encoding of the lines and of the PEM hashes
    lines: String,
    pems: String,
    /// ground truth: is the end-entity certificate allow-listed by construction?
    lists_ee: bool,
}

fn allow_text(w: &World, items: &[AllowItem]) -> AllowText {
    let mut text = String::new();
    let mut lines: Vec<String> = vec![];
    let mut pems: Vec<String> = vec![];
    let mut lists_ee = false;
    let enc = |flags: &str, t: &str| format!("{}~{}", if flags.is_empty() { "-" } else { flags }, t.replace(' ', "_"));
    for it in items {
        match it {
            AllowItem::Pem(i) => {
                let p = pem("CERTIFICATE", &w.nodes[*i].der);
                for l in p.lines() {
                    let mut fl = String::new();
                    if l.contains("-----BEGIN") {
                        fl.push('b');
                    }
                    if l.contains("-----END") {
                        fl.push('e');
                    }
                    // body lines are base64 (the flag matters only for 44-character lines)
                    if !l.starts_with('-') {
                        fl.push('k');
                    }
                    lines.push(enc(&fl, l));
                }
                text.push_str(&p);
                pems.push(b64_sha256(&w.nodes[*i].der));
                if *i == 0 {
                    lists_ee = true;
                }
            }
            AllowItem::Hash(i) => {
                let h = b64_sha256(&w.nodes[*i].der);
                lines.push(enc("k", &h));
                text.push_str(&h);
                text.push('\n');
                if *i == 0 {
                    lists_ee = true;
                }
            }
            AllowItem::HashInsideBlock(i) => {
                let h = b64_sha256(&w.nodes[*i].der);
                // not a PEM label the PEM reader yields a block for
                for (fl, l) in [("b", "# -----BEGIN NOTES"), ("k", h.as_str()), ("e", "# -----END NOTES")] {
                    lines.push(enc(fl, l));
                    text.push_str(l);
                    text.push('\n');
                }
            }
            AllowItem::NotBase64 => {
                let l = "*".repeat(44);
                lines.push(enc("", &l));
                text.push_str(&l);
                text.push('\n');
            }
            AllowItem::ShortHash(i) => {
                let h = b64_sha256(&w.nodes[*i].der);
                let l = &h[..43];
                lines.push(enc("", l));
                text.push_str(l);
                text.push('\n');
            }
            AllowItem::Comment => {
                let l = "# trusted signers";
                lines.push(enc("", l));
                text.push_str(l);
                text.push('\n');
            }
        }
    }
    AllowText {
        text,
        lines: if lines.is_empty() { "-".into() } else { lines.join("|") },
        pems: if pems.is_empty() { "-".into() } else { pems.join(",") },
        lists_ee,
    }
}

fn anchors_pem(w: &World, idx: &[usize], junk: bool) -> String {
    let mut s: String = idx.iter().map(|i| pem("CERTIFICATE", &w.nodes[*i].der)).collect();
    if junk {
        s.push_str(&pem("CERTIFICATE", b"this is not a certificate"));
    }
    s
}

/// EKU fact of the end-entity certificate in the C06 protocol encoding (`none` when absent).
fn eku_fact(w: &World) -> String {
    let f = w.plan.facts();
    f.split(' ').find(|t| t.starts_with("eku=")).map(|t| t[4..].to_string()).unwrap_or_else(|| "none".into())
}

/// Does the end-entity certificate carry an EKU the configuration accepts (statement level)?
fn eku_accepted(w: &World, allowed: &[String]) -> bool {
    let oids: Vec<&String> = w
        .plan
        .spec
        .exts
        .iter()
        .filter_map(|e| match &e.ext {
            Ext::Eku(o) => Some(o),
            _ => None,
        })
        .flatten()
        .collect();
    oids.iter().any(|o| {
        allowed.contains(o) || [EKU_EMAIL, EKU_TIME_STAMPING, EKU_OCSP].contains(&o.as_str())
    })
}

/// The policy/query fields of a request line.
fn policy_fields(w: &World, c: &Config, allow: &AllowText, allowed: &[String]) -> (String, bool, bool) {
    let sysv = c.sys.iter().all(|_| true) && w.chains_to(&c.sys, &c.supplied, c.time);
    let userv = w.chains_to(&c.user, &c.supplied, c.time);
    let s = format!(
        "backend=openssl pass={} lines={} pems={} nsys={} nuser={} only={} cfg={} hash={} eparse=1 cparse={} sparse={} uparse={} eku={} sysv={} userv={}",
        c.passthrough as u8,
        allow.lines,
        allow.pems,
        c.sys.len() + c.sys_junk as usize,
        c.user.len() + c.user_junk as usize,
        c.only as u8,
        if allowed.is_empty() { "-".to_string() } else { allowed.join(",") },
        b64_sha256(&w.nodes[0].der),
        !c.chain_junk as u8,
        !c.sys_junk as u8,
        !c.user_junk as u8,
        eku_fact(w),
        sysv as u8,
        userv as u8
    );
    // provenance of the case (ignored by the model)
    let dbg = format!(
        "d{}/chain{:?}/sys{:?}/user{:?}/t{}/{}",
        w.depth,
        c.supplied,
        c.sys,
        c.user,
        c.time.map(|t| ((t - now_epoch()) / DAY).to_string()).unwrap_or_else(|| "none".into()),
        w.plan.label
    )
    .replace(' ', "");
    let s = format!("{s} dbg={dbg}");
    (s, sysv, userv)
}

fn build_ctp(w: &World, c: &Config, allow: &AllowText) -> CertificateTrustPolicy {
    let mut ctp = if c.passthrough { CertificateTrustPolicy::passthrough() } else { CertificateTrustPolicy::default() };
    if !c.sys.is_empty() || c.sys_junk {
        ctp.add_trust_anchors(anchors_pem(w, &c.sys, c.sys_junk).as_bytes()).expect("anchors");
    }
    if !c.user.is_empty() || c.user_junk {
        ctp.add_user_trust_anchors(anchors_pem(w, &c.user, c.user_junk).as_bytes()).expect("user anchors");
    }
    if !allow.text.is_empty() {
        ctp.add_end_entity_credentials(allow.text.as_bytes()).expect("allow list");
    }
    if !c.extra_ekus.is_empty() {
        ctp.add_valid_ekus(c.extra_ekus.join("\n").as_bytes());
    }
    ctp.set_trust_anchors_only(c.only);
    ctp
}

fn trust_case(run: &mut Run, w: &World, c: &Config, default_ekus: &[String]) {
    let allow = allow_text(w, &c.allow);
    let mut allowed: Vec<String> = if c.passthrough { vec![] } else { default_ekus.to_vec() };
    allowed.extend(c.extra_ekus.iter().cloned());
    let (fields, sysv, userv) = policy_fields(w, c, &allow, &allowed);
    let ctp = build_ctp(w, c, &allow);
    let mut chain: Vec<Vec<u8>> = c.supplied.iter().map(|i| w.nodes[*i].der.clone()).collect();
    if c.chain_junk {
        chain.push(b"junk that is not DER".to_vec());
    }
    let ee = w.nodes[0].der.clone();
    let time = c.time;
    let res = guarded(std::panic::AssertUnwindSafe(|| ctp.check_certificate_trust(&chain, &ee, time)));
    let req = format!("C05 trust {fields}");
    let reply = match &res {
        Ok(Ok(a)) => format!("ok:{a:?}"),
        Ok(Err(e)) => {
            let k = format!("{e:?}");
            format!("err:{}", k.split('(').next().unwrap_or(""))
        }
        Err(_) => "panic".to_string(),
    };
    run.count(&format!("trust_{}", reply.replace(':', "_")));
    run.count(&format!("depth_{}", w.depth));
    if c.passthrough || allow.lists_ee || sysv || userv || !c.allow.is_empty() {
        run.nontrivial(req.clone());
    }
    let idx = run.case(req, reply.clone());
    if let Err(p) = res {
        run.fail(idx, "panic", p);
        return;
    }
    // the statement, from ground truth: trusted iff allow-listed, or an accepted EKU and a chain
    // to a configured system anchor, or (unless anchors-only) to a user anchor
    let broken_input = c.chain_junk || c.sys_junk || (c.user_junk && !c.only && !sysv);
    let chain_trust = eku_accepted(w, &allowed) && (sysv || (!c.only && userv));
    let expect_trusted = c.passthrough || allow.lists_ee || (chain_trust && !broken_input);
    let got_trusted = reply.starts_with("ok:");
    if broken_input && !c.passthrough && !allow.lists_ee {
        if got_trusted {
            run.fail(idx, "trusted-with-undecodable-input", format!("undecodable chain/anchor input but {reply}"));
        }
    } else if got_trusted != expect_trusted {
        run.fail(
            idx,
            if got_trusted { "trusted-against-policy" } else { "untrusted-against-policy" },
            format!("expected trusted={expect_trusted} (allow-listed={} sys={sysv} user={userv} only={} eku-accepted={}), got {reply}",
                allow.lists_ee, c.only, eku_accepted(w, &allowed)),
        );
    }
    if c.only && reply == "ok:User" {
        run.fail(idx, "anchors-only-accepted-user-anchor", reply.clone());
    }
    if reply == "ok:User" && !userv {
        run.fail(idx, "trusted-against-policy", "User verdict without a chain to a user anchor".into());
    }
    if reply == "ok:System" && !sysv {
        run.fail(idx, "trusted-against-policy", "System verdict without a chain to a system anchor".into());
    }
    if reply == "ok:EndEntity" && !allow.lists_ee {
        run.fail(idx, "trusted-against-policy", "EndEntity verdict for a certificate not on the allow list".into());
    }
}

fn e2e_case(run: &mut Run, ring: &mut KeyRing, src: &[u8], w: &World, c: &Config, verify_trust: bool, default_ekus: &[String]) {
    let now = now_epoch();
    let allow = allow_text(w, &c.allow);
    let mut allowed: Vec<String> = default_ekus.to_vec();
    allowed.extend(c.extra_ekus.iter().cloned());
    // no time stamp end to end: OpenSSL is told not to check times
    let c_time_none = Config { time: None, passthrough: false, only: false, chain_junk: false, ..clone_config(c) };
    let (fields, sysv, userv) = policy_fields(w, &c_time_none, &allow, &allowed);
    let mut chain = vec![w.nodes[0].der.clone()];
    chain.extend(c.supplied.iter().map(|i| w.nodes[*i].der.clone()));
    let key = ring_key(ring, w.ee_kind, 10);
    let asset = match guarded(std::panic::AssertUnwindSafe(|| sign_asset(src, &chain, key))) {
        Ok(Ok(a)) => a,
        Ok(Err(e)) => {
            run.count("e2e_unsignable");
            run.notes.push(format!("e2e skipped: {}", e.chars().take(90).collect::<String>()));
            run.notes.dedup();
            return;
        }
        Err(p) => {
            let idx = run.case(format!("C05 e2e sign-panic {fields}"), "panic".into());
            run.fail(idx, "panic", p);
            return;
        }
    };
    let mut trust = serde_json::Map::new();
    if !c.sys.is_empty() || c.sys_junk {
        trust.insert("trust_anchors".into(), anchors_pem(w, &c.sys, c.sys_junk).into());
    }
    if !c.user.is_empty() || c.user_junk {
        trust.insert("user_anchors".into(), anchors_pem(w, &c.user, c.user_junk).into());
    }
    if !allow.text.is_empty() {
        trust.insert("allowed_list".into(), allow.text.clone().into());
    }
    if !c.extra_ekus.is_empty() {
        trust.insert("trust_config".into(), c.extra_ekus.join("\n").into());
    }
    let settings = serde_json::json!({"verify": {"verify_trust": verify_trust}, "trust": trust}).to_string();
    let out = match guarded(std::panic::AssertUnwindSafe(|| read_asset(&asset, &settings))) {
        Ok(Ok(o)) => o,
        Ok(Err(e)) => {
            let idx = run.case(format!("C05 e2e unreadable {fields}"), format!("read-error {e}"));
            run.fail(idx, "unreadable", e);
            return;
        }
        Err(p) => {
            let idx = run.case(format!("C05 e2e read-panic {fields}"), "panic".into());
            run.fail(idx, "panic", p);
            return;
        }
    };
    let req = format!(
        "C05 e2e {} t=- now={} mode={} sigok=1 {}",
        w.plan.facts(),
        now,
        if verify_trust { "trust" } else { "profile" },
        fields
    );
    run.count(&format!("e2e_{}", out.state));
    run.nontrivial(req.clone());
    let idx = run.case(req, out.line());

    // property oracle on the reader's report
    let has_trusted = out.success.iter().any(|x| x == "signingCredential.trusted");
    let has_untrusted = out.failure.iter().any(|x| x == "signingCredential.untrusted");
    if !verify_trust {
        if has_trusted || has_untrusted || out.state == "trusted" {
            run.fail(idx, "verdict-with-trust-disabled", format!("verify_trust=false but {}", out.line()));
        }
        return;
    }
    let broken_input = c.sys_junk || (c.user_junk && !sysv);
    let chain_trust = eku_accepted(w, &allowed) && (sysv || userv);
    let expect_trusted = allow.lists_ee || (chain_trust && !broken_input);
    if has_trusted == has_untrusted {
        run.fail(idx, "verdict-not-exactly-one", format!("trusted={has_trusted} untrusted={has_untrusted}: {}", out.line()));
    }
    if broken_input && !allow.lists_ee {
        if has_trusted {
            run.fail(idx, "trusted-with-undecodable-input", out.line());
        }
    } else if has_trusted != expect_trusted {
        run.fail(
            idx,
            if has_trusted { "trusted-against-policy" } else { "untrusted-against-policy" },
            format!("expected trusted={expect_trusted} (allow-listed={} sys={sysv} user={userv} eku-accepted={}): {}",
                allow.lists_ee, eku_accepted(w, &allowed), out.line()),
        );
    }
    let violations = w.plan.violations(now, &allowed);
    let expect_state = if !violations.is_empty() {
        "invalid"
    } else if has_trusted {
        "trusted"
    } else {
        "valid"
    };
    if out.state != expect_state {
        run.fail(idx, "state-against-policy", format!("expected {expect_state} (violations {violations:?}): {}", out.line()));
    }
    if out.state == "trusted" && !(allow.lists_ee || chain_trust) {
        run.fail(idx, "trusted-against-policy", format!("Trusted state against the policy: {}", out.line()));
    }
}

fn clone_config(c: &Config) -> Config {
    Config {
        passthrough: c.passthrough,
        sys: c.sys.clone(),
        user: c.user.clone(),
        sys_junk: c.sys_junk,
        user_junk: c.user_junk,
        allow: c.allow.clone(),
        only: c.only,
        extra_ekus: c.extra_ekus.clone(),
        supplied: c.supplied.clone(),
        chain_junk: c.chain_junk,
        time: c.time,
    }
}

/// Ways of supplying the chain: node index lists (EE excluded) for a hierarchy of `depth` CAs.
fn supplied_variants(w: &World, rng: &mut Rng) -> Vec<(&'static str, Vec<usize>)> {
    let d = w.depth;
    let all: Vec<usize> = (1..=d).collect();
    let mut v: Vec<(&'static str, Vec<usize>)> = vec![("full", all.clone())];
    if d >= 1 {
        v.push(("no-root", (1..d).collect()));
        v.push(("none", vec![]));
        let mut rev = all.clone();
        rev.reverse();
        v.push(("reversed", rev));
        let mut with_unrelated = all.clone();
        with_unrelated.insert(rng.below(all.len() as u64 + 1) as usize, w.unrelated);
        v.push(("with-unrelated", with_unrelated));
        v.push(("with-impostor", {
            let mut x = all.clone();
            x.insert(0, d + 2);
            x
        }));
    }
    if d >= 2 {
        v.push(("missing-intermediate", (2..=d).collect()));
        let mut sh = all.clone();
        for i in (1..sh.len()).rev() {
            let j = rng.below(i as u64 + 1) as usize;
            sh.swap(i, j);
        }
        v.push(("shuffled", sh));
    }
    v
}

fn random_config(w: &World, rng: &mut Rng, t_ref: i64) -> Config {
    let d = w.depth;
    let pick_store = |rng: &mut Rng| -> Vec<usize> {
        match rng.below(8) {
            0 | 1 => vec![],
            2 | 3 => vec![d],                                        // the root (EE itself at depth 0)
            4 => vec![w.unrelated],
            5 => if d >= 2 { vec![rng.range(1, d as u64 - 1) as usize] } else { vec![d] }, // an intermediate
            6 => vec![w.unrelated, d],
            _ => vec![0],                                            // the end-entity certificate itself
        }
    };
    let allow = match rng.below(10) {
        0 => vec![AllowItem::Pem(0)],
        1 => vec![AllowItem::Comment, AllowItem::Hash(0)],
        2 => vec![AllowItem::Pem(w.unrelated), AllowItem::Hash(w.unrelated)],
        3 => vec![AllowItem::HashInsideBlock(0)],
        4 => vec![AllowItem::ShortHash(0), AllowItem::NotBase64],
        5 => vec![AllowItem::Pem(w.unrelated), AllowItem::Hash(0), AllowItem::NotBase64],
        6 => vec![AllowItem::HashInsideBlock(w.unrelated), AllowItem::Hash(0)],
        _ => vec![],
    };
    let variants = supplied_variants(w, rng);
    let supplied = rng.pick(&variants).1.clone();
    Config {
        passthrough: rng.chance(1, 25),
        sys: pick_store(rng),
        user: pick_store(rng),
        sys_junk: rng.chance(1, 30),
        user_junk: rng.chance(1, 30),
        allow,
        only: rng.chance(1, 3),
        extra_ekus: if rng.chance(1, 3) { vec![OID_UNLISTED_EKU.to_string()] } else { vec![] },
        supplied,
        chain_junk: rng.chance(1, 30),
        time: match rng.below(4) {
            0 => None,
            1 => Some(t_ref - 500 * DAY), // inside every window, also the "expired" one
            2 => Some(t_ref),             // outside the "expired" window
            _ => Some(t_ref + 2000 * DAY), // outside every window
        },
    }
}

pub fn run(run: &mut Run, rng: &mut Rng) {
    run.rule = "hierarchies of depth 0-3 (self-signed end entity; root; root+1..2 intermediates) with RSA/EC/Ed25519 keys per level, end-entity EKU accepted/other/absent/configured, one level optionally outside the validity window, optionally signed by an impostor issuer key; chain supplied full/partial/reordered/with foreign certificates; system and user anchors drawn from {none, root, intermediate, end entity, unrelated}, allow list by PEM/hash/near-miss lines, anchors-only, extra EKU configuration, signing time none/inside/outside. Non-trivial: some route to trust exists (allow list, chain to either store, passthrough) or an allow list is configured; every end-to-end case; distinct by request text".into();
    let default_ekus = default_eku_config();
    run.obligations.insert("default_eku_config_nonempty".into(), !default_ekus.is_empty());
    let mut ring = KeyRing::new();
    let src = std::fs::read(::vh::common::fixtures().join("IMG_0003.jpg")).expect("fixture");
    let mut serial = 1000u64;
    let now = now_epoch();
    let thorough = run.thorough();

    // 1. systematic sweep at function level
    let worlds_per_shape = if thorough { 3 } else { 1 };
    for depth in 0..=3usize {
        for eku in EKU_VARIANTS {
            for expired_level in [usize::MAX, 0, depth] {
                for wrong_issuer in [false, true] {
                    if wrong_issuer && (depth == 0 || expired_level != usize::MAX) {
                        continue;
                    }
                    if !thorough && expired_level != usize::MAX && !eku.is_empty() {
                        continue;
                    }
                    for _ in 0..worlds_per_shape {
                        let shape = Shape { depth, eku, expired_level, wrong_issuer };
                        let w = build_world(&mut ring, rng, &mut serial, &shape, now);
                        let variants = supplied_variants(&w, rng);
                        for (_, supplied) in &variants {
                            for (sys, user) in [
                                (vec![], vec![]),
                                (vec![depth], vec![]),
                                (vec![], vec![depth]),
                                (vec![w.unrelated], vec![depth]),
                                (vec![depth], vec![w.unrelated]),
                                (vec![w.unrelated], vec![]),
                            ] {
                                for only in [false, true] {
                                    for time in [None, Some(now), Some(now - 500 * DAY)] {
                                        if !thorough && time == Some(now - 500 * DAY) && expired_level == usize::MAX {
                                            continue;
                                        }
                                        let c = Config {
                                            passthrough: false,
                                            sys: sys.clone(),
                                            user: user.clone(),
                                            sys_junk: false,
                                            user_junk: false,
                                            allow: vec![],
                                            only,
                                            extra_ekus: if eku == "eku-unlisted" && only { vec![OID_UNLISTED_EKU.into()] } else { vec![] },
                                            supplied: supplied.clone(),
                                            chain_junk: false,
                                            time,
                                        };
                                        trust_case(run, &w, &c, &default_ekus);
                                    }
                                }
                            }
                        }
                    }
                }
            }
        }
    }
    run.count("systematic_sweep");

    // 2. random configurations (allow lists, junk inputs, passthrough, intermediates as anchors)
    let n = if thorough { 6000 } else { 900 };
    for i in 0..n {
        let mut r = rng.fork();
        let depth = r.below(4) as usize;
        let shape = Shape {
            depth,
            eku: if r.chance(2, 3) { "" } else { *r.pick(&EKU_VARIANTS) },
            expired_level: if r.chance(1, 4) { r.below(depth as u64 + 1) as usize } else { usize::MAX },
            wrong_issuer: r.chance(1, 10),
        };
        let w = build_world(&mut ring, &mut r, &mut serial, &shape, now);
        let reps = if i % 3 == 0 { 4 } else { 2 };
        for _ in 0..reps {
            let c = random_config(&w, &mut r, now);
            trust_case(run, &w, &c, &default_ekus);
        }
    }

    // 3. end to end through Reader settings
    let n = if thorough { 700 } else { 120 };
    for i in 0..n {
        let mut r = rng.fork();
        let depth = (i % 4) as usize;
        let shape = Shape {
            depth,
            eku: if r.chance(1, 2) { "" } else { *r.pick(&EKU_VARIANTS) },
            expired_level: usize::MAX,
            wrong_issuer: r.chance(1, 12),
        };
        let w = build_world(&mut ring, &mut r, &mut serial, &shape, now);
        let mut c = random_config(&w, &mut r, now);
        // the reader path has no passthrough / anchors-only switch and no junk chain
        c.passthrough = false;
        c.only = false;
        c.chain_junk = false;
        c.time = None;
        // the settings loader validates the allow list more strictly than the policy API: no
        // block-like comment lines end to end (the function-level stream covers them)
        for it in c.allow.iter_mut() {
            if matches!(it, AllowItem::HashInsideBlock(_)) {
                *it = AllowItem::Comment;
            }
        }
        // …and rejects a list with neither a PEM block nor a base64 line: keep every list valid
        if !c.allow.is_empty() {
            c.allow.push(AllowItem::Hash(w.unrelated));
        }
        if i % 5 == 0 {
            // the plain anchored control
            c.sys = vec![];
            c.user = vec![depth];
            c.supplied = (1..=depth).collect();
            c.allow = vec![];
            c.sys_junk = false;
            c.user_junk = false;
        }
        e2e_case(run, &mut ring, &src, &w, &c, true, &default_ekus);
        if i % 3 == 0 {
            e2e_case(run, &mut ring, &src, &w, &c, false, &default_ekus);
        }
    }
}
