//! C05 — signer trust decisions follow the configured trust policy.
//!
//! Request lines (see lean/C2paModel/Model/C05.lean):
//!   C05 trust backend=openssl pass= lines= pems= sblk= ublk= only= cfg= tc= hash= eparse= cparse=
//!             sparse= uparse= eku= sysv= userv=             -> ok:<System|User|EndEntity|NoCheck> | err:<Kind>
//!   C05 load  lines= pems=                                   -> <ok|err>:<sorted set of loaded hashes>
//!   C05 e2e   <C06 facts> t=- now= mode=<trust|profile> sigok=1 al=<0|1> + the fields above
//!                                                            -> <state> S=<codes> F=<codes>
//!   C05 verify prot=<absent|bad|chain> unprot=… <C06 facts> t=- now= mode=<trust|profile|ignore> sigok= org=
//!             + the policy/query fields                      -> <ok|err:Kind> S=<codes> F=<codes>
//!
//! `sblk`/`ublk`: one character per PEM block of the anchor text (1 = decodable PEM, 0 = a block the
//! PEM reader rejects), `e` = text without block, `-` = not configured. `pems`: `!` = rejected block.
//! `cfg` = the built-in EKU list of the starting policy, `tc` = the lines given to `add_valid_ekus`.
//!
//! `trust` drives `CertificateTrustPolicy::check_certificate_trust` (public API) on generated
//! hierarchies; `e2e` signs an asset with the hierarchy's end-entity credential through a custom
//! signer and reads it back with trust settings. `sysv`/`userv` — does the supplied chain lead to
//! an anchor of that store at the signing time — are known *by construction* of the hierarchy
//! (which key signed which certificate, which certificates were supplied/anchored, validity
//! windows); the implementation decides the same question with OpenSSL.

#[path = "../certgen.rs"]
mod certgen;
#[path = "../credcase.rs"]
mod credcase;

use std::borrow::Cow;

use c2pa::crypto::cose::{CertificateTrustPolicy, CoseError, TrustAnchorType, Verifier};
use c2pa::status_tracker::{LogKind, StatusTracker};
use coset::{cbor::value::Value, iana, CoseSign1Builder, HeaderBuilder, TaggedCborSerializable};
use certgen::*;
use credcase::*;
use ::vh::common::{guarded, main_with, Rng, Run};

fn main() {
    main_with("C05", run);
}

const DAY: i64 = 86_400;

fn now_epoch() -> i64 {
    std::time::SystemTime::now()
        .duration_since(std::time::UNIX_EPOCH)
        .map(|d| d.as_secs() as i64)
        .unwrap_or(0)
}

fn b64_sha256(der: &[u8]) -> String {
    openssl::base64::encode_block(&openssl::sha::sha256(der))
}

/// One certificate of a generated world, with what is known about it by construction.
#[derive(Clone)]
struct Node {
    der: Vec<u8>,
    /// index of the node whose key signed this certificate (itself when self-signed)
    issuer: usize,
    nb: i64,
    na: i64,
    name: String,
}

/// A hierarchy: `nodes[0]` is the end-entity certificate, `nodes[1..=depth]` its CAs upwards
/// (the last one self-signed), then extras: an unrelated root and an impostor of the
/// end-entity's issuer (same subject name, different key).
struct World {
    nodes: Vec<Node>,
    depth: usize,
    unrelated: usize,
    /// the credential plan of the end-entity certificate (its C06 facts)
    plan: Plan,
    ee_kind: KeyKind,
}

const GOOD_KINDS: [KeyKind; 5] = [KeyKind::Rsa(2048), KeyKind::P256, KeyKind::P384, KeyKind::Ed25519, KeyKind::P521];

/// EKU variants of the end-entity certificate (mutation names of `credcase`).
const EKU_VARIANTS: [&str; 7] =
    ["", "eku-docsigning", "eku-c2pa", "eku-server-auth", "eku-absent", "eku-unlisted", "eku-any-email"];

struct Shape {
    depth: usize,
    eku: &'static str,
    /// which certificate (level) gets a validity window that excludes `bad_time`: none = usize::MAX
    expired_level: usize,
    /// the end-entity certificate is signed by the impostor key instead of its issuer's
    wrong_issuer: bool,
    /// the end-entity subject has no organisation attribute
    no_org: bool,
}

fn build_world(ring: &mut KeyRing, rng: &mut Rng, serial: &mut u64, shape: &Shape, t_ref: i64) -> World {
    let depth = shape.depth;
    // key kinds per level: level 0 = EE
    let kinds: Vec<KeyKind> = (0..=depth).map(|_| *rng.pick(&GOOD_KINDS)).collect();
    let key_no = |level: usize| -> u8 { 10 + level as u8 };
    for (l, k) in kinds.iter().enumerate() {
        ring.get(*k, key_no(l));
    }
    let names: Vec<String> = (0..=depth).map(|l| format!("h{} level{} {}", *serial, l, kinds[l].tag())).collect();
    let window = |level: usize| -> (i64, i64) {
        if level == shape.expired_level {
            (t_ref - 900 * DAY, t_ref - 100 * DAY)
        } else {
            (t_ref - 1000 * DAY, t_ref + 1000 * DAY)
        }
    };
    let mut nodes: Vec<Node> = vec![];
    // CAs, top down so that issuers exist; store temporarily by level
    let mut by_level: Vec<Option<Node>> = vec![None; depth + 1];
    for level in (1..=depth).rev() {
        *serial += 1;
        let is_root = level == depth;
        let issuer_level = if is_root { level } else { level + 1 };
        let (nb, na) = window(level);
        let spec = ca_spec(*serial, &names[issuer_level], &names[level], kinds[issuer_level], nb, na, is_root);
        let der = {
            ring.get(kinds[level], key_no(level));
            ring.get(kinds[issuer_level], key_no(issuer_level));
            let sk = ring_key(ring, kinds[level], key_no(level));
            let ik = ring_key(ring, kinds[issuer_level], key_no(issuer_level));
            build_cert(&spec, sk, ik)
        };
        by_level[level] = Some(Node { der, issuer: issuer_level, nb, na, name: names[level].clone() });
    }
    // impostor of the EE's issuer: same subject name, different key, self-signed
    let imp_kind = KeyKind::P256;
    ring.get(imp_kind, 99);
    // end entity
    *serial += 1;
    let (nb, na) = window(0);
    let issuer_kind = if depth == 0 { kinds[0] } else { kinds[1] };
    let mut plan = base_plan(*serial, kinds[0], issuer_kind, nb, na);
    plan.spec.subject.1 = names[0].clone();
    if shape.no_org {
        plan.spec.subject.0 = String::new();
    }
    if depth == 0 {
        mutate(&mut plan, "self-signed", t_ref);
    } else {
        plan.spec.issuer.1 = names[1].clone();
    }
    if !shape.eku.is_empty() {
        mutate(&mut plan, shape.eku, t_ref);
    }
    let wrong = shape.wrong_issuer && depth > 0;
    if wrong {
        plan.spec.sig_alg = SigAlg::default_for(imp_kind);
        plan.label = format!("{}+wrong-issuer", plan.label);
    }
    let ee_der = {
        let sk = ring_key(ring, kinds[0], key_no(0));
        let ik = if depth == 0 {
            sk
        } else if wrong {
            ring_key(ring, imp_kind, 99)
        } else {
            ring_key(ring, kinds[1], key_no(1))
        };
        build_cert(&plan.spec, sk, ik)
    };
    // assemble: index = level for 0..=depth
    let imp_index = depth + 2;
    nodes.push(Node {
        der: ee_der,
        issuer: if depth == 0 { 0 } else if wrong { imp_index } else { 1 },
        nb,
        na,
        name: names[0].clone(),
    });
    for level in 1..=depth {
        nodes.push(by_level[level].take().expect("level"));
    }
    // unrelated root
    *serial += 1;
    let un_kind = KeyKind::P384;
    ring.get(un_kind, 98);
    let un_name = format!("h{} unrelated", *serial);
    let un_der = {
        let k = ring_key(ring, un_kind, 98);
        build_cert(&ca_spec(*serial, &un_name, &un_name, un_kind, t_ref - 1000 * DAY, t_ref + 1000 * DAY, true), k, k)
    };
    let unrelated = nodes.len();
    nodes.push(Node { der: un_der, issuer: unrelated, nb: t_ref - 1000 * DAY, na: t_ref + 1000 * DAY, name: un_name });
    // impostor certificate (self-signed, named like the EE's issuer)
    *serial += 1;
    let imp_name = if depth == 0 { format!("h{} impostor", *serial) } else { names[1].clone() };
    let imp_der = {
        let k = ring_key(ring, imp_kind, 99);
        build_cert(&ca_spec(*serial, &imp_name, &imp_name, imp_kind, t_ref - 1000 * DAY, t_ref + 1000 * DAY, true), k, k)
    };
    debug_assert_eq!(nodes.len(), imp_index);
    nodes.push(Node { der: imp_der, issuer: imp_index, nb: t_ref - 1000 * DAY, na: t_ref + 1000 * DAY, name: imp_name });
    World { nodes, depth, unrelated, plan, ee_kind: kinds[0] }
}

fn ring_key(ring: &KeyRing, kind: KeyKind, n: u8) -> &Key {
    ring.peek(kind, n)
}

impl World {
    /// Ground truth by construction: does the end-entity certificate chain, through the supplied
    /// certificates, to a certificate of `store`, every certificate of the path being inside its
    /// validity window at `t` (`None` = times are not checked)?
    ///
    /// The path is the one RFC 5280 path building with "trusted certificates first" and
    /// "any certificate of the store may end the path" (OpenSSL's PARTIAL_CHAIN) yields: walk up
    /// from the end entity; an issuer found in the store ends the path there; otherwise the walk
    /// continues through supplied certificates as far as they go; if no store certificate was
    /// reached the path is still accepted when the end-entity certificate itself is in the store
    /// — but then every supplied certificate that was walked belongs to the path and must be
    /// inside its validity window too.
    fn chains_to(&self, store: &[usize], supplied: &[usize], t: Option<i64>) -> bool {
        let mut path = vec![0usize];
        let mut cur = 0usize;
        let mut reached = false;
        for _ in 0..8 {
            let iss = self.nodes[cur].issuer;
            if iss == cur {
                reached = store.contains(&cur);
                break;
            }
            if store.contains(&iss) {
                path.push(iss);
                reached = true;
                break;
            }
            if supplied.contains(&iss) {
                path.push(iss);
                cur = iss;
            } else {
                break;
            }
        }
        if !reached && !store.contains(&0) {
            return false;
        }
        match t {
            None => true,
            Some(t) => path.iter().all(|i| self.nodes[*i].nb <= t && t <= self.nodes[*i].na),
        }
    }
}

/// One allow-list text element.
#[derive(Clone)]
enum AllowItem {
    /// PEM block of node i
    Pem(usize),
    /// bare hash line of node i
    Hash(usize),
    /// hash of node i placed between BEGIN/END lines of a bogus block: must be ignored
    HashInsideBlock(usize),
    /// a 44-character line that is not base64
    NotBase64,
    /// the hash of node i with one character removed (43 characters)
    ShortHash(usize),
    Comment,
    /// a PEM block whose body is not base64: the PEM reader yields `Err`, the loader stops there
    BadPem,
}

struct Config {
    passthrough: bool,
    sys: Vec<usize>,
    user: Vec<usize>,
    /// a PEM block holding bytes that are not a certificate is appended to this store
    sys_junk: bool,
    user_junk: bool,
    /// a PEM block the PEM reader rejects is placed before this position of the anchor list
    /// (the junk block comes last): `add_*_trust_anchors` keeps what precedes it and returns `Err`
    sys_badpem: Option<usize>,
    user_badpem: Option<usize>,
    /// a line that is not an OID is mixed into the EKU configuration text
    eku_noise: bool,
    allow: Vec<AllowItem>,
    only: bool,
    extra_ekus: Vec<String>,
    /// supplied chain (node indices, end-entity excluded), in the order supplied
    supplied: Vec<usize>,
    /// a non-certificate blob is appended to the supplied chain
    chain_junk: bool,
    time: Option<i64>,
}

struct AllowText {
    text: String,
    /// protocol encoding of the lines and of the PEM hashes
    lines: String,
    pems: String,
    /// ground truth: is the end-entity certificate allow-listed by construction?
    lists_ee: bool,
}

fn allow_text(w: &World, items: &[AllowItem]) -> AllowText {
    let mut text = String::new();
    let mut lines: Vec<String> = vec![];
    let mut pems: Vec<String> = vec![];
    let mut lists_ee = false;
    // blocks after a rejected PEM block are never reached by the loader
    let mut pem_loop_alive = true;
    let enc = |flags: &str, t: &str| format!("{}~{}", if flags.is_empty() { "-" } else { flags }, t.replace(' ', "_"));
    for it in items {
        match it {
            AllowItem::Pem(i) => {
                let p = pem("CERTIFICATE", &w.nodes[*i].der);
                for l in p.lines() {
                    let mut fl = String::new();
                    if l.contains("-----BEGIN") {
                        fl.push('b');
                    }
                    if l.contains("-----END") {
                        fl.push('e');
                    }
                    // body lines are base64 (the flag matters only for 44-character lines)
                    if !l.starts_with('-') {
                        fl.push('k');
                    }
                    lines.push(enc(&fl, l));
                }
                text.push_str(&p);
                pems.push(b64_sha256(&w.nodes[*i].der));
                if *i == 0 && pem_loop_alive {
                    lists_ee = true;
                }
            }
            AllowItem::BadPem => {
                for (fl, l) in [("b", "-----BEGIN CERTIFICATE-----"), ("", "@@@@ this is not base64 @@@@"), ("e", "-----END CERTIFICATE-----")] {
                    lines.push(enc(fl, l));
                    text.push_str(l);
                    text.push('\n');
                }
                pems.push("!".into());
                pem_loop_alive = false;
            }
            AllowItem::Hash(i) => {
                let h = b64_sha256(&w.nodes[*i].der);
                lines.push(enc("k", &h));
                text.push_str(&h);
                text.push('\n');
                if *i == 0 {
                    lists_ee = true;
                }
            }
            AllowItem::HashInsideBlock(i) => {
                let h = b64_sha256(&w.nodes[*i].der);
                // not a PEM label the PEM reader yields a block for
                for (fl, l) in [("b", "# -----BEGIN NOTES"), ("k", h.as_str()), ("e", "# -----END NOTES")] {
                    lines.push(enc(fl, l));
                    text.push_str(l);
                    text.push('\n');
                }
            }
            AllowItem::NotBase64 => {
                let l = "*".repeat(44);
                lines.push(enc("", &l));
                text.push_str(&l);
                text.push('\n');
            }
            AllowItem::ShortHash(i) => {
                let h = b64_sha256(&w.nodes[*i].der);
                let l = &h[..43];
                lines.push(enc("", l));
                text.push_str(l);
                text.push('\n');
            }
            AllowItem::Comment => {
                let l = "# trusted signers";
                lines.push(enc("", l));
                text.push_str(l);
                text.push('\n');
            }
        }
    }
    AllowText {
        text,
        lines: if lines.is_empty() { "-".into() } else { lines.join("|") },
        pems: if pems.is_empty() { "-".into() } else { pems.join(",") },
        lists_ee,
    }
}

/// An anchor text and what the loader makes of it, by construction.
struct AnchorStore {
    text: String,
    /// protocol encoding: one character per PEM block, `-` when nothing is configured
    blocks: String,
    /// the anchors that end up in the policy (those before the rejected block)
    effective: Vec<usize>,
    /// the undecodable-DER block ended up in the policy
    junk_loaded: bool,
}

const BAD_PEM_BLOCK: &str = "-----BEGIN CERTIFICATE-----\n@@@@ this is not base64 @@@@\n-----END CERTIFICATE-----\n";

fn anchor_store(w: &World, idx: &[usize], junk: bool, badpem: Option<usize>) -> AnchorStore {
    let mut text = String::new();
    let mut blocks = String::new();
    let mut effective = vec![];
    let mut alive = true;
    if badpem.is_some() {
        // a stand-alone base64 word: the settings validator accepts a text whose PEM blocks do not
        // all decode as long as some line outside the blocks is base64 (`test_load_trust`)
        text.push_str("QUJD\n");
    }
    for (k, i) in idx.iter().enumerate() {
        if badpem == Some(k) {
            text.push_str(BAD_PEM_BLOCK);
            blocks.push('0');
            alive = false;
        }
        text.push_str(&pem("CERTIFICATE", &w.nodes[*i].der));
        blocks.push('1');
        if alive {
            effective.push(*i);
        }
    }
    if let Some(k) = badpem {
        if k >= idx.len() {
            text.push_str(BAD_PEM_BLOCK);
            blocks.push('0');
            alive = false;
        }
    }
    if junk {
        text.push_str(&pem("CERTIFICATE", b"this is not a certificate"));
        blocks.push('1');
    }
    if blocks.is_empty() {
        blocks.push('-');
    }
    AnchorStore { text, blocks, effective, junk_loaded: junk && alive }
}

/// The text given to `add_valid_ekus` / `trust_config` and its protocol encoding.
fn eku_text(c: &Config) -> (String, String) {
    let mut text = String::new();
    let mut lines: Vec<String> = vec![];
    if c.eku_noise && !c.extra_ekus.is_empty() {
        text.push_str("#accepted-purposes\n");
        lines.push("-~#accepted-purposes".into());
    }
    for o in &c.extra_ekus {
        text.push_str(o);
        text.push('\n');
        lines.push(format!("k~{o}"));
    }
    if c.eku_noise && !c.extra_ekus.is_empty() {
        text.push_str("1.2.x.4\n");
        lines.push("-~1.2.x.4".into());
    }
    (text, if lines.is_empty() { "-".into() } else { lines.join("|") })
}

/// EKU fact of the end-entity certificate in the C06 protocol encoding (`none` when absent).
fn eku_fact(w: &World) -> String {
    let f = w.plan.facts();
    f.split(' ').find(|t| t.starts_with("eku=")).map(|t| t[4..].to_string()).unwrap_or_else(|| "none".into())
}

/// Does the end-entity certificate carry an EKU the configuration accepts (statement level)?
fn eku_accepted(w: &World, allowed: &[String]) -> bool {
    let oids: Vec<&String> = w
        .plan
        .spec
        .exts
        .iter()
        .filter_map(|e| match &e.ext {
            Ext::Eku(o) => Some(o),
            _ => None,
        })
        .flatten()
        .collect();
    oids.iter().any(|o| {
        allowed.contains(o) || [EKU_EMAIL, EKU_TIME_STAMPING, EKU_OCSP].contains(&o.as_str())
    })
}

/// The policy/query fields of a request line.
/// `builtin` = the EKU list the starting policy carries (empty for `passthrough()`).
fn policy_fields(w: &World, c: &Config, allow: &AllowText, builtin: &[String]) -> (String, bool, bool) {
    let sys = anchor_store(w, &c.sys, c.sys_junk, c.sys_badpem);
    let user = anchor_store(w, &c.user, c.user_junk, c.user_badpem);
    let sysv = w.chains_to(&sys.effective, &c.supplied, c.time);
    let userv = w.chains_to(&user.effective, &c.supplied, c.time);
    let s = format!(
        "backend=openssl pass={} lines={} pems={} sblk={} ublk={} only={} cfg={} tc={} hash={} eparse=1 cparse={} sparse={} uparse={} eku={} sysv={} userv={}",
        c.passthrough as u8,
        allow.lines,
        allow.pems,
        sys.blocks,
        user.blocks,
        c.only as u8,
        if builtin.is_empty() { "-".to_string() } else { builtin.join(",") },
        eku_text(c).1,
        b64_sha256(&w.nodes[0].der),
        !c.chain_junk as u8,
        !sys.junk_loaded as u8,
        !user.junk_loaded as u8,
        eku_fact(w),
        sysv as u8,
        userv as u8
    );
    // provenance of the case (ignored by the model)
    let dbg = format!(
        "d{}/chain{:?}/sys{:?}/user{:?}/t{}/{}",
        w.depth,
        c.supplied,
        c.sys,
        c.user,
        c.time.map(|t| ((t - now_epoch()) / DAY).to_string()).unwrap_or_else(|| "none".into()),
        w.plan.label
    )
    .replace(' ', "");
    let s = format!("{s} dbg={dbg}");
    (s, sysv, userv)
}

fn build_ctp(w: &World, c: &Config, allow: &AllowText) -> CertificateTrustPolicy {
    let mut ctp = if c.passthrough { CertificateTrustPolicy::passthrough() } else { CertificateTrustPolicy::default() };
    // errors are ignored the way `Store::from_context` ignores them (`let _v = …`)
    let sys = anchor_store(w, &c.sys, c.sys_junk, c.sys_badpem);
    if sys.blocks != "-" {
        let _ = ctp.add_trust_anchors(sys.text.as_bytes());
    }
    let user = anchor_store(w, &c.user, c.user_junk, c.user_badpem);
    if user.blocks != "-" {
        let _ = ctp.add_user_trust_anchors(user.text.as_bytes());
    }
    if !allow.text.is_empty() {
        let _ = ctp.add_end_entity_credentials(allow.text.as_bytes());
    }
    if !c.extra_ekus.is_empty() {
        ctp.add_valid_ekus(eku_text(c).0.as_bytes());
    }
    ctp.set_trust_anchors_only(c.only);
    ctp
}

fn trust_case(run: &mut Run, w: &World, c: &Config, default_ekus: &[String]) {
    let allow = allow_text(w, &c.allow);
    let builtin: Vec<String> = if c.passthrough { vec![] } else { default_ekus.to_vec() };
    let mut allowed: Vec<String> = builtin.clone();
    allowed.extend(c.extra_ekus.iter().cloned());
    let (fields, sysv, userv) = policy_fields(w, c, &allow, &builtin);
    let ctp = build_ctp(w, c, &allow);
    let mut chain: Vec<Vec<u8>> = c.supplied.iter().map(|i| w.nodes[*i].der.clone()).collect();
    if c.chain_junk {
        chain.push(b"junk that is not DER".to_vec());
    }
    let ee = w.nodes[0].der.clone();
    let time = c.time;
    let res = guarded(std::panic::AssertUnwindSafe(|| ctp.check_certificate_trust(&chain, &ee, time)));
    let req = format!("C05 trust {fields}");
    let reply = match &res {
        Ok(Ok(a)) => format!("ok:{a:?}"),
        Ok(Err(e)) => {
            let k = format!("{e:?}");
            format!("err:{}", k.split('(').next().unwrap_or(""))
        }
        Err(_) => "panic".to_string(),
    };
    run.count(&format!("trust_{}", reply.replace(':', "_")));
    run.count(&format!("depth_{}", w.depth));
    if c.passthrough || allow.lists_ee || sysv || userv || !c.allow.is_empty() {
        run.nontrivial(req.clone());
    }
    let idx = run.case(req, reply.clone());
    if let Err(p) = res {
        run.fail(idx, "panic", p);
        return;
    }
    // the statement, from ground truth: trusted iff allow-listed, or an accepted EKU and a chain
    // to a configured system anchor, or (unless anchors-only) to a user anchor
    let sys_junk = anchor_store(w, &c.sys, c.sys_junk, c.sys_badpem).junk_loaded;
    let user_junk = anchor_store(w, &c.user, c.user_junk, c.user_badpem).junk_loaded;
    let broken_input = c.chain_junk || sys_junk || (user_junk && !c.only && !sysv);
    let chain_trust = eku_accepted(w, &allowed) && (sysv || (!c.only && userv));
    let expect_trusted = c.passthrough || allow.lists_ee || (chain_trust && !broken_input);
    let got_trusted = reply.starts_with("ok:");
    if broken_input && !c.passthrough && !allow.lists_ee {
        if got_trusted {
            run.fail(idx, "trusted-with-undecodable-input", format!("undecodable chain/anchor input but {reply}"));
        }
    } else if got_trusted != expect_trusted {
        run.fail(
            idx,
            if got_trusted { "trusted-against-policy" } else { "untrusted-against-policy" },
            format!("expected trusted={expect_trusted} (allow-listed={} sys={sysv} user={userv} only={} eku-accepted={}), got {reply}",
                allow.lists_ee, c.only, eku_accepted(w, &allowed)),
        );
    }
    if c.only && reply == "ok:User" {
        run.fail(idx, "anchors-only-accepted-user-anchor", reply.clone());
    }
    if reply == "ok:User" && !userv {
        run.fail(idx, "trusted-against-policy", "User verdict without a chain to a user anchor".into());
    }
    if reply == "ok:System" && !sysv {
        run.fail(idx, "trusted-against-policy", "System verdict without a chain to a system anchor".into());
    }
    if reply == "ok:EndEntity" && !allow.lists_ee {
        run.fail(idx, "trusted-against-policy", "EndEntity verdict for a certificate not on the allow list".into());
    }
}

fn e2e_case(run: &mut Run, ring: &mut KeyRing, src: &[u8], w: &World, c: &Config, verify_trust: bool, default_ekus: &[String]) {
    let now = now_epoch();
    let allow = allow_text(w, &c.allow);
    let mut allowed: Vec<String> = default_ekus.to_vec();
    allowed.extend(c.extra_ekus.iter().cloned());
    // no time stamp end to end: OpenSSL is told not to check times
    let c_time_none = Config { time: None, passthrough: false, only: false, chain_junk: false, ..clone_config(c) };
    let c = &c_time_none;
    let (fields, sysv, userv) = policy_fields(w, &c_time_none, &allow, default_ekus);
    // settings level: which `trust` settings are present at all
    let fields = format!("al={} {}", !allow.text.is_empty() as u8, fields);
    let mut chain = vec![w.nodes[0].der.clone()];
    chain.extend(c.supplied.iter().map(|i| w.nodes[*i].der.clone()));
    let key = ring_key(ring, w.ee_kind, 10);
    let asset = match guarded(std::panic::AssertUnwindSafe(|| sign_asset(src, &chain, key))) {
        Ok(Ok(a)) => a,
        Ok(Err(e)) => {
            run.count("e2e_unsignable");
            run.notes.push(format!("e2e skipped: {}", e.chars().take(90).collect::<String>()));
            run.notes.dedup();
            return;
        }
        Err(p) => {
            let idx = run.case(format!("C05 e2e sign-panic {fields}"), "panic".into());
            run.fail(idx, "panic", p);
            return;
        }
    };
    let mut trust = serde_json::Map::new();
    let sys_store = anchor_store(w, &c.sys, c.sys_junk, c.sys_badpem);
    let user_store = anchor_store(w, &c.user, c.user_junk, c.user_badpem);
    if sys_store.blocks != "-" {
        trust.insert("trust_anchors".into(), sys_store.text.clone().into());
    }
    if user_store.blocks != "-" {
        trust.insert("user_anchors".into(), user_store.text.clone().into());
    }
    if !allow.text.is_empty() {
        trust.insert("allowed_list".into(), allow.text.clone().into());
    }
    if !c.extra_ekus.is_empty() {
        trust.insert("trust_config".into(), eku_text(c).0.into());
    }
    let settings = serde_json::json!({"verify": {"verify_trust": verify_trust}, "trust": trust}).to_string();
    let out = match guarded(std::panic::AssertUnwindSafe(|| read_asset(&asset, &settings))) {
        Ok(Ok(o)) => o,
        Ok(Err(e)) => {
            let idx = run.case(format!("C05 e2e unreadable {fields}"), format!("read-error {e}"));
            run.fail(idx, "unreadable", e);
            return;
        }
        Err(p) => {
            let idx = run.case(format!("C05 e2e read-panic {fields}"), "panic".into());
            run.fail(idx, "panic", p);
            return;
        }
    };
    let req = format!(
        "C05 e2e {} t=- now={} mode={} sigok=1 {}",
        w.plan.facts(),
        now,
        if verify_trust { "trust" } else { "profile" },
        fields
    );
    run.count(&format!("e2e_{}", out.state));
    run.nontrivial(req.clone());
    let idx = run.case(req, out.line());

    // property oracle on the reader's report
    let has_trusted = out.success.iter().any(|x| x == "signingCredential.trusted");
    let has_untrusted = out.failure.iter().any(|x| x == "signingCredential.untrusted");
    if !verify_trust {
        if has_trusted || has_untrusted || out.state == "trusted" {
            run.fail(idx, "verdict-with-trust-disabled", format!("verify_trust=false but {}", out.line()));
        }
        return;
    }
    let broken_input = sys_store.junk_loaded || (user_store.junk_loaded && !sysv);
    let chain_trust = eku_accepted(w, &allowed) && (sysv || userv);
    let expect_trusted = allow.lists_ee || (chain_trust && !broken_input);
    if has_trusted == has_untrusted {
        run.fail(idx, "verdict-not-exactly-one", format!("trusted={has_trusted} untrusted={has_untrusted}: {}", out.line()));
    }
    if broken_input && !allow.lists_ee {
        if has_trusted {
            run.fail(idx, "trusted-with-undecodable-input", out.line());
        }
    } else if has_trusted != expect_trusted {
        run.fail(
            idx,
            if has_trusted { "trusted-against-policy" } else { "untrusted-against-policy" },
            format!("expected trusted={expect_trusted} (allow-listed={} sys={sysv} user={userv} eku-accepted={}): {}",
                allow.lists_ee, eku_accepted(w, &allowed), out.line()),
        );
    }
    let violations = w.plan.violations(now, &allowed);
    let expect_state = if !violations.is_empty() {
        "invalid"
    } else if has_trusted {
        "trusted"
    } else {
        "valid"
    };
    if out.state != expect_state {
        run.fail(idx, "state-against-policy", format!("expected {expect_state} (violations {violations:?}): {}", out.line()));
    }
    if out.state == "trusted" && !(allow.lists_ee || chain_trust) {
        run.fail(idx, "trusted-against-policy", format!("Trusted state against the policy: {}", out.line()));
    }
}

/// One call of `add_end_entity_credentials` on an empty policy; the resulting set is observed
/// by asking the policy about every certificate of the world.
fn load_case(run: &mut Run, w: &World, items: &[AllowItem]) {
    let allow = allow_text(w, items);
    let mut ctp = CertificateTrustPolicy::new();
    let res = guarded(std::panic::AssertUnwindSafe(|| {
        let r = ctp.add_end_entity_credentials(allow.text.as_bytes());
        let mut got: Vec<usize> = vec![];
        for (i, n) in w.nodes.iter().enumerate() {
            if matches!(ctp.check_certificate_trust(&[], &n.der, None), Ok(TrustAnchorType::EndEntity)) {
                got.push(i);
            }
        }
        (r.is_ok(), got)
    }));
    let req = format!("C05 load lines={} pems={}", allow.lines, allow.pems);
    let (ok, got) = match res {
        Ok(x) => x,
        Err(p) => {
            let idx = run.case(req, "panic".into());
            run.fail(idx, "panic", p);
            return;
        }
    };
    let mut hashes: Vec<String> = got.iter().map(|i| b64_sha256(&w.nodes[*i].der)).collect();
    hashes.sort();
    hashes.dedup();
    let reply = format!("{}:{}", if ok { "ok" } else { "err" }, if hashes.is_empty() { "-".to_string() } else { hashes.join(",") });
    run.count(&format!("load_{}", if ok { "ok" } else { "err" }));
    run.nontrivial(req.clone());
    let idx = run.case(req, reply.clone());
    // the statement on the loader, from the configured items alone: nothing enters the allow list
    // that was not configured as a PEM certificate or a stand-alone hash line; hash lines and the
    // PEM certificates before the first rejected block do enter it
    let mut bad_seen = false;
    let mut must: Vec<usize> = vec![];
    let mut may: Vec<usize> = vec![];
    for it in items {
        match it {
            AllowItem::Hash(i) => must.push(*i),
            AllowItem::Pem(i) => {
                if bad_seen {
                    may.push(*i)
                } else {
                    must.push(*i)
                }
            }
            AllowItem::BadPem => bad_seen = true,
            _ => {}
        }
    }
    for i in &got {
        if !must.contains(i) && !may.contains(i) {
            run.fail(idx, "trusted-against-policy", format!("certificate {i} entered the allow list without being configured: {reply}"));
        }
        if may.contains(i) && !must.contains(i) {
            run.fail(idx, "allow-list-entry-after-rejected-block", format!("certificate {i} follows a rejected PEM block but was loaded: {reply}"));
        }
    }
    for i in &must {
        if !got.contains(i) {
            run.fail(idx, "untrusted-against-policy", format!("configured allow-list entry {i} was not loaded: {reply}"));
        }
    }
    if ok == bad_seen {
        run.fail(idx, "allow-list-load-result", format!("rejected block present={bad_seen} but is_ok={ok}"));
    }
}

/// What is put under the `x5chain` label of one COSE header.
#[derive(Clone, Copy, PartialEq, Debug)]
enum X5 {
    Absent,
    EmptyArray,
    IntsArray,
    Text,
    /// array of the DER blobs
    Chain,
    /// the DER blobs interleaved with values that are not byte strings (they are skipped)
    ChainMixed,
    /// the end-entity certificate alone as a bare byte string
    Single,
}

impl X5 {
    fn value(self, chain: &[Vec<u8>]) -> Option<Value> {
        match self {
            X5::Absent => None,
            X5::EmptyArray => Some(Value::Array(vec![])),
            X5::IntsArray => Some(Value::Array(vec![Value::Integer(1.into()), Value::Bool(true)])),
            X5::Text => Some(Value::Text("x5chain".into())),
            X5::Chain => Some(Value::Array(chain.iter().map(|d| Value::Bytes(d.clone())).collect())),
            X5::ChainMixed => {
                let mut v = vec![Value::Integer(7.into())];
                for d in chain {
                    v.push(Value::Bytes(d.clone()));
                    v.push(Value::Null);
                }
                Some(Value::Array(v))
            }
            X5::Single => Some(Value::Bytes(chain[0].clone())),
        }
    }

    /// by construction: does the value hold at least one byte string the code can take as a DER blob
    fn class(self) -> &'static str {
        match self {
            X5::Absent => "absent",
            X5::EmptyArray | X5::IntsArray | X5::Text => "bad",
            X5::Chain | X5::ChainMixed | X5::Single => "chain",
        }
    }
}

struct VerifySpec {
    prot: X5,
    /// the protected header uses the integer label 33 instead of the text label
    prot_int_label: bool,
    unprot: X5,
    /// the unprotected header uses the integer label 33, which the code does not look up there
    unprot_int_label: bool,
    mode: &'static str,
    corrupt_sig: bool,
    /// the end-entity "certificate" is bytes that are not DER
    junk_ee: bool,
}

/// `Verifier::verify_signature` on a hand-assembled COSE_Sign1 (the public API the identity
/// assertion validators use too).
fn verify_case(run: &mut Run, ring: &KeyRing, w: &World, c: &Config, v: &VerifySpec, default_ekus: &[String]) {
    let now = now_epoch();
    let allow = allow_text(w, &c.allow);
    let builtin: Vec<String> = default_ekus.to_vec();
    let mut allowed = builtin.clone();
    allowed.extend(c.extra_ekus.iter().cloned());
    // a bare byte string carries the end-entity certificate only
    let single = |x: X5| x == X5::Single;
    let chain_hdr = if v.prot.class() == "chain" { v.prot } else { v.unprot };
    let c_eff = Config { supplied: if single(chain_hdr) { vec![] } else { c.supplied.clone() }, time: None, passthrough: false, ..clone_config(c) };
    let c = &c_eff;
    let (fields, sysv, userv) = policy_fields(w, c, &allow, &builtin);
    let ctp = build_ctp(w, c, &allow);
    let mut chain: Vec<Vec<u8>> = vec![if v.junk_ee { b"these bytes are not a certificate".to_vec() } else { w.nodes[0].der.clone() }];
    // the hash the allow list is asked about is that of the bytes actually supplied
    let fields = if v.junk_ee {
        fields.replace(&format!("hash={}", b64_sha256(&w.nodes[0].der)), &format!("hash={}", b64_sha256(&chain[0])))
    } else {
        fields
    };
    chain.extend(c.supplied.iter().map(|i| w.nodes[*i].der.clone()));
    if c.chain_junk {
        chain.push(b"junk that is not DER".to_vec());
    }
    let key = ring_key(ring, w.ee_kind, 10);
    let alg = alg_for(key.kind);
    let cose_alg = match alg {
        c2pa::SigningAlg::Ps256 => iana::Algorithm::PS256,
        c2pa::SigningAlg::Es384 => iana::Algorithm::ES384,
        c2pa::SigningAlg::Es512 => iana::Algorithm::ES512,
        c2pa::SigningAlg::Ed25519 => iana::Algorithm::EdDSA,
        _ => iana::Algorithm::ES256,
    };
    let data = b"the claim bytes the signature is over".to_vec();
    let built = guarded(std::panic::AssertUnwindSafe(|| -> Result<Vec<u8>, String> {
        // only the key matters for raw signing; the signer wants some certificate
        let signer = c2pa::create_signer::from_keys(pem("CERTIFICATE", &w.nodes[0].der).as_bytes(), &key.pem, alg, None)
            .map_err(|e| format!("signer: {e:?}"))?;
        let mut prot = HeaderBuilder::new().algorithm(cose_alg);
        if let Some(val) = v.prot.value(&chain) {
            prot = if v.prot_int_label { prot.value(33, val) } else { prot.text_value("x5chain".into(), val) };
        }
        let mut unprot = HeaderBuilder::new();
        if let Some(val) = v.unprot.value(&chain) {
            unprot = if v.unprot_int_label { unprot.value(33, val) } else { unprot.text_value("x5chain".into(), val) };
        }
        let mut sign1 = CoseSign1Builder::new()
            .protected(prot.build())
            .unprotected(unprot.build())
            .payload(data.clone())
            .try_create_signature(b"", |tbs| signer.sign(tbs).map_err(|e| format!("sign: {e:?}")))?
            .build();
        sign1.payload = None;
        if v.corrupt_sig {
            let n = sign1.signature.len();
            sign1.signature[n / 2] ^= 0x40;
        }
        sign1.to_tagged_vec().map_err(|e| format!("cose: {e:?}"))
    }));
    let cose = match built {
        Ok(Ok(b)) => b,
        Ok(Err(e)) => {
            run.count("verify_unsignable");
            run.notes.push(format!("verify case skipped: {}", e.chars().take(90).collect::<String>()));
            run.notes.dedup();
            return;
        }
        Err(p) => {
            let idx = run.case("C05 verify build-panic".into(), "panic".into());
            run.fail(idx, "panic", p);
            return;
        }
    };
    let verifier = match v.mode {
        "trust" => Verifier::VerifyTrustPolicy(Cow::Owned(ctp)),
        "profile" => Verifier::VerifyCertificateProfileOnly(Cow::Owned(ctp)),
        _ => Verifier::IgnoreProfileAndTrustPolicy,
    };
    let mut log = StatusTracker::default();
    let res = guarded(std::panic::AssertUnwindSafe(|| verifier.verify_signature(&cose, &data, b"", None, &mut log).map(|_| ())));
    let prot_class = v.prot.class();
    let unprot_class = if v.unprot_int_label { "absent" } else { v.unprot.class() };
    let facts = if v.junk_ee {
        "parse=0 ver=0 nb=0 na=0 sig=other pss=none spki=other ecp=none rsaok=0 bits=0 ca=0 dup=0 self=0 iuid=0 suid=0 eku=none exts=-".to_string()
    } else {
        w.plan.facts()
    };
    let has_org = !w.plan.spec.subject.0.is_empty();
    let req = format!(
        "C05 verify prot={prot_class} unprot={unprot_class} {facts} t=- now={now} mode={} sigok={} org={} {fields}",
        v.mode,
        !v.corrupt_sig as u8,
        has_org as u8
    );
    let res = match res {
        Ok(r) => r,
        Err(p) => {
            let idx = run.case(req, "panic".into());
            run.fail(idx, "panic", p);
            return;
        }
    };
    let mut success = vec![];
    let mut failure = vec![];
    for item in log.logged_items() {
        let code = item.validation_status.as_deref().unwrap_or("-").to_string();
        match item.kind {
            LogKind::Success => success.push(code),
            LogKind::Failure => failure.push(code),
            LogKind::Informational => {}
        }
    }
    let j = |v: &Vec<String>| if v.is_empty() { "-".to_string() } else { v.join(",") };
    let result = match &res {
        Ok(()) => "ok".to_string(),
        Err(CoseError::RawSignatureValidationError(_)) => "err:Signature".to_string(),
        Err(e) => {
            let k = format!("{e:?}");
            format!("err:{}", k.split('(').next().unwrap_or(""))
        }
    };
    let reply = format!("{result} S={} F={}", j(&success), j(&failure));
    run.count(&format!("verify_{}", result.replace(':', "_")));
    run.count(&format!("verify_prot_{prot_class}_unprot_{unprot_class}"));
    run.nontrivial(req.clone());
    let idx = run.case(req, reply.clone());

    // property oracle, from the construction alone
    let has_trusted = success.iter().any(|x| x == "signingCredential.trusted");
    let has_untrusted = failure.iter().any(|x| x == "signingCredential.untrusted");
    let chain_present = (prot_class == "chain" && unprot_class != "chain") || (prot_class == "absent" && unprot_class == "chain");
    if v.mode != "trust" {
        if has_trusted || has_untrusted {
            run.fail(idx, "verdict-with-trust-disabled", reply.clone());
        }
        return;
    }
    if !chain_present {
        // no signing credential to judge: no verdict may claim trust, and the call must fail
        if has_trusted || res.is_ok() {
            run.fail(idx, "trusted-without-credential", format!("no usable certificate chain but {reply}"));
        }
        return;
    }
    if has_trusted == has_untrusted {
        run.fail(idx, "verdict-not-exactly-one", format!("trusted={has_trusted} untrusted={has_untrusted}: {reply}"));
    }
    let sys_junk = anchor_store(w, &c.sys, c.sys_junk, c.sys_badpem).junk_loaded;
    let user_junk = anchor_store(w, &c.user, c.user_junk, c.user_badpem).junk_loaded;
    let broken_input = c.chain_junk || sys_junk || (user_junk && !c.only && !sysv);
    let chain_trust = !v.junk_ee && eku_accepted(w, &allowed) && (sysv || (!c.only && userv));
    let expect_trusted = (allow.lists_ee && !v.junk_ee) || (chain_trust && !broken_input);
    if broken_input && !allow.lists_ee {
        if has_trusted {
            run.fail(idx, "trusted-with-undecodable-input", reply.clone());
        }
    } else if has_trusted != expect_trusted {
        run.fail(
            idx,
            if has_trusted { "trusted-against-policy" } else { "untrusted-against-policy" },
            format!("expected trusted={expect_trusted} (allow-listed={} sys={sysv} user={userv} only={}): {reply}", allow.lists_ee, c.only),
        );
    }
    // the call succeeds only for a decodable certificate with an organisation and an intact signature
    if res.is_ok() != (!v.junk_ee && !v.corrupt_sig && has_org) {
        run.fail(idx, "verify-result", format!("junk_ee={} corrupt_sig={} org={has_org}: {reply}", v.junk_ee, v.corrupt_sig));
    }
}

fn clone_config(c: &Config) -> Config {
    Config {
        passthrough: c.passthrough,
        sys: c.sys.clone(),
        user: c.user.clone(),
        sys_junk: c.sys_junk,
        user_junk: c.user_junk,
        sys_badpem: c.sys_badpem,
        user_badpem: c.user_badpem,
        eku_noise: c.eku_noise,
        allow: c.allow.clone(),
        only: c.only,
        extra_ekus: c.extra_ekus.clone(),
        supplied: c.supplied.clone(),
        chain_junk: c.chain_junk,
        time: c.time,
    }
}

/// Ways of supplying the chain: node index lists (EE excluded) for a hierarchy of `depth` CAs.
fn supplied_variants(w: &World, rng: &mut Rng) -> Vec<(&'static str, Vec<usize>)> {
    let d = w.depth;
    let all: Vec<usize> = (1..=d).collect();
    let mut v: Vec<(&'static str, Vec<usize>)> = vec![("full", all.clone())];
    if d >= 1 {
        v.push(("no-root", (1..d).collect()));
        v.push(("none", vec![]));
        let mut rev = all.clone();
        rev.reverse();
        v.push(("reversed", rev));
        let mut with_unrelated = all.clone();
        with_unrelated.insert(rng.below(all.len() as u64 + 1) as usize, w.unrelated);
        v.push(("with-unrelated", with_unrelated));
        v.push(("with-impostor", {
            let mut x = all.clone();
            x.insert(0, d + 2);
            x
        }));
    }
    if d >= 2 {
        v.push(("missing-intermediate", (2..=d).collect()));
        let mut sh = all.clone();
        for i in (1..sh.len()).rev() {
            let j = rng.below(i as u64 + 1) as usize;
            sh.swap(i, j);
        }
        v.push(("shuffled", sh));
    }
    v
}

fn random_config(w: &World, rng: &mut Rng, t_ref: i64) -> Config {
    let d = w.depth;
    let pick_store = |rng: &mut Rng| -> Vec<usize> {
        match rng.below(8) {
            0 | 1 => vec![],
            2 | 3 => vec![d],                                        // the root (EE itself at depth 0)
            4 => vec![w.unrelated],
            5 => if d >= 2 { vec![rng.range(1, d as u64 - 1) as usize] } else { vec![d] }, // an intermediate
            6 => vec![w.unrelated, d],
            _ => vec![0],                                            // the end-entity certificate itself
        }
    };
    let allow = match rng.below(12) {
        10 => vec![AllowItem::Hash(w.unrelated), AllowItem::BadPem, AllowItem::Pem(0)],
        11 => vec![AllowItem::Pem(0), AllowItem::BadPem, AllowItem::Hash(0)],
        0 => vec![AllowItem::Pem(0)],
        1 => vec![AllowItem::Comment, AllowItem::Hash(0)],
        2 => vec![AllowItem::Pem(w.unrelated), AllowItem::Hash(w.unrelated)],
        3 => vec![AllowItem::HashInsideBlock(0)],
        4 => vec![AllowItem::ShortHash(0), AllowItem::NotBase64],
        5 => vec![AllowItem::Pem(w.unrelated), AllowItem::Hash(0), AllowItem::NotBase64],
        6 => vec![AllowItem::HashInsideBlock(w.unrelated), AllowItem::Hash(0)],
        _ => vec![],
    };
    let variants = supplied_variants(w, rng);
    let supplied = rng.pick(&variants).1.clone();
    Config {
        passthrough: rng.chance(1, 25),
        sys: pick_store(rng),
        user: pick_store(rng),
        sys_junk: rng.chance(1, 30),
        user_junk: rng.chance(1, 30),
        sys_badpem: if rng.chance(1, 12) { Some(rng.below(3) as usize) } else { None },
        user_badpem: if rng.chance(1, 12) { Some(rng.below(3) as usize) } else { None },
        eku_noise: rng.chance(1, 4),
        allow,
        only: rng.chance(1, 3),
        extra_ekus: if rng.chance(1, 3) { vec![OID_UNLISTED_EKU.to_string()] } else { vec![] },
        supplied,
        chain_junk: rng.chance(1, 30),
        time: match rng.below(4) {
            0 => None,
            1 => Some(t_ref - 500 * DAY), // inside every window, also the "expired" one
            2 => Some(t_ref),             // outside the "expired" window
            _ => Some(t_ref + 2000 * DAY), // outside every window
        },
    }
}

pub fn run(run: &mut Run, rng: &mut Rng) {
    run.rule = "hierarchies of depth 0-3 (self-signed end entity; root; root+1..2 intermediates) with RSA/EC/Ed25519 keys per level, end-entity EKU accepted/other/absent/configured, one level optionally outside the validity window, optionally signed by an impostor issuer key; chain supplied full/partial/reordered/with foreign certificates; system and user anchors drawn from {none, root, intermediate, end entity, unrelated}, allow list by PEM/hash/near-miss lines, anchors-only, extra EKU configuration, signing time none/inside/outside. Rejected PEM blocks at any position of the allow list / anchor texts, non-OID lines in the EKU configuration; the allow-list loader on its own; hand-assembled COSE_Sign1 structures with the x5chain entry absent / unusable / usable in either header under all three verifier modes. Non-trivial: some route to trust exists (allow list, chain to either store, passthrough) or an allow list is configured; every loader, verify_signature and end-to-end case; distinct by request text".into();
    let default_ekus = default_eku_config();
    run.obligations.insert("default_eku_config_nonempty".into(), !default_ekus.is_empty());
    let mut ring = KeyRing::new();
    let src = std::fs::read(::vh::common::fixtures().join("IMG_0003.jpg")).expect("fixture");
    let mut serial = 1000u64;
    let now = now_epoch();
    let thorough = run.thorough();

    // 1. systematic sweep at function level
    let worlds_per_shape = if thorough { 3 } else { 1 };
    for depth in 0..=3usize {
        for eku in EKU_VARIANTS {
            for expired_level in [usize::MAX, 0, depth] {
                for wrong_issuer in [false, true] {
                    if wrong_issuer && (depth == 0 || expired_level != usize::MAX) {
                        continue;
                    }
                    if !thorough && expired_level != usize::MAX && !eku.is_empty() {
                        continue;
                    }
                    for _ in 0..worlds_per_shape {
                        let shape = Shape { depth, eku, expired_level, wrong_issuer, no_org: false };
                        let w = build_world(&mut ring, rng, &mut serial, &shape, now);
                        let variants = supplied_variants(&w, rng);
                        for (_, supplied) in &variants {
                            for (sys, user) in [
                                (vec![], vec![]),
                                (vec![depth], vec![]),
                                (vec![], vec![depth]),
                                (vec![w.unrelated], vec![depth]),
                                (vec![depth], vec![w.unrelated]),
                                (vec![w.unrelated], vec![]),
                            ] {
                                for only in [false, true] {
                                    for time in [None, Some(now), Some(now - 500 * DAY)] {
                                        if !thorough && time == Some(now - 500 * DAY) && expired_level == usize::MAX {
                                            continue;
                                        }
                                        let c = Config {
                                            passthrough: false,
                                            sys: sys.clone(),
                                            user: user.clone(),
                                            sys_junk: false,
                                            user_junk: false,
                                            sys_badpem: None,
                                            user_badpem: None,
                                            eku_noise: false,
                                            allow: vec![],
                                            only,
                                            extra_ekus: if eku == "eku-unlisted" && only { vec![OID_UNLISTED_EKU.into()] } else { vec![] },
                                            supplied: supplied.clone(),
                                            chain_junk: false,
                                            time,
                                        };
                                        trust_case(run, &w, &c, &default_ekus);
                                    }
                                }
                            }
                        }
                    }
                }
            }
        }
    }
    run.count("systematic_sweep");

    // 2. random configurations (allow lists, junk inputs, passthrough, intermediates as anchors)
    let n = if thorough { 6000 } else { 900 };
    for i in 0..n {
        let mut r = rng.fork();
        let depth = r.below(4) as usize;
        let shape = Shape {
            depth,
            eku: if r.chance(2, 3) { "" } else { *r.pick(&EKU_VARIANTS) },
            expired_level: if r.chance(1, 4) { r.below(depth as u64 + 1) as usize } else { usize::MAX },
            wrong_issuer: r.chance(1, 10),
            no_org: false,
        };
        let w = build_world(&mut ring, &mut r, &mut serial, &shape, now);
        let reps = if i % 3 == 0 { 4 } else { 2 };
        for _ in 0..reps {
            let c = random_config(&w, &mut r, now);
            trust_case(run, &w, &c, &default_ekus);
        }
    }

    // 3. end to end through Reader settings
    let n = if thorough { 700 } else { 120 };
    for i in 0..n {
        let mut r = rng.fork();
        let depth = (i % 4) as usize;
        let shape = Shape {
            depth,
            eku: if r.chance(1, 2) { "" } else { *r.pick(&EKU_VARIANTS) },
            expired_level: usize::MAX,
            wrong_issuer: r.chance(1, 12),
            no_org: false,
        };
        let w = build_world(&mut ring, &mut r, &mut serial, &shape, now);
        let mut c = random_config(&w, &mut r, now);
        // the reader path has no passthrough / anchors-only switch and no junk chain
        c.passthrough = false;
        c.only = false;
        c.chain_junk = false;
        c.time = None;
        // the settings loader validates the allow list more strictly than the policy API: no
        // block-like comment lines end to end (the function-level stream covers them)
        for it in c.allow.iter_mut() {
            if matches!(it, AllowItem::HashInsideBlock(_)) {
                *it = AllowItem::Comment;
            }
        }
        // (a rejected PEM block stays: the validator lets it through next to a hash line, and
        // `Store::from_context` ignores the loader's `Err`, keeping what was loaded before it)
        // …and rejects a list with neither a PEM block nor a base64 line: keep every list valid
        if !c.allow.is_empty() {
            c.allow.push(AllowItem::Hash(w.unrelated));
        }
        if i % 5 == 0 {
            // the plain anchored control
            c.sys = vec![];
            c.user = vec![depth];
            c.supplied = (1..=depth).collect();
            c.allow = vec![];
            c.sys_junk = false;
            c.user_junk = false;
        }
        e2e_case(run, &mut ring, &src, &w, &c, true, &default_ekus);
        if i % 3 == 0 {
            e2e_case(run, &mut ring, &src, &w, &c, false, &default_ekus);
        }
    }

    // 4. the allow-list loader on its own, rejected PEM blocks at every position
    let n = if thorough { 600 } else { 120 };
    for _ in 0..n {
        let mut r = rng.fork();
        let shape = Shape { depth: r.below(3) as usize, eku: "", expired_level: usize::MAX, wrong_issuer: false, no_org: false };
        let w = build_world(&mut ring, &mut r, &mut serial, &shape, now);
        let k = r.range(1, 5) as usize;
        let mut items: Vec<AllowItem> = (0..k)
            .map(|_| {
                let i = r.below(w.nodes.len() as u64) as usize;
                match r.below(7) {
                    0 | 1 => AllowItem::Pem(i),
                    2 | 3 => AllowItem::Hash(i),
                    4 => AllowItem::HashInsideBlock(i),
                    5 => AllowItem::ShortHash(i),
                    _ => AllowItem::Comment,
                }
            })
            .collect();
        if r.chance(2, 3) {
            let at = r.below(items.len() as u64 + 1) as usize;
            items.insert(at, AllowItem::BadPem);
        }
        load_case(run, &w, &items);
    }

    // 5. Verifier::verify_signature on hand-assembled COSE_Sign1 structures: where the chain is
    //    (protected / unprotected / both / neither, usable or not), every verifier mode
    let kinds = [X5::Absent, X5::EmptyArray, X5::IntsArray, X5::Text, X5::Chain, X5::ChainMixed, X5::Single];
    let mut vcase = 0u64;
    for prot in kinds {
        for unprot in kinds {
            let reps = if thorough { 16 } else { 4 };
            for _ in 0..reps {
                vcase += 1;
                let mut r = rng.fork();
                let depth = r.below(3) as usize;
                let shape = Shape {
                    depth,
                    eku: if r.chance(3, 4) { "" } else { *r.pick(&EKU_VARIANTS) },
                    expired_level: usize::MAX,
                    wrong_issuer: false,
                    no_org: r.chance(1, 8),
                };
                let w = build_world(&mut ring, &mut r, &mut serial, &shape, now);
                let mut c = random_config(&w, &mut r, now);
                c.passthrough = false;
                c.time = None;
                if vcase % 2 == 0 {
                    // the plain anchored control
                    c.sys = vec![depth];
                    c.user = vec![];
                    c.supplied = (1..=depth).collect();
                    c.allow = vec![];
                    c.sys_junk = false;
                    c.user_junk = false;
                    c.sys_badpem = None;
                    c.user_badpem = None;
                    c.chain_junk = false;
                    c.only = false;
                }
                let v = VerifySpec {
                    prot,
                    prot_int_label: r.chance(1, 2),
                    unprot,
                    unprot_int_label: r.chance(1, 5),
                    mode: match r.below(6) {
                        0 => "profile",
                        1 => "ignore",
                        _ => "trust",
                    },
                    corrupt_sig: r.chance(1, 6),
                    junk_ee: r.chance(1, 10),
                };
                verify_case(run, &ring, &w, &c, &v, &default_ekus);
            }
        }
    }
}
