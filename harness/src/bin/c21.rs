//! C21 — update manifests cannot alter bound content or carry forbidden parts.
//!
//! Request lines (lean/C2paModel/Model/C21.lean; `verify` uses the C20 store grammar):
//!   C21 verify claims=<claim>|…                      -> ok|err <code>@<A|I>,…
//!   C21 rebase excl=<s:l,…> range=<s:l|-> cand=<s:l,…> n=<len>  -> same|diff
//! `verify`: description of a real store (Builder-made update manifests and crafted signed
//! variants violating each rule) vs the real `Store::verify_store`.
//! `rebase`: the real `Claim::verify_hash_binding` is run (hook) on an n-byte random asset with a
//! data hash over the bytes selected by `cand`, update-manifest label set and the given manifest
//! store range; it reports match exactly when its re-based exclusions select the same bytes as
//! `cand` (the model answers the same question from its own re-based list).
//!
//! Oracle (implementation only): an update manifest made with `BuilderIntent::Update` on
//! JPEG/PNG/MP4 is Valid, also a second update on top; a crafted update manifest with a hard
//! binding, a disallowed action, zero or two `parentOf` ingredients is never Valid; any change of
//! a content byte after the update is never Valid.

#[path = "../c20_common.rs"]
mod cc;

use std::io::Cursor;

use c2pa::{
    assertions::DataHash,
    status_tracker::StatusTracker,
    verif_hooks::{c20 as hk, c21 as hk21},
    BuilderIntent, HashRange,
};
use cc::*;
use sha2::{Digest, Sha256};
use vh::common::{fixtures, guarded, main_with, Rng, Run};

fn main() {
    main_with("C21", run);
}

fn created() -> serde_json::Value {
    serde_json::from_str(CREATED_ACTION).unwrap()
}

fn verify_case(run: &mut Run, jumbf: &[u8], kind: &str) -> Option<usize> {
    let store = match load_store(jumbf) {
        Ok(s) => s,
        Err(e) => {
            run.notes.push(format!("{kind}: store does not load: {}", err_class(&e)));
            return None;
        }
    };
    let line = abs_store(&store);
    if !protocol_safe(&line) {
        return None;
    }
    let imp = impl_verify(&store);
    run.count(&format!("verify_{kind}"));
    run.nontrivial(format!("{kind} {imp}"));
    Some(run.case(format!("C21 verify claims={line}"), imp))
}

/// `verify_store` with the asset (model: `verifyStoreAB`): the model is told, per hard binding of
/// the binding manifest, whether the asset content is unchanged (`unchanged`, known by
/// construction of the case); compared: ordered log incl. hard-binding statuses, `Ok`/`Err`, and
/// the label of the manifest whose hard binding was checked
fn verifya_case(run: &mut Run, jumbf: &[u8], fmt: &str, asset: &[u8], unchanged: bool, kind: &str) -> Option<usize> {
    let store = load_store(jumbf).ok()?;
    let line = abs_store(&store);
    if !protocol_safe(&line) {
        return None;
    }
    let active = store.provenance_claim()?;
    let nb = c2pa::verif_hooks::c19::get_hash_binding_manifest(&store, active).and_then(|l| store.get_claim(&l).map(|c| c.hash_assertions().len())).unwrap_or(0);
    let oks = if nb == 0 { "-".to_string() } else { vec![if unchanged { "1" } else { "0" }; nb].join(",") };
    let (imp, _log) = impl_verify_asset(&store, fmt, asset);
    run.count(&format!("verifya_{kind}"));
    run.nontrivial(format!("verifya {kind} {unchanged} {}", imp.rsplit(' ').next().map(|b| if b == "B=-" { "nobinding" } else { "bound" }).unwrap_or("")));
    Some(run.case(format!("C21 verifya claims={line} oks={oks}"), imp))
}

/// first offset that is certainly asset content: past the end of the embedded manifest store
/// (found by locating the last bytes of the JUMBF in the asset) plus a margin for the
/// container's own trailer of that box/chunk/segment (CRC, padding)
fn content_start(fmt: &str, asset: &[u8]) -> usize {
    let Ok(j) = jumbf_of(fmt, asset) else { return asset.len() / 2 };
    if j.len() < 24 {
        return asset.len() / 2;
    }
    let tail = &j[j.len() - 24..];
    match asset.windows(24).rposition(|w| w == tail) {
        Some(p) => (p + 24 + 16).min(asset.len() - 1),
        None => asset.len() / 2,
    }
}

/// flip one bit of a content byte and read again: must not be Valid
fn content_mutations(run: &mut Run, rng: &mut Rng, idx: usize, fmt: &str, asset: &[u8], sidecar: Option<&[u8]>, what: &str, n: usize) {
    let len = asset.len();
    let mut start = content_start(fmt, asset);
    let mut len_hi = len;
    if matches!(fmt, "video/mp4" | "image/avif" | "image/heic") {
        // BMFF: `free`/`skip` boxes are not bound by the BMFF hash; mutate media data only
        if let Some(p) = asset.windows(4).rposition(|w| w == b"mdat").filter(|p| *p >= 4) {
            let size = u32::from_be_bytes([asset[p - 4], asset[p - 3], asset[p - 2], asset[p - 1]]) as usize;
            let (body, end) = if size == 1 && p + 12 <= len {
                let mut b = [0u8; 8];
                b.copy_from_slice(&asset[p + 4..p + 12]);
                (p + 12, p - 4 + u64::from_be_bytes(b) as usize)
            } else {
                (p + 4, p - 4 + size)
            };
            start = body + 8;
            len_hi = end.min(len).min(body + 200_000);
        }
    }
    if start + 4 >= len {
        // the store is the last thing in the file (BMFF update box): the media data of these
        // fixtures is in the middle of the file
        start = len / 3;
        len_hi = 2 * len / 3;
    }
    let len = len_hi;
    // bit flips (k < n), then length-changing mutations: one byte appended, the last byte cut,
    // one byte inserted into the content, one content byte deleted
    for k in 0..n + 4 {
        let pos = if k == 0 { len - 1 - rng.below(((len - start) as u64).min(40)) as usize } else { start + rng.below((len - start) as u64) as usize };
        let mut a2 = asset.to_vec();
        let how = match k.checked_sub(n) {
            None => {
                a2[pos] ^= 1 << rng.below(8);
                "bitflip"
            }
            Some(0) => {
                a2.push(rng.below(256) as u8);
                "append"
            }
            Some(1) => {
                a2.pop();
                "truncate"
            }
            Some(2) => {
                a2.insert(pos, rng.below(256) as u8);
                "insert"
            }
            _ => {
                a2.remove(pos);
                "delete"
            }
        };
        let r = match sidecar {
            Some(j) => read_sidecar(j, fmt, &a2),
            None => read_asset(fmt, &a2),
        };
        run.count(&format!("content_mutation_{how}"));
        if r.ok() {
            let class = if what.contains("prerec") { "content-change-valid-prerecorded" } else { "content-change-valid" };
            run.fail(idx, class, format!("{what} ({fmt}): {how} at {pos} of {len} (content starts at {start}, asset {} -> {} bytes) after the update manifest was added, reader says {}", asset.len(), a2.len(), r.state));
        } else {
            run.nontrivial(format!("mutation {how} {what} {fmt} {k}"));
        }
        // the same mutated asset through `verify_store` itself, against the model's asset step
        // (bit flips and appended bytes keep the container parseable)
        if k == 0 || how == "append" {
            let jum = match sidecar {
                Some(j) => Some(j.to_vec()),
                None => jumbf_of(fmt, &a2).ok(),
            };
            if let Some(j) = jum {
                // a sidecar store has no position in the asset: the Reader validates it against
                // the stream as is; `verify_store` does the same
                verifya_case(run, &j, fmt, &a2, false, &format!("{how}_{}", if sidecar.is_some() { "sidecar" } else { "embedded" }));
            }
        }
    }
    // control: the unchanged asset
    let jum = match sidecar {
        Some(j) => Some(j.to_vec()),
        None => jumbf_of(fmt, asset).ok(),
    };
    if let Some(j) = jum {
        verifya_case(run, &j, fmt, asset, true, &format!("unchanged_{}", if sidecar.is_some() { "sidecar" } else { "embedded" }));
    }
}

fn builder_updates(run: &mut Run, rng: &mut Rng, fmt: &str, src: &[u8], thorough: bool) -> Option<(Vec<u8>, Vec<u8>)> {
    let tag = fmt.replace('/', "-");
    let in_scope = matches!(fmt, "image/jpeg" | "image/png" | "video/mp4" | "image/avif" | "image/heic");
    let a = match sign(&definition("A", fmt, vec![created()], &[("org.verif.n0".into(), marker("a", "0")), ("org.verif.n1".into(), marker("a", "1"))], None, None), None, fmt, src, &[]) {
        Ok(a) => a,
        Err(e) => {
            run.notes.push(format!("{fmt}: base sign failed {}", err_class(&e)));
            return None;
        }
    };
    let ra = read_asset(fmt, &a);
    let la = ra.active.clone()?;
    let mut prev = a.clone();
    let mut last_update = None;
    let levels = if thorough { 3 } else { 2 };
    for level in 1..=levels {
        // level 1: plain update; level 2: update with a redaction of the base manifest; level 3: plain
        let (actions, reds) = if level == 2 {
            let u = assertion_uri(&la, "org.verif.n0");
            (vec![redacted_action(&u)], Some(vec![u]))
        } else {
            (vec![serde_json::json!({"action": "c2pa.published"})], None)
        };
        let d = definition(&format!("U{level}"), fmt, actions, &[(format!("org.verif.u{level}"), marker("u", &level.to_string()))], reds, None);
        let res = guarded(|| sign(&d, Some(BuilderIntent::Update), fmt, &prev, &[]));
        let u = match res {
            Ok(Ok(u)) => u,
            Ok(Err(e)) => {
                let idx = run.reqs.len().saturating_sub(1);
                run.fail(idx, "legal-update-rejected", format!("{fmt}: update level {level} could not be signed: {}", err_class(&e)));
                return None;
            }
            Err(p) => {
                let idx = run.reqs.len().saturating_sub(1);
                run.fail(idx, "panic", format!("{fmt}: update level {level}: {p}"));
                return None;
            }
        };
        run.count(&format!("builder_update_l{level}_{tag}"));
        let j = jumbf_of(fmt, &u).ok()?;
        let idx = verify_case(run, &j, &format!("builder_update_l{level}_{tag}")).unwrap_or(run.reqs.len().saturating_sub(1));
        let r = read_asset(fmt, &u);
        if !r.ok() && !in_scope {
            // Formats outside the property's quantifier (JPEG/PNG/BMFF). The statement is an
            // only-if ("Valid only if ..."), so a legal update manifest that reads Invalid is not a
            // violation of it; it is recorded as an observation: growing the store changes
            // container bytes outside the store range (RIFF size field, TIFF offsets, ID3 sizes)
            // that the parent's data hash covers.
            run.count(&format!("observation_update_reads_invalid_{tag}"));
            run.notes.push(format!("{fmt}: Builder update manifest level {level} reads {} {:?} (outside the statement's formats; see level_note)", r.state, r.failures));
            return None;
        }
        if !r.ok() {
            run.fail(idx, "legal-update-not-valid", format!("{fmt}: update manifest level {level} reads {} {:?}", r.state, r.failures));
        }
        content_mutations(run, rng, idx, fmt, &u, None, &format!("builder update level {level}"), if thorough { 12 } else { 4 });
        prev = u.clone();
        last_update = Some(u);
    }
    // violations through the Builder: must be refused (or not Valid)
    for (what, actions) in [
        ("cropped", vec![serde_json::json!({"action": "c2pa.cropped"})]),
        ("edited", vec![serde_json::json!({"action": "c2pa.edited"})]),
    ] {
        let d = definition("bad", fmt, actions, &[], None, None);
        let res = guarded(|| sign(&d, Some(BuilderIntent::Update), fmt, &a, &[]));
        run.count("builder_update_violation");
        let idx = run.reqs.len().saturating_sub(1);
        match res {
            Ok(Ok(x)) => {
                if read_asset(fmt, &x).ok() {
                    run.fail(idx, "update-violation-valid", format!("{fmt}: Builder produced a Valid update manifest with action {what}"));
                }
            }
            Ok(Err(_)) => run.nontrivial(format!("builder refuses {what} {fmt}")),
            Err(p) => run.fail(idx, "panic", format!("{fmt}: {p}")),
        }
    }
    {
        // update intent on an asset without a manifest: no parent manifest to bind to
        let d = definition("orphan", fmt, vec![], &[], None, None);
        let res = guarded(|| sign(&d, Some(BuilderIntent::Update), fmt, src, &[]));
        run.count("builder_update_violation");
        let idx = run.reqs.len().saturating_sub(1);
        if let Ok(Ok(x)) = res {
            if read_asset(fmt, &x).ok() {
                run.fail(idx, "update-violation-valid", format!("{fmt}: update manifest on an asset without provenance is Valid"));
            }
        }
    }
    last_update.map(|u| (a, u))
}

struct Variant {
    name: String,
    craft: Craft,
    /// the rules of the statement hold for this variant
    legal: bool,
}

fn variants(pj: &[u8], qj: Option<&[u8]>, parent_label: &str, tag: u32) -> Vec<Variant> {
    let base = |k: u32| Craft { label: urn(tag + k), update: true, ingredients: vec![(pj.to_vec(), "p".into())], inception: "opened".into(), ..Default::default() };
    let mut v = vec![
        Variant { name: "ok_plain".into(), craft: base(1), legal: true },
        Variant { name: "ok_published".into(), craft: Craft { actions: vec![("c2pa.published".into(), None)], ..base(2) }, legal: true },
        Variant { name: "ok_metadata".into(), craft: Craft { actions: vec![("c2pa.edited.metadata".into(), None)], notes: vec![("org.verif.meta".into(), marker("m", "0"))], ..base(3) }, legal: true },
        Variant {
            name: "ok_redacted".into(),
            craft: Craft {
                load_redactions: Some(vec![assertion_uri(parent_label, "org.verif.n1")]),
                actions: vec![("c2pa.redacted".into(), Some(assertion_uri(parent_label, "org.verif.n1")))],
                ..base(4)
            },
            legal: true,
        },
        Variant { name: "no_ingredient".into(), craft: Craft { ingredients: vec![], inception: "none".into(), actions: vec![("c2pa.published".into(), None)], ..base(6) }, legal: false },
        Variant { name: "component_only".into(), craft: Craft { ingredients: vec![(pj.to_vec(), "c".into())], inception: "none".into(), actions: vec![("c2pa.published".into(), None)], ..base(7) }, legal: false },
        Variant { name: "input_only".into(), craft: Craft { ingredients: vec![(pj.to_vec(), "i".into())], inception: "none".into(), actions: vec![("c2pa.published".into(), None)], ..base(8) }, legal: false },
        Variant { name: "two_parents_same".into(), craft: Craft { ingredients: vec![(pj.to_vec(), "p".into()), (pj.to_vec(), "p".into())], ..base(9) }, legal: false },
        // the validator's thumbnail rule is `count > 1` (the signer refuses any): both sides of the boundary
        Variant { name: "thumbnail_one".into(), craft: Craft { thumbnails: 1, ..base(11) }, legal: true },
        Variant { name: "thumbnail_two".into(), craft: Craft { thumbnails: 2, ..base(13) }, legal: false },
        Variant { name: "thumbnail_three".into(), craft: Craft { thumbnails: 3, actions: vec![("c2pa.published".into(), None)], ..base(14) }, legal: false },
    ];
    // (actions that other rules of verify_actions also reject — a second created/opened, placed
    // without ingredients — are left out: those rules are not part of this model)
    for (k, act) in ["c2pa.cropped", "c2pa.edited", "c2pa.resized", "c2pa.transcoded", "c2pa.filtered", "c2pa.unknown", "c2pa.redacted.x", "C2PA.PUBLISHED", "c2pa.watermarked", "c2pa.publishe"].iter().enumerate() {
        if act.contains(' ') {
            continue;
        }
        v.push(Variant { name: "bad_action".into(), craft: Craft { actions: vec![(act.to_string(), None)], ..base(20 + k as u32) }, legal: false });
    }
    // every kind of hard binding `hash_assertions()` knows, alone and next to otherwise legal content
    // (a version-1 BMFF hash cannot be added to a v2 claim: VersionCompatibility; `hash_assertions()`
    // does not include the collection hash, so neither does the rule nor the model)
    for (k, hk) in ["data", "boxes", "bmff.v2", "bmff.v3"].iter().enumerate() {
        for with_content in [false, true] {
            let mut c = base(40 + 2 * k as u32 + with_content as u32);
            if *hk == "data" {
                c.data_hash = true;
            } else {
                c.own_hashes = vec![hk.to_string()];
            }
            if with_content {
                c.actions = vec![("c2pa.published".into(), None), ("c2pa.edited.metadata".into(), None)];
                c.notes = vec![("org.verif.meta".into(), marker("m", "1"))];
            }
            v.push(Variant { name: format!("own_hard_binding:{hk}{}", if with_content { "+content" } else { "" }), craft: c, legal: false });
        }
    }
    {
        let mut c = base(60);
        c.data_hash = true;
        c.own_hashes = vec!["boxes".into(), "bmff.v3".into()];
        v.push(Variant { name: "own_hard_binding:data+boxes+bmff.v3".into(), craft: c, legal: false });
    }
    // labels of hard bindings the SDK has no assertion type for (`hash_assertions()` does not
    // return them): collection data hash, multi-part data hash. The rule is by label.
    for (k, hk) in ["collection", "data.part"].iter().enumerate() {
        let mut c = base(64 + k as u32);
        c.own_hashes = vec![hk.to_string()];
        v.push(Variant { name: format!("own_hard_binding:{hk}"), craft: c, legal: false });
    }
    if let Some(qj) = qj {
        v.push(Variant { name: "two_parents_distinct".into(), craft: Craft { ingredients: vec![(pj.to_vec(), "p".into()), (qj.to_vec(), "p".into())], ..base(12) }, legal: false });
    }
    v
}

fn crafted_updates(run: &mut Run, rng: &mut Rng, fmt: &str, parent_asset: &[u8], other_asset: Option<&[u8]>, depth_tag: &str, thorough: bool, only_hash: bool) {
    let Ok(pj) = jumbf_of(fmt, parent_asset) else { return };
    let qj = other_asset.and_then(|o| jumbf_of(fmt, o).ok());
    let parent_label = read_asset(fmt, parent_asset).active.unwrap_or_default();
    // the base manifest label (the one holding the notes) is the first manifest of the store
    let note_owner = load_store(&pj).ok().and_then(|s| s.claims().first().map(|c| c.label().to_string())).unwrap_or(parent_label.clone());
    let tag0 = 0xC21_0000 + rng.below(0xF000) as u32 * 128;
    let mut vs = variants(&pj, qj.as_deref(), &note_owner, tag0);
    // a legal update manifest whose own ingredient assertion pre-records, for every hard binding of
    // the binding (base) manifest, exactly the mismatch status a later content change will log
    // (`ValidationResults::from_store` filters logged statuses against ingredient assertions)
    if let Ok(ps) = load_store(&pj) {
        let mut pre = vec![];
        for (m, ls) in manifest_assertion_labels(&ps) {
            for l in ls {
                let code = if l.starts_with("c2pa.hash.data") {
                    "assertion.dataHash.mismatch"
                } else if l.starts_with("c2pa.hash.bmff") {
                    "assertion.bmffHash.mismatch"
                } else if l.starts_with("c2pa.hash.boxes") {
                    "assertion.boxesHash.mismatch"
                } else {
                    continue;
                };
                pre.push((code.to_string(), assertion_uri(&m, &l)));
            }
        }
        vs.push(Variant {
            name: "ok_plain_prerec".into(),
            craft: Craft { label: urn(tag0 + 100), update: true, ingredients: vec![(pj.to_vec(), "p".into())], inception: "opened".into(), prerecorded: pre, ..Default::default() },
            legal: true,
        });
    }
    for v in vs {
        if only_hash && !(v.name.starts_with("own_hard_binding") || v.name.starts_with("ok_plain")) {
            continue;
        }
        let vclass = match v.name.strip_prefix("own_hard_binding:") {
            Some(k) => format!("update-violation-valid:own-hard-binding:{}", k.trim_end_matches("+content")),
            None => "update-violation-valid".to_string(),
        };
        let crafted = match guarded(|| craft(&v.craft, parent_asset)) {
            Ok(Ok(x)) => x,
            Ok(Err(e)) => {
                run.notes.push(format!("craft {} ({depth_tag}) failed: {}", v.name, err_class(&e)));
                continue;
            }
            Err(p) => {
                run.notes.push(format!("craft {} panicked: {p}", v.name));
                continue;
            }
        };
        let kind = format!("crafted_{}_{depth_tag}", v.name);
        let idx = verify_case(run, &crafted.jumbf, &kind).unwrap_or(run.reqs.len().saturating_sub(1));
        // (a) as a sidecar against the unchanged parent asset
        let r = read_sidecar(&crafted.jumbf, fmt, parent_asset);
        if v.legal && !r.ok() {
            run.fail(idx, "legal-update-not-valid", format!("{kind}: crafted legal update manifest reads {} {:?}", r.state, r.failures));
        }
        if !v.legal && r.ok() {
            run.fail(idx, &vclass, format!("{kind}: update manifest violating the rules reads {}", r.state));
        }
        // (b) embedded: the manifest store grows, the parent's exclusion must be re-based
        let mut out = Cursor::new(Vec::new());
        if c2pa::jumbf_io::save_jumbf_to_stream(fmt, &mut Cursor::new(parent_asset.to_vec()), &mut out, &crafted.jumbf).is_ok() {
            let emb = out.into_inner();
            let re = read_asset(fmt, &emb);
            run.count("embedded_crafted");
            if v.legal && !re.ok() {
                run.fail(idx, "legal-update-not-valid", format!("{kind} embedded ({} -> {} bytes): reads {} {:?}", parent_asset.len(), emb.len(), re.state, re.failures));
            }
            if !v.legal && re.ok() {
                run.fail(idx, &vclass, format!("{kind} embedded: reads {}", re.state));
            }
            if v.legal {
                content_mutations(run, rng, idx, fmt, &emb, None, &kind, if thorough { 6 } else { 2 });
            }
        }
        if v.legal {
            content_mutations(run, rng, idx, fmt, parent_asset, Some(&crafted.jumbf), &kind, if thorough { 4 } else { 1 });
        }
    }
}

fn sel_bytes(excl: &[(u64, u64)], data: &[u8]) -> Vec<u8> {
    data.iter().enumerate().filter(|(i, _)| !excl.iter().any(|(s, l)| (*i as u64) >= *s && (*i as u64) < s + l)).map(|(_, b)| *b).collect()
}

fn rngs(v: &[(u64, u64)]) -> String {
    if v.is_empty() {
        "-".into()
    } else {
        v.iter().map(|(s, l)| format!("{s}:{l}")).collect::<Vec<_>>().join(",")
    }
}

/// the re-basing block of verify_hash_binding, driven directly
fn rebase_cases(run: &mut Run, rng: &mut Rng, n: usize) {
    for _ in 0..n {
        let pre = rng.range(1, 40);
        let m = rng.range(1, 30);
        let post = rng.range(0, 60);
        // old layout: pre | store(m) | post ; exclusions: optional ones inside pre, the store, optional ones inside post
        let mut excl: Vec<(u64, u64)> = vec![];
        if pre > 6 && rng.chance(1, 3) {
            let s = rng.range(0, pre - 4);
            excl.push((s, rng.range(1, (pre - s).min(4))));
        }
        let store_at = excl.len();
        excl.push((pre, m));
        let mut later = false;
        if post > 8 && rng.chance(1, 2) {
            let s = pre + m + rng.range(0, post - 6);
            excl.push((s, rng.range(1, 5)));
            later = true;
        }
        // new store length
        let m2 = match rng.below(6) {
            0 => m,
            1 if !later || rng.chance(1, 2) => rng.range(1, m),
            _ => m + rng.range(0, 50),
        };
        let total = pre + m2 + post;
        // all bytes pairwise distinct (total < 256), so two selections are equal as byte strings
        // exactly when they select the same offsets
        let salt = rng.below(256);
        let asset: Vec<u8> = (0..total).map(|i| ((i * 37 + salt) % 256) as u8).collect();
        // range handed to the validator
        let range: Option<(u64, u64)> = match rng.below(8) {
            0 => None,
            1 => Some((pre + 1, m2)), // does not start at an exclusion
            _ => Some((pre, m2)),
        };
        // candidate exclusion lists
        let grow = m2.saturating_sub(m);
        let rebased: Vec<(u64, u64)> = excl.iter().enumerate().map(|(i, (s, l))| if i == store_at { (pre, m2) } else if *s > pre { (s + grow, *l) } else { (*s, *l) }).collect();
        let cand: Vec<(u64, u64)> = match rng.below(5) {
            0 => excl.clone(),
            1 => {
                let mut c = rebased.clone();
                let k = rng.below(c.len() as u64) as usize;
                c[k].1 += 1;
                c
            }
            2 => {
                let mut c = rebased.clone();
                let k = rng.below(c.len() as u64) as usize;
                c[k].0 += 1;
                c
            }
            _ => rebased.clone(),
        };
        // only well-formed lists (sorted, disjoint, in bounds) reach the real hashing code
        let well = |v: &[(u64, u64)]| v.windows(2).all(|w| w[0].0 + w[0].1 <= w[1].0) && v.iter().all(|(s, l)| s + l <= total);
        // the active claim is an update manifest (re-basing happens) or not (exclusions as they are)
        let upd = !rng.chance(1, 6);
        let effective = match range {
            Some((s, _)) if s == pre && upd => {
                // what the code will use if it behaves like the candidate generator; only used to
                // keep malformed lists away from the hashing code
                let shrink_ok = m2 >= m || !later;
                if shrink_ok { rebased.clone() } else { excl.iter().enumerate().map(|(i, e)| if i == store_at { (pre, m2) } else { *e }).collect() }
            }
            _ => excl.clone(),
        };
        if !well(&cand) || !well(&effective) || !well(&excl.iter().map(|e| (e.0, e.1.min(total.saturating_sub(e.0)))).collect::<Vec<_>>()) {
            continue;
        }
        if excl.iter().any(|(s, l)| s + l > total) {
            continue;
        }
        let digest = Sha256::digest(sel_bytes(&cand, &asset)).to_vec();
        let mut dh = DataHash::new("jumbf manifest", "sha256");
        for (s, l) in &excl {
            dh.add_exclusion(HashRange::new(*s, *l));
        }
        dh.set_hash(digest);
        let Ok(mut claim) = hk::Claim::new_with_user_guid("verif", &urn(0xB1D), 2) else { continue };
        if claim.add_assertion(&dh).is_err() {
            continue;
        }
        let mut log = StatusTracker::default();
        let res = guarded(std::panic::AssertUnwindSafe(|| {
            let mut cur = Cursor::new(asset.clone());
            let mut log2 = StatusTracker::default();
            let r = hk21::verify_hash_binding_with(&claim, "image/jpeg", &mut cur, if upd { Some(urn(0xB1E)) } else { None }, range, &mut log2, &ctx());
            (r.is_ok(), log2)
        }));
        let req = format!("C21 rebase excl={} range={} cand={} n={total} upd={}", rngs(&excl), range.map(|(s, l)| format!("{s}:{l}")).unwrap_or("-".into()), rngs(&cand), upd as u8);
        run.count("rebase");
        match res {
            Ok((_ok, l)) => {
                log = l;
                let codes: Vec<String> = log.logged_items().iter().filter_map(|i| i.validation_status.as_deref().map(|s| s.to_string())).collect();
                let same = codes.iter().any(|c| c == "assertion.dataHash.match") && !codes.iter().any(|c| c == "assertion.dataHash.mismatch");
                let imp = if same { "same" } else { "diff" }.to_string();
                if range.map(|r| r.0 == pre).unwrap_or(false) && m2 != m {
                    run.nontrivial(format!("rebase {req}"));
                    if !upd {
                        run.count("rebase_not_update_store_moved");
                    }
                }
                run.case(req, imp);
            }
            Err(p) => {
                let idx = run.case(req, "panic".into());
                run.fail(idx, "panic", format!("verify_hash_binding panicked: {p}"));
            }
        }
    }
}

pub fn run(run: &mut Run, rng: &mut Rng) {
    run.rule = "update manifests made with BuilderIntent::Update on JPEG/PNG/MP4 (1-3 levels, one level with a redaction), crafted signed update manifests on top of a Builder-made parent and on top of an update manifest (legal variants; hard binding; each disallowed action; zero / component-only / input-only / two parentOf ingredients; thumbnail), each read as sidecar and embedded (store growth => exclusion re-basing) and combined with content mutations after the update; every store is described to the model and validated by the real Store::verify_store (ordered log compared); the re-basing block of verify_hash_binding is driven through a hook on random layouts (exclusions before/after the store, grown/shrunk/unchanged store, range absent or not matching) against candidate exclusion lists. non-trivial = a case that exercises an update manifest rule, a re-basing with a changed store length, or a content mutation that was detected".to_string();
    let thorough = run.thorough();
    let mut formats = vec![("image/jpeg", "IMG_0003.jpg"), ("image/png", "libpng-test.png"), ("video/mp4", "video1_no_manifest.mp4")];
    if thorough {
        formats.push(("image/avif", "sample1.avif"));
        formats.push(("image/webp", "test.webp"));
        formats.push(("image/tiff", "TUSCANY.TIF"));
        formats.push(("audio/wav", "sample1.wav"));
    }
    let mut jpeg_pair: Option<(Vec<u8>, Vec<u8>)> = None;
    for (fmt, file) in &formats {
        let Ok(src) = std::fs::read(fixtures().join(file)) else { continue };
        if let Some(pair) = builder_updates(run, rng, fmt, &src, thorough) {
            if *fmt == "image/jpeg" {
                jpeg_pair = Some(pair.clone());
            }
            // crafted variants on top of the base manifest and on top of an update manifest
            // BMFF in the quick tier: only the own-hard-binding variants (+ one legal control)
            let bmff = matches!(*fmt, "video/mp4" | "image/avif" | "image/heic");
            let _ = bmff;
            crafted_updates(run, rng, fmt, &pair.0, None, &format!("base_{}", fmt.replace('/', "-")), thorough, false);
            if *fmt == "image/jpeg" || thorough {
                crafted_updates(run, rng, fmt, &pair.1, Some(&pair.0), &format!("onupdate_{}", fmt.replace('/', "-")), thorough, false);
            }
        }
    }
    let _ = jpeg_pair;
    // a parent bound by a box hash (`c2pa.hash.boxes`): Builder update on top, crafted variants, mutations
    for (fmt, file) in [("image/jpeg", "IMG_0003.jpg"), ("image/png", "libpng-test.png")].iter().take(if thorough { 2 } else { 1 }) {
        let Ok(src) = std::fs::read(fixtures().join(file)) else { continue };
        let d = definition("BX", fmt, vec![created()], &[("org.verif.n0".into(), marker("x", "0")), ("org.verif.n1".into(), marker("x", "1"))], None, None);
        let Ok(a) = sign_with(box_hash_settings_json(), &d, None, fmt, &src, &[]) else {
            run.notes.push(format!("{fmt}: box-hash base could not be signed"));
            continue;
        };
        let is_box = jumbf_of(fmt, &a).ok().and_then(|j| load_store(&j).ok()).map(|s| manifest_assertion_labels(&s).iter().any(|(_, ls)| ls.iter().any(|l| l.starts_with("c2pa.hash.boxes")))).unwrap_or(false);
        run.obligations.insert(format!("box-hash-parent-{}", fmt.replace('/', "-")), is_box);
        if !is_box {
            continue;
        }
        let ra = read_asset(fmt, &a);
        if !ra.ok() {
            let idx = run.reqs.len().saturating_sub(1);
            run.fail(idx, "signed-asset-not-valid", format!("{fmt}: box-hash base reads {} {:?}", ra.state, ra.failures));
            continue;
        }
        let du = definition("BXU", fmt, vec![serde_json::json!({"action": "c2pa.published"})], &[("org.verif.u".into(), marker("xu", "0"))], None, None);
        match guarded(|| sign(&du, Some(BuilderIntent::Update), fmt, &a, &[])) {
            Ok(Ok(u)) => {
                run.count("builder_update_on_box_hash");
                let idx = jumbf_of(fmt, &u).ok().and_then(|j| verify_case(run, &j, "builder_update_on_box_hash")).unwrap_or(run.reqs.len().saturating_sub(1));
                let r = read_asset(fmt, &u);
                if !r.ok() {
                    run.fail(idx, "legal-update-not-valid", format!("{fmt}: update manifest on a box-hash parent reads {} {:?}", r.state, r.failures));
                }
                content_mutations(run, rng, idx, fmt, &u, None, "builder update on box-hash parent", if thorough { 8 } else { 3 });
            }
            Ok(Err(e)) => {
                let idx = run.reqs.len().saturating_sub(1);
                run.fail(idx, "legal-update-rejected", format!("{fmt}: update on a box-hash parent could not be signed: {}", err_class(&e)));
            }
            Err(p) => {
                let idx = run.reqs.len().saturating_sub(1);
                run.fail(idx, "panic", format!("{fmt}: update on box-hash parent: {p}"));
            }
        }
        crafted_updates(run, rng, fmt, &a, None, &format!("boxbase_{}", fmt.replace('/', "-")), thorough, !thorough);
    }
    rebase_cases(run, rng, if thorough { 6000 } else { 600 });
    run.obligations.insert("update-manifests-produced".into(), run.dist.keys().any(|k| k.starts_with("builder_update_l2")));
    run.obligations.insert("embedded-crafted-read".into(), run.dist.contains_key("embedded_crafted"));
}
