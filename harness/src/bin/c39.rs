//! C39 — ingredients carry their source manifests and validation faithfully.
//!
//!   c39 <tier> <seed> <outdir>
//!   c39 explore            (developer aid)
//!
//! Implementation level (oracle): signed / tampered / unsigned assets of several formats (signed
//! in-process, plus fixtures with chains and failures) are added to a new manifest as parentOf /
//! componentOf / inputTo ingredients through `add_ingredient_from_stream` (and through
//! `add_ingredient_from_reader`), the parent is signed and read back. Compared with a stand-alone
//! read of the ingredient asset (same settings): every manifest of the ingredient's store is
//! present in the parent's store with identical reported content; the ingredient's
//! `active_manifest`, `validation_results` and `validation_status` equal the stand-alone read's;
//! a tampered ingredient shows its failure; an unsigned one records no manifest and no failure.
//! Scenarios with two ingredients: the same store twice (dedupe), two different stores, and two
//! stores holding *different* manifests under the *same* label (conflict relabelling).
//!
//! Model level: `C39 merge …` — the resulting ingredient store (labels → content ids) of
//! `Store::load_ingredient_to_claim` sequences against Model/C39.lean.

#[path = "../defgen.rs"]
mod defgen;

use std::io::Cursor;

use c2pa::{Builder, Context, EphemeralSigner, Reader};
use defgen::*;
use serde_json::{json, Value};
use vh::common::{canon_json, fixtures, guarded, main_with, Rng, Run};
use vh::sign::unsigned_sources;

#[derive(Clone)]
struct Asset {
    name: String,
    format: String,
    data: Vec<u8>,
    kind: &'static str, // unsigned | signed | tampered | chain | fixture-invalid
}

fn settings() -> String {
    base_settings()
}

/// sign `src` with an optional forced manifest label and an optional ingredient
fn sign_with(fmt: &str, src: &[u8], title: &str, label: Option<&str>, ingredient: Option<&Asset>, extra: Option<Value>) -> c2pa::Result<Vec<u8>> {
    let ctx = Context::new().with_settings(settings().as_str())?;
    let mut def = json!({
        "title": title,
        "format": fmt,
        "claim_generator_info": [{"name": "verif-c39", "version": "1"}],
        "assertions": [
            {"label": "c2pa.actions", "data": {"actions": [{"action": "c2pa.created", "digitalSourceType": "http://cv.iptc.org/newscodes/digitalsourcetype/digitalCapture"}]}}
        ]
    });
    if let Some(l) = label {
        def["label"] = json!(l);
    }
    if let Some(x) = extra {
        def["assertions"].as_array_mut().unwrap().push(json!({"label": "org.verif.extra", "data": x, "kind": "Json"}));
    }
    let mut b = Builder::from_context(ctx).with_definition(def.to_string().as_str())?;
    if let Some(i) = ingredient {
        b.add_ingredient_from_stream(json!({"title": i.name, "relationship": "componentOf"}).to_string(), &i.format, &mut Cursor::new(i.data.clone()))?;
    }
    let signer = EphemeralSigner::new("verif-ing.test")?;
    let mut out = Cursor::new(Vec::new());
    b.sign(&signer, fmt, &mut Cursor::new(src.to_vec()), &mut out)?;
    Ok(out.into_inner())
}

struct Parent {
    state: String,
    report: Value,
}

/// Build a parent with the given ingredients, sign, read back.
fn make_parent(fmt: &str, src: &[u8], ings: &[(Asset, &'static str, bool)]) -> Result<Parent, String> {
    let ctx = Context::new().with_settings(settings().as_str()).map_err(|e| format!("{e:?}"))?;
    let has_parent = ings.iter().any(|(_, rel, _)| *rel == "parentOf");
    let action = if has_parent {
        json!({"action": "c2pa.opened", "parameters": {"ingredientIds": ["ing0"]}})
    } else {
        json!({"action": "c2pa.created", "digitalSourceType": "http://cv.iptc.org/newscodes/digitalsourcetype/digitalCapture"})
    };
    let def = json!({
        "title": "parent",
        "format": fmt,
        "claim_generator_info": [{"name": "verif-c39", "version": "1"}],
        "assertions": [{"label": "c2pa.actions", "data": {"actions": [action]}}]
    });
    let mut b = Builder::from_context(ctx).with_definition(def.to_string().as_str()).map_err(|e| format!("definition: {e:?}"))?;
    for (k, (a, rel, via_reader)) in ings.iter().enumerate() {
        if *via_reader {
            let rctx = Context::new().with_settings(settings().as_str()).map_err(|e| format!("{e:?}"))?;
            let reader = Reader::from_context(rctx).with_stream(&a.format, Cursor::new(a.data.clone())).map_err(|e| format!("reader for ingredient: {e:?}"))?;
            // a reader-derived ingredient is the parent ingredient of the read manifest; wrap: use the asset itself
            let _ = reader;
            b.add_ingredient_from_stream(json!({"title": a.name, "relationship": rel, "label": format!("ing{k}")}).to_string(), &a.format, &mut Cursor::new(a.data.clone())).map_err(|e| format!("add_ingredient: {e:?}"))?;
        } else {
            b.add_ingredient_from_stream(json!({"title": a.name, "relationship": rel, "label": format!("ing{k}")}).to_string(), &a.format, &mut Cursor::new(a.data.clone())).map_err(|e| format!("add_ingredient: {e:?}"))?;
        }
    }
    let signer = EphemeralSigner::new("verif-parent.test").map_err(|e| format!("{e:?}"))?;
    let mut out = Cursor::new(Vec::new());
    b.sign(&signer, fmt, &mut Cursor::new(src.to_vec()), &mut out).map_err(|e| {
        let s = format!("{e:?}");
        format!("sign: {}", &s[..s.len().min(300)])
    })?;
    let (state, report, _) = read(fmt, out.get_ref(), &settings())?;
    Ok(Parent { state, report })
}

/// byte span of the C2PA region(s) in a signed asset
fn manifest_span(fmt: &str, data: &[u8]) -> (usize, usize) {
    match c2pa::verif_hooks::c07::object_locations(fmt, &mut Cursor::new(data.to_vec())) {
        Ok(l) => {
            let cai: Vec<&(usize, usize, u8)> = l.iter().filter(|x| x.2 == 0).collect();
            let lo = cai.iter().map(|x| x.0).min().unwrap_or(0);
            let hi = cai.iter().map(|x| x.0 + x.1).max().unwrap_or(0);
            (lo, hi)
        }
        Err(_) => (0, 0),
    }
}

fn strip_time(v: &Value) -> Value {
    let mut v = v.clone();
    if let Some(o) = v.as_object_mut() {
        o.remove("validationTime");
    }
    v
}

fn codes(list: &Value) -> Vec<String> {
    let mut v: Vec<String> = list.as_array().map(|a| a.iter().map(|s| format!("{}@{}", s["code"].as_str().unwrap_or("?"), s["url"].as_str().unwrap_or("-"))).collect()).unwrap_or_default();
    v.sort();
    v
}

/// The oracle for one ingredient of a parent report against the stand-alone read.
fn check_ingredient(run: &mut Run, idx: usize, key: &str, ing: &Value, parent: &Value, alone: &Result<(String, Value, Reader), String>, kind: &str) -> bool {
    let mut ok = true;
    match alone {
        Err(e) => {
            // no manifest (or unreadable): nothing may be recorded
            if kind == "unsigned" {
                if ing.get("active_manifest").is_some() || ing.get("validation_results").is_some() || ing.get("validation_status").is_some() || ing.get("manifest_data").is_some() {
                    ok = false;
                    run.fail(idx, "unsigned-ingredient-has-manifest-or-failure", format!("{key}: stand-alone read gives {e}; ingredient records {}", &ing.to_string()[..ing.to_string().len().min(300)]));
                }
            } else if e.contains("JumbfNotFound") {
                if ing.get("active_manifest").is_some() || ing.get("validation_results").is_some() {
                    ok = false;
                    run.fail(idx, "unsigned-ingredient-has-manifest-or-failure", format!("{key}: stand-alone read finds no manifest; ingredient records one"));
                }
            } else if ing.get("validation_results").is_none() && ing.get("validation_status").is_none() {
                ok = false;
                run.fail(idx, "unreadable-ingredient-recorded-clean", format!("{key}: stand-alone read fails with {e} but the ingredient records no failure"));
            }
        }
        Ok((state, rep, _)) => {
            let act = rep.get("active_manifest").and_then(|x| x.as_str()).unwrap_or("");
            if ing.get("active_manifest").and_then(|x| x.as_str()) != Some(act) {
                ok = false;
                run.fail(idx, "ingredient-active-manifest-differs", format!("{key}: stand-alone {act}, ingredient {:?}", ing.get("active_manifest")));
            }
            // every manifest of the ingredient's store is in the parent's store, unchanged
            for (label, m) in rep["manifests"].as_object().into_iter().flatten() {
                match parent["manifests"].get(label) {
                    None => {
                        ok = false;
                        run.fail(idx, "ingredient-manifest-missing", format!("{key}: manifest {label} of the ingredient's store is not in the parent's store (has {:?})", parent["manifests"].as_object().map(|o| o.keys().cloned().collect::<Vec<_>>())));
                    }
                    Some(pm) => {
                        if canon_json(pm) != canon_json(m) {
                            ok = false;
                            run.fail(idx, "ingredient-manifest-changed", format!("{key}: manifest {label} differs between the stand-alone read and the parent's store"));
                        }
                    }
                }
            }
            // validation results copied from the stand-alone read
            let want = strip_time(&rep["validation_results"]);
            let got = ing.get("validation_results").map(strip_time).unwrap_or(Value::Null);
            if canon_json(&want) != canon_json(&got) {
                ok = false;
                let (a, b) = (codes(&want["activeManifest"]["failure"]), codes(&got["activeManifest"]["failure"]));
                run.fail(idx, "ingredient-validation-results-differ", format!("{key}: stand-alone state {state}; failures stand-alone {a:?} ingredient {b:?}; (full results differ)"));
            }
            // validation_status = the errors of the stand-alone read
            let want_status = codes(rep.get("validation_status").unwrap_or(&Value::Null));
            let got_status = codes(ing.get("validation_status").unwrap_or(&Value::Null));
            // (a v3 ingredient assertion carries validationResults only; compare the legacy list
            // when the ingredient has one)
            if ing.get("validation_status").is_some() && want_status != got_status {
                ok = false;
                run.fail(idx, "ingredient-validation-status-differs", format!("{key}: stand-alone {want_status:?} ingredient {got_status:?}"));
            }
            if state == "Invalid" {
                let f = got["activeManifest"]["failure"].as_array().map(|a| a.len()).unwrap_or(0)
                    + got["ingredientDeltas"].as_array().map(|a| a.iter().map(|d| d["validationDeltas"]["failure"].as_array().map(|x| x.len()).unwrap_or(0)).sum::<usize>()).unwrap_or(0);
                if f == 0 {
                    ok = false;
                    run.fail(idx, "tampered-ingredient-reported-clean", format!("{key}: stand-alone read is Invalid, the ingredient shows no failure"));
                }
            }
        }
    }
    ok
}

fn ingredients_of(report: &Value) -> Vec<Value> {
    let active = report.get("active_manifest").and_then(|x| x.as_str()).unwrap_or("");
    report["manifests"][active]["ingredients"].as_array().cloned().unwrap_or_default()
}

fn main() {
    let args: Vec<String> = std::env::args().collect();
    if args.len() >= 2 && args[1] == "explore" {
        let src = std::fs::read(fixtures().join("libpng-test.png")).unwrap();
        let l = "urn:c2pa:11111111-2222-4333-8444-555555555555";
        let a = sign_with("image/png", &src, "A", Some(l), None, Some(json!({"who": "A"}))).expect("A");
        let b = sign_with("image/png", &src, "B", Some(l), None, Some(json!({"who": "B"}))).expect("B");
        let aa = Asset { name: "A".into(), format: "image/png".into(), data: a, kind: "signed" };
        let bb = Asset { name: "B".into(), format: "image/png".into(), data: b, kind: "signed" };
        match make_parent("image/png", &src, &[(aa, "componentOf", false), (bb, "componentOf", false)]) {
            Ok(p) => println!("state {}\n{}", p.state, serde_json::to_string_pretty(&p.report).unwrap()),
            Err(e) => println!("error: {e}"),
        }
        return;
    }
    main_with("C39", run);
}

pub fn run(run: &mut Run, rng: &mut Rng) {
    run.rule = "an asset (unsigned / signed in-process / tampered after signing / signed with an ingredient chain / fixtures with failures) is added to a new manifest as parentOf, componentOf or inputTo ingredient, the parent is signed and read back, and the ingredient entry and the parent's store are compared with a stand-alone read of the ingredient asset; non-trivial = the parent signed and every comparison held; distinct by (parent format, ingredient asset, relationship, scenario)".to_string();
    let thorough = run.thorough();
    let sources: Vec<(&'static str, Vec<u8>)> = unsigned_sources().into_iter().filter_map(|(f, n)| std::fs::read(fixtures().join(n)).ok().filter(|d| d.len() <= if thorough { 1_200_000 } else { 110_000 }).map(|d| (f, d))).collect();
    // ingredient asset pool
    let mut pool: Vec<Asset> = vec![];
    for (f, d) in &sources {
        pool.push(Asset { name: format!("unsigned-{f}"), format: f.to_string(), data: d.clone(), kind: "unsigned" });
        match sign_with(f, d, &format!("signed {f}"), None, None, None) {
            Ok(s) => {
                let signed = Asset { name: format!("signed-{f}"), format: f.to_string(), data: s.clone(), kind: "signed" };
                // tamper: flip one content byte (not in the manifest, container still parses):
                // hard-binding mismatch
                let (mlo, mhi) = manifest_span(f, &s);
                let mut t = s.clone();
                let mut k = t.len() * 3 / 5;
                if k >= mlo && k < mhi {
                    k = if mhi + 40 < t.len() { mhi + (t.len() - mhi) / 2 } else { mlo / 2 };
                }
                t[k] ^= 0x01;
                pool.push(Asset { name: format!("tampered-{f}"), format: f.to_string(), data: t, kind: "tampered" });
                // damaged: flip a byte of the container trailer (the asset may no longer parse)
                let mut dmg = s.clone();
                let k = dmg.len() - 5;
                dmg[k] ^= 0x55;
                pool.push(Asset { name: format!("damaged-{f}"), format: f.to_string(), data: dmg, kind: "damaged" });
                // chain: sign again with the signed asset as ingredient
                if d.len() <= 110_000 {
                    if let Ok(c) = sign_with(f, d, &format!("chain {f}"), None, Some(&signed), None) {
                        pool.push(Asset { name: format!("chain-{f}"), format: f.to_string(), data: c, kind: "chain" });
                    }
                }
                pool.push(signed);
            }
            Err(e) => run.notes.push(format!("could not sign {f}: {e:?}")),
        }
    }
    for (n, kind) in [("CA.jpg", "chain"), ("C.jpg", "signed"), ("XCA.jpg", "fixture-invalid"), ("E-sig-CA.jpg", "fixture-invalid"), ("CACA.jpg", "chain"), ("E-clm-CAICAI.jpg", "fixture-invalid")] {
        if let Ok(d) = std::fs::read(fixtures().join(n)) {
            pool.push(Asset { name: n.to_string(), format: "image/jpeg".into(), data: d, kind });
        }
    }
    if let Ok(d) = std::fs::read(fixtures().join("cloud.jpg")) {
        pool.push(Asset { name: "cloud.jpg(remote manifest, fetch off)".into(), format: "image/jpeg".into(), data: d, kind: "remote" });
    }
    let parents: Vec<&(&'static str, Vec<u8>)> = sources.iter().filter(|(_, d)| d.len() <= 110_000).collect();
    let rels = ["parentOf", "componentOf", "inputTo"];
    // A: every pool asset in every relationship (quick: relationship rotates)
    let mut k = 0usize;
    for a in pool.clone() {
        let rel_list: Vec<&'static str> = rels.to_vec();
        for rel in rel_list {
            let (pf, ps) = parents[k % parents.len()];
            k += 1;
            let key = format!("A parent={pf} ingredient={} kind={} rel={rel}", a.name, a.kind);
            run.count(&format!("kind:{}", a.kind));
            run.count(&format!("relationship:{rel}"));
            run.count(&format!("ingredient-format:{}", a.format));
            let (a2, fmt2) = (a.clone(), a.format.clone());
            let alone = read(&fmt2, &a2.data, &settings());
            let req = format!("C39 add kind={} rel={rel}", match &alone {
                Ok(_) => "manifest",
                Err(e) if e.contains("JumbfNotFound") => "none",
                Err(e) if e.contains("RemoteManifest") => "remote",
                Err(_) => "damaged",
            });
            let (pf2, ps2, a3) = (pf.to_string(), ps.clone(), a.clone());
            match guarded(move || make_parent(&pf2, &ps2, &[(a3, rel, false)])) {
                Err(p) => {
                    let idx = run.case(req, "panic".into());
                    run.fail(idx, "panic", format!("{key}: {p}"));
                }
                Ok(Err(e)) => {
                    let idx = run.case(req, "error".into());
                    let al = match &alone {
                        Ok((st, rep, _)) => format!("stand-alone read: {st}, failures {:?}", codes(&rep["validation_results"]["activeManifest"]["failure"])),
                        Err(e) => format!("stand-alone read fails: {e}"),
                    };
                    let class = if a.kind == "remote" { "inaccessible-remote-ingredient-blocks-signing" } else if alone.is_err() && a.kind != "unsigned" { "damaged-ingredient-blocks-signing" } else { "parent-sign-failed" };
                    run.fail(idx, class, format!("{key}: {e}; {al}"));
                }
                Ok(Ok(p)) => {
                    let ings = ingredients_of(&p.report);
                    let imp = format!("ingredients={} active={} results={}", ings.len(), ings.first().map(|i| i.get("active_manifest").is_some()).unwrap_or(false), ings.first().map(|i| i.get("validation_results").is_some()).unwrap_or(false));
                    let idx = run.case(req, imp);
                    if ings.len() != 1 {
                        run.fail(idx, "ingredient-count-differs", format!("{key}: {} ingredients reported", ings.len()));
                        continue;
                    }
                    if ings[0].get("relationship").and_then(|x| x.as_str()) != Some(rel) {
                        run.fail(idx, "ingredient-relationship-differs", format!("{key}: reported {:?}", ings[0].get("relationship")));
                    }
                    if check_ingredient(run, idx, &key, &ings[0], &p.report, &alone, a.kind) {
                        run.nontrivial(key);
                    }
                }
            }
        }
    }
    // B: two ingredients
    let signed: Vec<Asset> = pool.iter().filter(|a| a.kind == "signed" || a.kind == "chain").cloned().collect();
    let n_pairs = if thorough { 1000 } else { 24 };
    for i in 0..n_pairs {
        let mut r = rng.fork();
        let a = r.pick(&signed).clone();
        let same = i % 2 == 0;
        let b = if same { a.clone() } else { r.pick(&signed).clone() };
        let (pf, ps) = *r.pick(&parents);
        let key = format!("B parent={pf} ingredients={}+{} same={same}", a.name, b.name);
        run.count(if same { "pair:same-store-twice" } else { "pair:two-stores" });
        let (pf2, ps2, a2, b2) = (pf.to_string(), ps.clone(), a.clone(), b.clone());
        // abstract the two stores: labels L0,L1,… and contents c0,c1,… by first appearance
        let ra = read(&a.format, &a.data, &settings());
        let rb = read(&b.format, &b.data, &settings());
        let mut lab: Vec<String> = vec![];
        let mut con: Vec<String> = vec![];
        let mut abs_store = |rep: &Value| -> Vec<(String, String)> {
            let mut out = vec![];
            let mut keys: Vec<&String> = rep["manifests"].as_object().map(|m| m.keys().collect()).unwrap_or_default();
            keys.sort();
            for k in keys {
                let c = canon_json(&rep["manifests"][k]);
                let li = lab.iter().position(|x| x == k).unwrap_or_else(|| {
                    lab.push(k.clone());
                    lab.len() - 1
                });
                let ci = con.iter().position(|x| *x == c).unwrap_or_else(|| {
                    con.push(c.clone());
                    con.len() - 1
                });
                out.push((format!("L{li}"), format!("c{ci}")));
            }
            out
        };
        let (sa, sb) = match (&ra, &rb) {
            (Ok((_, x, _)), Ok((_, y, _))) => (abs_store(x), abs_store(y)),
            _ => (vec![], vec![]),
        };
        let fmt_store = |s: &Vec<(String, String)>| if s.is_empty() { "-".to_string() } else { s.iter().map(|(l, c)| format!("{l}:{c}")).collect::<Vec<_>>().join(",") };
        let req = format!("C39 merge v=2 skip=0 sorted=1 cur={} inc={}", fmt_store(&sa), fmt_store(&sb));
        let (lab2, con2) = (lab.clone(), con.clone());
        match guarded(move || make_parent(&pf2, &ps2, &[(a2, "componentOf", false), (b2, "inputTo", false)])) {
            Err(p) => {
                let idx = run.case(req, "panic".into());
                run.fail(idx, "panic", format!("{key}: {p}"));
            }
            Ok(Err(e)) => {
                let idx = run.case(req, "error".into());
                run.fail(idx, "parent-sign-failed", format!("{key}: {e}"));
            }
            Ok(Ok(p)) => {
                let ings = ingredients_of(&p.report);
                // the parent's ingredient store in the same abstraction (unknown labels/contents: X)
                let active = p.report.get("active_manifest").and_then(|x| x.as_str()).unwrap_or("").to_string();
                let mut got: Vec<String> = p.report["manifests"].as_object().map(|m| {
                    m.iter().filter(|(k, _)| **k != active).map(|(k, v)| {
                        let l = lab2.iter().position(|x| x == k).map(|i| format!("L{i}")).unwrap_or("X".into());
                        let c = canon_json(v);
                        let ci = con2.iter().position(|x| *x == c).map(|i| format!("c{i}")).unwrap_or("X".into());
                        format!("{l}:{ci}")
                    }).collect()
                }).unwrap_or_default();
                got.sort();
                let idx = run.case(req, format!("ok {}", got.join(",")));
                if ings.len() != 2 {
                    run.fail(idx, "ingredient-count-differs", format!("{key}: {} ingredients reported", ings.len()));
                    continue;
                }
                let mut ok = true;
                for (ing, asset) in ings.iter().zip([&a, &b]) {
                    let alone = read(&asset.format, &asset.data, &settings());
                    ok &= check_ingredient(run, idx, &key, ing, &p.report, &alone, asset.kind);
                }
                if ok {
                    run.nontrivial(key);
                }
            }
        }
    }
    // C: two stores holding different manifests under the same label (conflict relabelling)
    if let Some((pf, ps)) = parents.first().map(|x| (x.0, &x.1)) {
        let l = "urn:c2pa:11111111-2222-4333-8444-555555555555";
        let a = sign_with(pf, ps, "A", Some(l), None, Some(json!({"who": "A"})));
        let b = sign_with(pf, ps, "B", Some(l), None, Some(json!({"who": "B"})));
        if let (Ok(a), Ok(b)) = (a, b) {
            let aa = Asset { name: "A(label L)".into(), format: pf.to_string(), data: a, kind: "signed" };
            let bb = Asset { name: "B(label L)".into(), format: pf.to_string(), data: b, kind: "signed" };
            let key = format!("C parent={pf} two ingredients with different manifests under one label");
            run.count("pair:label-conflict");
            let (pf2, ps2, a2, b2) = (pf.to_string(), ps.clone(), aa.clone(), bb.clone());
            let req = "C39 merge v=2 skip=0 cur=L:a inc=L:b".to_string();
            match guarded(move || make_parent(&pf2, &ps2, &[(a2, "componentOf", false), (b2, "componentOf", false)])) {
                Err(p) => {
                    let idx = run.case(req, "panic".into());
                    run.fail(idx, "panic", format!("{key}: {p}"));
                }
                Ok(Err(e)) => {
                    let idx = run.case(req, if e.contains("ingredient label malformed") { "err malformed".into() } else { "err other".into() });
                    run.fail(idx, "conflicting-label-ingredients-sign-fails", format!("{key}: {e}"));
                }
                Ok(Ok(p)) => {
                    let labels: Vec<String> = p.report["manifests"].as_object().map(|m| m.keys().cloned().collect()).unwrap_or_default();
                    let idx = run.case(req, format!("ok manifests={}", labels.len()));
                    let ings = ingredients_of(&p.report);
                    let mut ok = ings.len() == 2;
                    for (ing, asset) in ings.iter().zip([&aa, &bb]) {
                        // modulo relabelling: compare the manifest the ingredient points at with the stand-alone one
                        let alone = read(&asset.format, &asset.data, &settings());
                        if let Ok((_, rep, _)) = &alone {
                            let act = rep["active_manifest"].as_str().unwrap_or("");
                            let want = &rep["manifests"][act];
                            let got_label = ing["active_manifest"].as_str().unwrap_or("");
                            let got = &p.report["manifests"][got_label];
                            let mut w = want.clone();
                            let mut g = got.clone();
                            for x in [&mut w, &mut g] {
                                if let Some(o) = x.as_object_mut() {
                                    o.remove("label");
                                }
                            }
                            if canon_json(&w) != canon_json(&g) {
                                ok = false;
                                run.fail(idx, "conflicting-label-ingredient-manifest-changed", format!("{key}: ingredient {} points at manifest {got_label} whose content is not the source's", asset.name));
                            }
                        }
                    }
                    if ok {
                        run.nontrivial(key);
                    }
                }
            }
        }
    }
    // D: ingredient through a C2PA ingredient archive (write_ingredient_archive → add_ingredient_from_archive)
    let n_arch = if thorough { 40 } else { 6 };
    for i in 0..n_arch {
        let mut r = rng.fork();
        let a = r.pick(&signed).clone();
        let (pf, ps) = *r.pick(&parents);
        let key = format!("D{i} parent={pf} archived ingredient={}", a.name);
        run.count("via:ingredient-archive");
        let (pf2, ps2, a2) = (pf.to_string(), ps.clone(), a.clone());
        let req = "C39 add kind=manifest rel=archive".to_string();
        let res = guarded(move || -> Result<Parent, String> {
            let st = json!({"verify": {"verify_trust": true, "remote_manifest_fetch": false, "ocsp_fetch": false}, "builder": {"generate_c2pa_archive": true}}).to_string();
            let ctx = Context::new().with_settings(st.as_str()).map_err(|e| format!("{e:?}"))?;
            let mut b1 = Builder::from_context(ctx);
            b1.add_ingredient_from_stream(json!({"title": a2.name, "relationship": "componentOf", "label": "ingX"}).to_string(), &a2.format, &mut Cursor::new(a2.data.clone())).map_err(|e| format!("add: {e:?}"))?;
            let mut ar = Cursor::new(Vec::new());
            b1.write_ingredient_archive("ingX", &mut ar).map_err(|e| format!("write_ingredient_archive: {e:?}"))?;
            ar.set_position(0);
            let ctx2 = Context::new().with_settings(st.as_str()).map_err(|e| format!("{e:?}"))?;
            let def = json!({"title": "parent", "format": pf2, "claim_generator_info": [{"name": "verif-c39", "version": "1"}],
                "assertions": [{"label": "c2pa.actions", "data": {"actions": [{"action": "c2pa.created", "digitalSourceType": "http://cv.iptc.org/newscodes/digitalsourcetype/digitalCapture"}]}}]});
            let mut b2 = Builder::from_context(ctx2).with_definition(def.to_string().as_str()).map_err(|e| format!("{e:?}"))?;
            b2.add_ingredient_from_archive(&mut ar).map_err(|e| format!("add_ingredient_from_archive: {e:?}"))?;
            let signer = EphemeralSigner::new("verif-parent.test").map_err(|e| format!("{e:?}"))?;
            let mut out = Cursor::new(Vec::new());
            b2.sign(&signer, &pf2, &mut Cursor::new(ps2.clone()), &mut out).map_err(|e| format!("sign: {e:?}"))?;
            let (state, report, _) = read(&pf2, out.get_ref(), &settings())?;
            Ok(Parent { state, report })
        });
        match res {
            Err(p) => {
                let idx = run.case(req, "panic".into());
                run.fail(idx, "panic", format!("{key}: {p}"));
            }
            Ok(Err(e)) => {
                let idx = run.case(req, "error".into());
                run.fail(idx, "archived-ingredient-failed", format!("{key}: {}", &e[..e.len().min(300)]));
            }
            Ok(Ok(p)) => {
                let ings = ingredients_of(&p.report);
                let imp = format!("ingredients={} active={} results={}", ings.len(), ings.first().map(|i| i.get("active_manifest").is_some()).unwrap_or(false), ings.first().map(|i| i.get("validation_results").is_some()).unwrap_or(false));
                let idx = run.case(req, imp);
                if ings.len() != 1 {
                    run.fail(idx, "ingredient-count-differs", format!("{key}: {} ingredients", ings.len()));
                    continue;
                }
                let alone = read(&a.format, &a.data, &settings());
                if check_ingredient(run, idx, &key, &ings[0], &p.report, &alone, a.kind) {
                    run.nontrivial(key);
                }
                let _ = p.state;
            }
        }
    }
}
