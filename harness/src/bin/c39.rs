//! C39 — ingredients carry their source manifests and validation faithfully.
//!
//!   c39 <tier> <seed> <outdir>
//!   c39 explore            (developer aid)
//!
//! Implementation level (oracle): signed (claim version 1 and 2) / tampered / damaged / chained /
//! unsigned assets of several formats — including unsigned assets of formats WITHOUT asset handler
//! (text/plain, application/octet-stream, PSD, unknown types), assets carrying an empty manifest
//! store, assets with a wrong format hint, assets with an inaccessible remote manifest — are added
//! to a new manifest (claim version 2 and 1) as parentOf / componentOf / inputTo ingredients through
//! `add_ingredient_from_stream`, the parent is signed and read back. Compared with a stand-alone
//! read of the ingredient asset (same settings): every manifest of the ingredient's store is
//! present in the parent's store with identical reported content; the ingredient's
//! `active_manifest`, `validation_results` and `validation_status` equal the stand-alone read's;
//! a tampered ingredient shows its failure; an unsigned one records no manifest and no failure and
//! never blocks signing; the parent's own read reports no failure delta for a faithfully captured
//! ingredient. Scenarios with two ingredients: the same store twice (dedupe), two different stores,
//! and two stores holding *different* manifests under the *same* label (conflict relabelling).
//!
//! Model level:
//! * `C39 add v=<claim version> read=<class> vers=<claim versions of the stand-alone store>` — the
//!   request carries the REAL outcome class of the stand-alone read as the ingredient path sees it
//!   (load through the handler of the declared format, then the Reader's result) and the claim
//!   versions of the manifests it found; the reply is the presence triple the `Ingredient` returned
//!   by `add_ingredient_from_stream` really records (active_manifest / manifest_data /
//!   validation_results) and the outcome class of `Builder::sign`.
//! * `C39 mergeall v=… stores=…` — the resulting ingredient store (labels → content ids) of the
//!   `Store::load_ingredient_to_claim` sequence, or its error class, against Model/C39.lean.

#[path = "../defgen.rs"]
mod defgen;

use std::io::Cursor;

use c2pa::{Builder, Context, EphemeralSigner, Reader};
use defgen::*;
use serde_json::{json, Value};
use vh::common::{canon_json, fixtures, guarded, main_with, Rng, Run};
use vh::sign::unsigned_sources;

#[derive(Clone)]
struct Asset {
    name: String,
    format: String,
    data: Vec<u8>,
    /// unsigned | signed | signed-v1 | tampered | damaged | chain | fixture-invalid | remote |
    /// mislabelled | noprov
    kind: &'static str,
    /// settings variant the asset is read / added with (see `settings_for`)
    st: u8,
}

fn asset(name: &str, format: &str, data: Vec<u8>, kind: &'static str) -> Asset {
    Asset { name: name.to_string(), format: format.to_string(), data, kind, st: 0 }
}

fn settings() -> String {
    base_settings()
}

/// 0 = base; 1 = no verification after reading
fn settings_for(st: u8) -> String {
    match st {
        1 => json!({"verify": {"verify_trust": true, "remote_manifest_fetch": false, "ocsp_fetch": false, "verify_after_reading": false}}).to_string(),
        _ => base_settings(),
    }
}

/// sign `src` (claim version `cv`) with an optional forced manifest label and an optional ingredient
fn sign_with(fmt: &str, src: &[u8], title: &str, label: Option<&str>, ingredient: Option<&Asset>, extra: Option<Value>, cv: u8) -> c2pa::Result<Vec<u8>> {
    let ctx = Context::new().with_settings(settings().as_str())?;
    let mut def = json!({
        "title": title,
        "format": fmt,
        "claim_version": cv,
        "claim_generator_info": [{"name": "verif-c39", "version": "1"}],
        "assertions": [
            {"label": "c2pa.actions", "data": {"actions": [{"action": "c2pa.created", "digitalSourceType": "http://cv.iptc.org/newscodes/digitalsourcetype/digitalCapture"}]}}
        ]
    });
    if let Some(l) = label {
        def["label"] = json!(l);
    }
    if let Some(x) = extra {
        def["assertions"].as_array_mut().unwrap().push(json!({"label": "org.verif.extra", "data": x, "kind": "Json"}));
    }
    let mut b = Builder::from_context(ctx).with_definition(def.to_string().as_str())?;
    if let Some(i) = ingredient {
        b.add_ingredient_from_stream(json!({"title": i.name, "relationship": "componentOf"}).to_string(), &i.format, &mut Cursor::new(i.data.clone()))?;
    }
    let signer = EphemeralSigner::new("verif-ing.test")?;
    let mut out = Cursor::new(Vec::new());
    b.sign(&signer, fmt, &mut Cursor::new(src.to_vec()), &mut out)?;
    Ok(out.into_inner())
}

struct Parent {
    state: String,
    report: Value,
}

/// What really happened: the presence triple each returned `Ingredient` records, and the outcome.
struct Built {
    /// per ingredient (active_manifest, manifest_data, validation_results) presence
    triples: Vec<(bool, bool, bool)>,
    /// error of `add_ingredient_from_stream`, if any
    add_err: Option<String>,
    /// `Builder::sign` + read back
    outcome: Result<Parent, String>,
    /// the signed parent asset
    bytes: Option<Vec<u8>>,
}

/// Build a parent (claim version `v`, settings variant `st`) with the given ingredients, sign, read back.
fn build(fmt: &str, src: &[u8], ings: &[(Asset, &'static str)], v: u8, st: u8) -> Built {
    let mut built = Built { triples: vec![], add_err: None, outcome: Err("not built".into()), bytes: None };
    let stg = settings_for(st);
    let ctx = match Context::new().with_settings(stg.as_str()) {
        Ok(c) => c,
        Err(e) => {
            built.outcome = Err(format!("{e:?}"));
            return built;
        }
    };
    let has_parent = ings.iter().any(|(_, rel)| *rel == "parentOf");
    let action = if has_parent {
        json!({"action": "c2pa.opened", "parameters": {"ingredientIds": ["ing0"]}})
    } else {
        json!({"action": "c2pa.created", "digitalSourceType": "http://cv.iptc.org/newscodes/digitalsourcetype/digitalCapture"})
    };
    let def = json!({
        "title": "parent",
        "format": fmt,
        "claim_version": v,
        "claim_generator_info": [{"name": "verif-c39", "version": "1"}],
        "assertions": [{"label": "c2pa.actions", "data": {"actions": [action]}}]
    });
    let mut b = match Builder::from_context(ctx).with_definition(def.to_string().as_str()) {
        Ok(b) => b,
        Err(e) => {
            built.outcome = Err(format!("definition: {e:?}"));
            return built;
        }
    };
    for (k, (a, rel)) in ings.iter().enumerate() {
        match b.add_ingredient_from_stream(json!({"title": a.name, "relationship": rel, "label": format!("ing{k}")}).to_string(), &a.format, &mut Cursor::new(a.data.clone())) {
            Ok(i) => built.triples.push((i.active_manifest().is_some(), i.manifest_data_ref().is_some(), i.validation_results().is_some())),
            Err(e) => {
                built.add_err = Some(format!("{e:?}"));
                built.outcome = Err(format!("add_ingredient: {e:?}"));
                return built;
            }
        }
    }
    let signer = match EphemeralSigner::new("verif-parent.test") {
        Ok(s) => s,
        Err(e) => {
            built.outcome = Err(format!("{e:?}"));
            return built;
        }
    };
    let mut out = Cursor::new(Vec::new());
    built.outcome = match b.sign(&signer, fmt, &mut Cursor::new(src.to_vec()), &mut out) {
        Err(e) => {
            let s = format!("{e:?}");
            Err(format!("sign: {}", &s[..s.len().min(300)]))
        }
        Ok(_) => {
            built.bytes = Some(out.get_ref().clone());
            read(fmt, out.get_ref(), &stg).map(|(state, report, _)| Parent { state, report })
        }
    };
    built
}

/// (kind, code, manifest label, path, ingredient uri) of a status; the url
/// `self#jumbf=/c2pa/<label>/<path>` is split, any other url has no manifest label
type St = (u8, String, String, String, Option<String>);

fn split_url(url: &str) -> (String, String) {
    match url.strip_prefix("self#jumbf=/c2pa/") {
        Some(rest) => match rest.split_once('/') {
            Some((l, p)) => (l.to_string(), p.to_string()),
            None => (rest.to_string(), String::new()),
        },
        None => (String::new(), url.to_string()),
    }
}

fn join_url(manifest: &str, path: &str) -> String {
    if manifest.is_empty() {
        path.to_string()
    } else if path.is_empty() {
        format!("self#jumbf=/c2pa/{manifest}")
    } else {
        format!("self#jumbf=/c2pa/{manifest}/{path}")
    }
}

/// statuses of a `StatusCodes` JSON object
fn flatten_codes(sc: &Value, ing: Option<&str>, out: &mut Vec<St>) {
    for (k, name) in [(0u8, "success"), (1, "informational"), (2, "failure")] {
        for s in sc[name].as_array().into_iter().flatten() {
            let (m, p) = split_url(s["url"].as_str().unwrap_or(""));
            out.push((k, s["code"].as_str().unwrap_or("?").to_string(), m, p, ing.map(|x| x.to_string())));
        }
    }
}

/// every status of a `ValidationResults` JSON object
fn flatten_results(vr: &Value, keep_ing: bool) -> Vec<St> {
    let mut out = vec![];
    flatten_codes(&vr["activeManifest"], None, &mut out);
    for d in vr["ingredientDeltas"].as_array().into_iter().flatten() {
        flatten_codes(&d["validationDeltas"], if keep_ing { d["ingredientAssertionURI"].as_str() } else { None }, &mut out);
    }
    out
}

fn fmt_statuses(v: &[St]) -> String {
    if v.is_empty() {
        "-".into()
    } else {
        v.iter().map(|(k, c, m, p, u)| format!("{k}|{c}|{m}|{p}|{}", u.as_deref().unwrap_or("-"))).collect::<Vec<_>>().join(";")
    }
}

/// error class of `Builder::sign` as the model names it
fn sign_class(e: &str) -> &'static str {
    if e.contains("must both be present or absent") {
        "err bothOrNeither"
    } else if e.contains("ingredient label malformed") {
        "err malformed"
    } else if e.contains("ingredient missing provenace claim") {
        "err missingProv"
    } else if e.contains("ingredient version too new") {
        "err tooNew"
    } else if e.contains("VersionCompatibility") {
        "err versionCompat"
    } else {
        "err other"
    }
}

/// error class of a read as `update_validation_status` distinguishes them
fn err_class(e: &str) -> &'static str {
    let head = e.split('(').next().unwrap_or("");
    match head {
        "JumbfNotFound" => "JumbfNotFound",
        "ProvenanceMissing" => "ProvenanceMissing",
        "UnsupportedType" => "UnsupportedType",
        "RemoteManifestUrl" => "RemoteManifestUrl",
        "RemoteManifestFetch" => "RemoteManifestFetch",
        "OperationCancelled" => "OperationCancelled",
        "BadParam" if e.contains("unrecognized file type") => "UnrecognizedFileType",
        _ => "other",
    }
}

/// The stand-alone read of an ingredient asset: the Reader's result (the property's reference) and
/// the outcome class as the ingredient path sees it — the load goes through the handler registered
/// for the *declared* format (a Reader sniffs the format from the bytes, `add_stream_internal` does
/// not), an embedded store is then validated as the Reader does.
fn standalone(a: &Asset) -> (&'static str, Result<(String, Value, Reader), String>) {
    let alone = read(&a.format, &a.data, &settings_for(a.st));
    let load = c2pa::verif_hooks::c07::read_cai(&a.format, &mut Cursor::new(a.data.clone()));
    let class = match (&load, &alone) {
        // nothing embedded: the Reader's answer (JumbfNotFound, or the remote-manifest classes)
        (Ok(b), Ok(_)) if b.is_empty() => "ok",
        (Ok(b), Err(e)) if b.is_empty() => err_class(e),
        (Err(e), Ok(_)) if format!("{e:?}") == "JumbfNotFound" => "ok",
        (Err(e), Err(r)) if format!("{e:?}") == "JumbfNotFound" => err_class(r),
        (Err(e), _) => err_class(&format!("{e:?}")),
        (Ok(_), Ok(_)) => "ok",
        (Ok(_), Err(e)) => err_class(e),
    };
    (class, alone)
}

/// claim versions of the manifests of a report, active manifest last
fn versions_of(rep: &Value) -> Vec<u64> {
    let active = rep.get("active_manifest").and_then(|x| x.as_str()).unwrap_or("");
    let mut labels: Vec<&String> = rep["manifests"].as_object().map(|m| m.keys().filter(|k| k.as_str() != active).collect()).unwrap_or_default();
    labels.sort();
    let mut v: Vec<u64> = labels.iter().map(|l| rep["manifests"][l.as_str()]["claim_version"].as_u64().unwrap_or(2)).collect();
    if !active.is_empty() && rep["manifests"].get(active).is_some() {
        v.push(rep["manifests"][active]["claim_version"].as_u64().unwrap_or(2));
    }
    v
}

fn fmt_versions(v: &[u64]) -> String {
    if v.is_empty() {
        "-".into()
    } else {
        v.iter().map(|x| x.to_string()).collect::<Vec<_>>().join(",")
    }
}

/// byte span of the C2PA region(s) in a signed asset
fn manifest_span(fmt: &str, data: &[u8]) -> (usize, usize) {
    match c2pa::verif_hooks::c07::object_locations(fmt, &mut Cursor::new(data.to_vec())) {
        Ok(l) => {
            let cai: Vec<&(usize, usize, u8)> = l.iter().filter(|x| x.2 == 0).collect();
            let lo = cai.iter().map(|x| x.0).min().unwrap_or(0);
            let hi = cai.iter().map(|x| x.0 + x.1).max().unwrap_or(0);
            (lo, hi)
        }
        Err(_) => (0, 0),
    }
}

fn strip_time(v: &Value) -> Value {
    let mut v = v.clone();
    if let Some(o) = v.as_object_mut() {
        o.remove("validationTime");
    }
    v
}

fn codes(list: &Value) -> Vec<String> {
    let mut v: Vec<String> = list.as_array().map(|a| a.iter().map(|s| format!("{}@{}", s["code"].as_str().unwrap_or("?"), s["url"].as_str().unwrap_or("-"))).collect()).unwrap_or_default();
    v.sort();
    v
}

fn bare_codes(list: Option<&Value>) -> Vec<String> {
    let mut c: Vec<String> = list.and_then(|x| x.as_array()).map(|a| a.iter().map(|s| s["code"].as_str().unwrap_or("?").to_string()).collect()).unwrap_or_default();
    c.sort();
    c
}

fn recorded_anything(ing: &Value) -> bool {
    ing.get("active_manifest").is_some() || ing.get("validation_results").is_some() || ing.get("validation_status").is_some() || ing.get("manifest_data").is_some()
}

/// The oracle for one ingredient of a parent report (claim version `v`) against the stand-alone read.
fn check_ingredient(run: &mut Run, idx: usize, key: &str, ing: &Value, parent: &Value, alone: &Result<(String, Value, Reader), String>, kind: &str, v: u8) -> bool {
    let mut ok = true;
    match alone {
        Err(e) => {
            // no manifest (or unreadable): nothing may be recorded
            if kind == "unsigned" {
                if recorded_anything(ing) {
                    ok = false;
                    run.fail(idx, "unsigned-ingredient-has-manifest-or-failure", format!("{key}: stand-alone read gives {e}; ingredient records {}", &ing.to_string()[..ing.to_string().len().min(300)]));
                }
            } else if e.contains("JumbfNotFound") {
                if ing.get("active_manifest").is_some() || ing.get("validation_results").is_some() {
                    ok = false;
                    run.fail(idx, "unsigned-ingredient-has-manifest-or-failure", format!("{key}: stand-alone read finds no manifest; ingredient records one"));
                }
            } else if v == 2 && ing.get("validation_results").is_none() && ing.get("validation_status").is_none() {
                ok = false;
                run.fail(idx, "unreadable-ingredient-recorded-clean", format!("{key}: stand-alone read fails with {e} but the ingredient records no failure"));
            }
        }
        Ok((state, rep, _)) => {
            let act = rep.get("active_manifest").and_then(|x| x.as_str()).unwrap_or("");
            if ing.get("active_manifest").and_then(|x| x.as_str()) != Some(act) {
                ok = false;
                run.fail(idx, "ingredient-active-manifest-differs", format!("{key}: stand-alone {act}, ingredient {:?}", ing.get("active_manifest")));
            }
            // every manifest of the ingredient's store is in the parent's store, unchanged
            for (label, m) in rep["manifests"].as_object().into_iter().flatten() {
                match parent["manifests"].get(label) {
                    None => {
                        ok = false;
                        run.fail(idx, "ingredient-manifest-missing", format!("{key}: manifest {label} of the ingredient's store is not in the parent's store (has {:?})", parent["manifests"].as_object().map(|o| o.keys().cloned().collect::<Vec<_>>())));
                    }
                    Some(pm) => {
                        if canon_json(pm) != canon_json(m) {
                            ok = false;
                            run.fail(idx, "ingredient-manifest-changed", format!("{key}: manifest {label} differs between the stand-alone read and the parent's store"));
                        }
                    }
                }
            }
            if v == 2 {
                // validation results copied from the stand-alone read
                let want = strip_time(&rep["validation_results"]);
                let got = ing.get("validation_results").map(strip_time).unwrap_or(Value::Null);
                if canon_json(&want) != canon_json(&got) {
                    ok = false;
                    let (a, b) = (codes(&want["activeManifest"]["failure"]), codes(&got["activeManifest"]["failure"]));
                    run.fail(idx, "ingredient-validation-results-differ", format!("{key}: stand-alone state {state}; failures stand-alone {a:?} ingredient {b:?}; (full results differ)"));
                }
                // (a v3 ingredient assertion carries validationResults only; compare the legacy list
                // when the ingredient has one)
                let want_status = codes(rep.get("validation_status").unwrap_or(&Value::Null));
                let got_status = codes(ing.get("validation_status").unwrap_or(&Value::Null));
                if ing.get("validation_status").is_some() && want_status != got_status {
                    ok = false;
                    run.fail(idx, "ingredient-validation-status-differs", format!("{key}: stand-alone {want_status:?} ingredient {got_status:?}"));
                }
                if state == "Invalid" {
                    let f = got["activeManifest"]["failure"].as_array().map(|a| a.len()).unwrap_or(0)
                        + got["ingredientDeltas"].as_array().map(|a| a.iter().map(|d| d["validationDeltas"]["failure"].as_array().map(|x| x.len()).unwrap_or(0)).sum::<usize>()).unwrap_or(0);
                    if f == 0 {
                        ok = false;
                        run.fail(idx, "tampered-ingredient-reported-clean", format!("{key}: stand-alone read is Invalid, the ingredient shows no failure"));
                    }
                }
            } else {
                // version 1 claim: the v2 ingredient assertion carries the failure list
                let (want_codes, got_codes) = (bare_codes(rep.get("validation_status")), bare_codes(ing.get("validation_status")));
                if want_codes != got_codes {
                    ok = false;
                    run.fail(idx, "ingredient-validation-status-differs", format!("{key}: (claim version 1) stand-alone {want_codes:?} ingredient {got_codes:?}"));
                }
            }
            // the parent's own read must not report a failure delta about an ingredient manifest:
            // what re-validation finds is already in the ingredient assertion
            let parent_active = parent.get("active_manifest").and_then(|x| x.as_str()).unwrap_or("");
            for d in parent["validation_results"]["ingredientDeltas"].as_array().into_iter().flatten() {
                for f in d["validationDeltas"]["failure"].as_array().into_iter().flatten() {
                    let url = f["url"].as_str().unwrap_or("");
                    if parent_active.is_empty() || !url.contains(parent_active) {
                        ok = false;
                        run.fail(idx, "parent-read-shows-ingredient-delta-failure", format!("{key}: the parent's read reports {}@{url} as a delta for {}", f["code"].as_str().unwrap_or("?"), d["ingredientAssertionURI"].as_str().unwrap_or("?")));
                    }
                }
            }
        }
    }
    ok
}

fn ingredients_of(report: &Value) -> Vec<Value> {
    let active = report.get("active_manifest").and_then(|x| x.as_str()).unwrap_or("");
    report["manifests"][active]["ingredients"].as_array().cloned().unwrap_or_default()
}

/// One builder mixing ingredient sources. `items[k] = (asset, source)`, source 'S' = stream, 'D' =
/// ingredient JSON (taken from a scratch builder) + its resources added with `Builder::add_resource`
/// (default identifiers; renamed only when the Builder's store already holds the identifier), 'A' =
/// ingredient archive. Leading 'D' items go into the definition JSON (the classic "Builder model"),
/// later ones through `Builder::add_ingredient`. Returns the model request fields
/// (`ings=`, `builder=`) and the signed parent.
fn build_mixed(fmt: &str, src: &[u8], items: &[(Asset, char)]) -> Result<(String, String, Parent), String> {
    let st = json!({"verify": {"verify_trust": true, "remote_manifest_fetch": false, "ocsp_fetch": false}, "builder": {"generate_c2pa_archive": true}}).to_string();
    let e = |x: c2pa::Error| format!("{x:?}");
    let title = |k: usize| format!("mix{k}");
    // prepared per item: ingredient JSON text + resources (D), archive bytes (A)
    let mut djson: Vec<Option<(String, Vec<(String, Vec<u8>)>)>> = vec![];
    let mut archives: Vec<Option<Vec<u8>>> = vec![];
    for (k, (a, s)) in items.iter().enumerate() {
        let mut d = None;
        let mut ar = None;
        if *s == 'D' || *s == 'A' {
            let ctx = Context::new().with_settings(st.as_str()).map_err(e)?;
            let mut scratch = Builder::from_context(ctx);
            let lab = format!("ing{k}");
            let ing = scratch.add_ingredient_from_stream(json!({"title": title(k), "relationship": "componentOf", "label": lab}).to_string(), &a.format, &mut Cursor::new(a.data.clone())).map_err(e)?;
            if *s == 'D' {
                let js = serde_json::to_string(&*ing).map_err(|x| x.to_string())?;
                let res: Vec<(String, Vec<u8>)> = ing.resources().resources().iter().map(|(k, v)| (k.clone(), v.clone())).collect();
                d = Some((js, res));
            } else {
                let mut out = Cursor::new(Vec::new());
                scratch.write_ingredient_archive(&lab, &mut out).map_err(|x| format!("write_ingredient_archive: {x:?}"))?;
                ar = Some(out.into_inner());
            }
        }
        djson.push(d);
        archives.push(ar);
    }
    // identifiers in the Builder's store (harness bookkeeping for the model request)
    let mut builder_ids: Vec<(String, usize)> = vec![];
    let mut specs: Vec<String> = vec![String::new(); items.len()];
    let uniq = |k: usize, js: &mut String, res: &mut Vec<(String, Vec<u8>)>, builder_ids: &mut Vec<(String, usize)>| -> String {
        let mut data_id = String::new();
        for (id, _) in res.iter_mut() {
            let is_data = js.contains(&format!("\"manifest_data\":{{\"format\":\"application/c2pa\",\"identifier\":\"{id}\"")) || id.starts_with("manifest_data");
            if builder_ids.iter().any(|(b, _)| b == id) {
                let new = format!("d{k}-{id}");
                *js = js.replace(&format!("\"identifier\":\"{id}\""), &format!("\"identifier\":\"{new}\""));
                *id = new;
            }
            builder_ids.push((id.clone(), k));
            if is_data {
                data_id = id.clone();
            }
        }
        data_id
    };
    let lead = items.iter().take_while(|(_, s)| *s == 'D').count();
    let mut def_ings: Vec<Value> = vec![];
    let mut lead_res: Vec<(String, Vec<u8>)> = vec![];
    for k in 0..lead {
        let (mut js, mut res) = djson[k].clone().unwrap();
        let id = uniq(k, &mut js, &mut res, &mut builder_ids);
        specs[k] = format!("{id}/-");
        def_ings.push(serde_json::from_str(&js).map_err(|x| x.to_string())?);
        lead_res.extend(res);
    }
    let def = json!({
        "title": "parent",
        "format": fmt,
        "claim_generator_info": [{"name": "verif-c39", "version": "1"}],
        "assertions": [{"label": "c2pa.actions", "data": {"actions": [{"action": "c2pa.created", "digitalSourceType": "http://cv.iptc.org/newscodes/digitalsourcetype/digitalCapture"}]}}],
        "ingredients": def_ings
    });
    let ctx = Context::new().with_settings(st.as_str()).map_err(e)?;
    let mut b = Builder::from_context(ctx).with_definition(def.to_string().as_str()).map_err(|x| format!("definition: {x:?}"))?;
    for (id, data) in lead_res {
        b.add_resource(&id, Cursor::new(data)).map_err(|x| format!("add_resource {id}: {x:?}"))?;
    }
    for (k, (a, s)) in items.iter().enumerate().skip(lead) {
        match s {
            'S' => {
                let i = b.add_ingredient_from_stream(json!({"title": title(k), "relationship": "componentOf", "label": format!("ing{k}")}).to_string(), &a.format, &mut Cursor::new(a.data.clone())).map_err(|x| format!("add_ingredient_from_stream: {x:?}"))?;
                let id = i.manifest_data_ref().map(|r| r.identifier.clone()).unwrap_or_else(|| "nodata".into());
                specs[k] = format!("{id}/{k}");
            }
            'D' => {
                let (mut js, mut res) = djson[k].clone().unwrap();
                let id = uniq(k, &mut js, &mut res, &mut builder_ids);
                specs[k] = format!("{id}/-");
                let ing = c2pa::Ingredient::from_json(&js).map_err(|x| format!("Ingredient::from_json: {x:?}"))?;
                b.add_ingredient(ing);
                for (rid, data) in res {
                    b.add_resource(&rid, Cursor::new(data)).map_err(|x| format!("add_resource {rid}: {x:?}"))?;
                }
            }
            _ => {
                let mut ar = Cursor::new(archives[k].clone().unwrap());
                let i = b.add_ingredient_from_archive(&mut ar).map_err(|x| format!("add_ingredient_from_archive: {x:?}"))?;
                // (archive ingredients reference their manifest by label / JUMBF URI: unique)
                let _ = i;
                specs[k] = format!("arch{k}/{k}");
            }
        }
    }
    let signer = EphemeralSigner::new("verif-parent.test").map_err(e)?;
    let mut out = Cursor::new(Vec::new());
    b.sign(&signer, fmt, &mut Cursor::new(src.to_vec()), &mut out).map_err(|x| {
        let s = format!("{x:?}");
        format!("sign: {}", &s[..s.len().min(300)])
    })?;
    let (state, report, _) = read(fmt, out.get_ref(), &settings())?;
    let bspec = if builder_ids.is_empty() { "-".to_string() } else { builder_ids.iter().map(|(i, k)| format!("{i}/{k}")).collect::<Vec<_>>().join(",") };
    Ok((specs.join(","), bspec, Parent { state, report }))
}

fn main() {
    let args: Vec<String> = std::env::args().collect();
    if args.len() >= 2 && args[1] == "explore" {
        let src = std::fs::read(fixtures().join("libpng-test.png")).unwrap();
        let l = "urn:c2pa:11111111-2222-4333-8444-555555555555";
        let a = sign_with("image/png", &src, "A", Some(l), None, Some(json!({"who": "A"})), 2).expect("A");
        let b = sign_with("image/png", &src, "B", Some(l), None, Some(json!({"who": "B"})), 2).expect("B");
        let aa = asset("A", "image/png", a, "signed");
        let bb = asset("B", "image/png", b, "signed");
        match build("image/png", &src, &[(aa, "componentOf"), (bb, "componentOf")], 2, 0).outcome {
            Ok(p) => println!("state {}\n{}", p.state, serde_json::to_string_pretty(&p.report).unwrap()),
            Err(e) => println!("error: {e}"),
        }
        return;
    }
    main_with("C39", run);
}

/// a C2PA manifest store without any manifest: jumb { jumd(c2pa) }
fn empty_store() -> Vec<u8> {
    let mut jumd = vec![0x63, 0x32, 0x70, 0x61, 0x00, 0x11, 0x00, 0x10, 0x80, 0x00, 0x00, 0xaa, 0x00, 0x38, 0x9b, 0x71, 0x03];
    jumd.extend_from_slice(b"c2pa\0");
    let mut jb = vec![];
    jb.extend_from_slice(&((8 + jumd.len()) as u32).to_be_bytes());
    jb.extend_from_slice(b"jumd");
    jb.extend_from_slice(&jumd);
    let mut sup = vec![];
    sup.extend_from_slice(&((8 + jb.len()) as u32).to_be_bytes());
    sup.extend_from_slice(b"jumb");
    sup.extend_from_slice(&jb);
    sup
}

fn b01(b: bool) -> &'static str {
    if b {
        "1"
    } else {
        "0"
    }
}

pub fn run(run: &mut Run, rng: &mut Rng) {
    run.rule = "an asset (unsigned with / without asset handler, with an empty store, with a wrong format hint / signed in-process with claim version 1 or 2 / tampered after signing / damaged / signed with an ingredient chain / fixtures with failures / remote manifest not fetched) is added to a new manifest (claim version 2 or 1) as parentOf, componentOf or inputTo ingredient, the parent is signed and read back, and the ingredient entry, the parent's store and the parent's ingredient deltas are compared with a stand-alone read of the ingredient asset; non-trivial = the parent signed and every comparison held, or the refusal is the version gate; distinct by (parent format, claim version, ingredient asset, relationship, scenario)".to_string();
    let thorough = run.thorough();
    let sources: Vec<(&'static str, Vec<u8>)> = unsigned_sources().into_iter().filter_map(|(f, n)| std::fs::read(fixtures().join(n)).ok().filter(|d| d.len() <= if thorough { 1_200_000 } else { 110_000 }).map(|d| (f, d))).collect();
    // ingredient asset pool
    let mut pool: Vec<Asset> = vec![];
    for (f, d) in &sources {
        pool.push(asset(&format!("unsigned-{f}"), f, d.clone(), "unsigned"));
        match sign_with(f, d, &format!("signed {f}"), None, None, None, 2) {
            Ok(s) => {
                let signed = asset(&format!("signed-{f}"), f, s.clone(), "signed");
                // tamper: flip one content byte (not in the manifest, container still parses):
                // hard-binding mismatch
                let (mlo, mhi) = manifest_span(f, &s);
                let mut t = s.clone();
                let mut k = t.len() * 3 / 5;
                if k >= mlo && k < mhi {
                    k = if mhi + 40 < t.len() { mhi + (t.len() - mhi) / 2 } else { mlo / 2 };
                }
                t[k] ^= 0x01;
                pool.push(asset(&format!("tampered-{f}"), f, t, "tampered"));
                // damaged: flip a byte of the container trailer (the asset may no longer parse)
                let mut dmg = s.clone();
                let k = dmg.len() - 5;
                dmg[k] ^= 0x55;
                pool.push(asset(&format!("damaged-{f}"), f, dmg, "damaged"));
                // chain: sign again with the signed asset as ingredient
                if d.len() <= 110_000 {
                    if let Ok(c) = sign_with(f, d, &format!("chain {f}"), None, Some(&signed), None, 2) {
                        pool.push(asset(&format!("chain-{f}"), f, c, "chain"));
                    }
                }
                pool.push(signed);
            }
            Err(e) => run.notes.push(format!("could not sign {f}: {e:?}")),
        }
        // the same source signed with a version 1 claim (+ a version 1 chain)
        if d.len() <= 110_000 {
            match sign_with(f, d, &format!("signed v1 {f}"), None, None, None, 1) {
                Ok(s) => {
                    let s1 = asset(&format!("signed-v1-{f}"), f, s, "signed-v1");
                    if let Ok(c) = sign_with(f, d, &format!("chain v1 {f}"), None, Some(&s1), None, 1) {
                        pool.push(asset(&format!("chain-v1-{f}"), f, c, "signed-v1"));
                    }
                    pool.push(s1);
                }
                Err(e) => run.notes.push(format!("could not sign {f} with a version 1 claim: {e:?}")),
            }
        }
    }
    for (n, kind) in [("CA.jpg", "chain"), ("C.jpg", "signed-v1"), ("XCA.jpg", "fixture-invalid"), ("E-sig-CA.jpg", "fixture-invalid"), ("CACA.jpg", "chain"), ("CACAE-uri-CA.jpg", "fixture-invalid")] {
        if let Ok(d) = std::fs::read(fixtures().join(n)) {
            pool.push(asset(n, "image/jpeg", d, kind));
        }
    }
    if let Ok(d) = std::fs::read(fixtures().join("cloud.jpg")) {
        // (with remote_manifest_fetch on and no network the class is RemoteManifestFetch — same match
        // arm — but every fetch attempt blocks for minutes in this sandbox: not generated)
        pool.push(asset("cloud.jpg(remote manifest, fetch off)", "image/jpeg", d, "remote"));
    }
    // unsigned assets of formats WITHOUT an asset handler ("no manifest": UnsupportedType)
    let mut r0 = rng.fork();
    let blob: Vec<u8> = (0..r0.range(1, 4000)).map(|_| r0.below(256) as u8).collect();
    pool.push(asset("unsigned-text/plain(prompt)", "text/plain", b"a photo of a purple square, studio light".to_vec(), "unsigned"));
    pool.push(asset("unsigned-application/octet-stream", "application/octet-stream", blob.clone(), "unsigned"));
    pool.push(asset("unsigned-application/x-verif-unknown", "application/x-verif-unknown", blob.clone(), "unsigned"));
    pool.push(asset("unsigned-extension-xyz", "xyz", blob.clone(), "unsigned"));
    pool.push(asset("unsigned-application/json", "application/json", br#"{"k": [1, 2, 3]}"#.to_vec(), "unsigned"));
    pool.push(asset("unsigned-empty-text", "text/plain", vec![], "unsigned"));
    if let Ok(d) = std::fs::read(fixtures().join("Purple Square.psd")) {
        pool.push(asset("unsigned-psd", "image/vnd.adobe.photoshop", d.clone(), "unsigned"));
        pool.push(asset("unsigned-psd(by extension)", "psd", d, "unsigned"));
    }
    // an empty asset of a handled format: the handler cannot read it
    pool.push(asset("unsigned-empty-jpeg", "image/jpeg", vec![], "unsigned"));
    // a manifest store without any manifest ("no manifest": ProvenanceMissing); with verification
    // off the same asset yields a store without provenance claim (kind noprov)
    for (f, d) in sources.iter().filter(|(f, _)| *f == "image/png" || *f == "image/jpeg") {
        let mut o = Cursor::new(Vec::new());
        if c2pa::verif_hooks::c07::write_cai(f, &mut Cursor::new(d.clone()), &mut o, &empty_store()).is_ok() {
            pool.push(asset(&format!("empty-store-{f}"), f, o.get_ref().clone(), "unsigned"));
            let mut a = asset(&format!("empty-store-{f}(verify_after_reading off)"), f, o.into_inner(), "noprov");
            a.st = 1;
            pool.push(a);
        }
    }
    // an unsigned asset declared with the wrong format (a Reader sniffs the real one)
    if let Some((_, png)) = sources.iter().find(|(f, _)| *f == "image/png") {
        pool.push(asset("unsigned-png-declared-as-jpeg", "image/jpeg", png.clone(), "mislabelled"));
    }
    if let Some((_, jpg)) = sources.iter().find(|(f, _)| *f == "image/jpeg") {
        pool.push(asset("unsigned-jpeg-declared-as-png", "image/png", jpg.clone(), "mislabelled"));
    }
    let parents: Vec<&(&'static str, Vec<u8>)> = sources.iter().filter(|(_, d)| d.len() <= 110_000).collect();
    let rels = ["parentOf", "componentOf", "inputTo"];
    // A: every pool asset in every relationship, into a version 2 and a version 1 claim
    let mut k = 0usize;
    for a in pool.clone() {
        let (class, alone) = standalone(&a);
        let vers = match &alone {
            Ok((_, rep, _)) => versions_of(rep),
            Err(_) => vec![],
        };
        for rel in rels.iter().copied() {
            for v in [2u8, 1] {
                let (pf, ps) = parents[k % parents.len()];
                k += 1;
                let key = format!("A parent={pf} v={v} ingredient={} kind={} rel={rel}", a.name, a.kind);
                run.count(&format!("kind:{}", a.kind));
                run.count(&format!("relationship:{rel}"));
                run.count(&format!("ingredient-format:{}", a.format));
                run.count(&format!("claim-version:{v}"));
                run.count(&format!("read-class:{class}"));
                let req = format!("C39 add v={v} read={class} vers={} rel={rel}", fmt_versions(&vers));
                let (pf2, ps2, a3) = (pf.to_string(), ps.clone(), a.clone());
                let built = match guarded(move || build(&pf2, &ps2, &[(a3.clone(), rel)], v, a3.st)) {
                    Err(p) => {
                        let idx = run.case(req, "panic".into());
                        run.fail(idx, "panic", format!("{key}: {p}"));
                        continue;
                    }
                    Ok(b) => b,
                };
                if let Some(e) = &built.add_err {
                    let idx = run.case(req, if e.contains("OperationCancelled") { "cancelled".into() } else { "add-error".into() });
                    run.fail(idx, "add-ingredient-failed", format!("{key}: {e}"));
                    continue;
                }
                let t = built.triples.first().copied().unwrap_or((false, false, false));
                let sign = match &built.outcome {
                    Ok(_) => "ok",
                    Err(e) => sign_class(e),
                };
                let imp = format!("rec active={} data={} results={} sign={sign}", b01(t.0), b01(t.1), b01(t.2));
                let idx = run.case(req, imp);
                // property, on the recorded ingredient itself: an unsigned asset records nothing
                if a.kind == "unsigned" && (t.0 || t.1 || t.2) {
                    run.fail(idx, "unsigned-ingredient-has-manifest-or-failure", format!("{key}: stand-alone read class {class}; the ingredient records active_manifest={} manifest_data={} validation_results={}", t.0, t.1, t.2));
                }
                match &built.outcome {
                    Err(e) => {
                        let al = match &alone {
                            Ok((st, rep, _)) => format!("stand-alone read: {st}, failures {:?}", codes(&rep["validation_results"]["activeManifest"]["failure"])),
                            Err(e) => format!("stand-alone read fails: {e}"),
                        };
                        let newer = vers.iter().any(|x| *x > v as u64);
                        if sign == "err tooNew" && newer {
                            // the version gate: by design, not a failure
                            run.count("refused:ingredient-claim-version-newer");
                            run.nontrivial(key);
                            continue;
                        }
                        if a.kind == "noprov" && sign == "err missingProv" {
                            // a store without manifests read with verification off: outside the
                            // property's quantifier (neither signed nor unsigned)
                            run.count("refused:store-without-provenance-claim");
                            continue;
                        }
                        let class = if a.kind == "unsigned" {
                            "unsigned-ingredient-blocks-signing"
                        } else if a.kind == "remote" {
                            "inaccessible-remote-ingredient-blocks-signing"
                        } else if a.kind == "mislabelled" {
                            "mislabelled-unsigned-ingredient-blocks-signing"
                        } else if alone.is_err() {
                            "damaged-ingredient-blocks-signing"
                        } else {
                            "parent-sign-failed"
                        };
                        run.fail(idx, class, format!("{key}: {e}; {al}"));
                    }
                    Ok(p) => {
                        let ings = ingredients_of(&p.report);
                        if ings.len() != 1 {
                            run.fail(idx, "ingredient-count-differs", format!("{key}: {} ingredients reported", ings.len()));
                            continue;
                        }
                        if ings[0].get("relationship").and_then(|x| x.as_str()) != Some(rel) {
                            run.fail(idx, "ingredient-relationship-differs", format!("{key}: reported {:?}", ings[0].get("relationship")));
                        }
                        // (the reference for a wrongly declared format is what a Reader finds)
                        if check_ingredient(run, idx, &key, &ings[0], &p.report, &alone, a.kind, v) {
                            run.nontrivial(key);
                        }
                    }
                }
            }
        }
    }
    // B: two ingredients
    let signed: Vec<Asset> = pool.iter().filter(|a| a.kind == "signed" || a.kind == "chain" || a.kind == "signed-v1").cloned().collect();
    let signed_v1: Vec<Asset> = signed.iter().filter(|a| a.kind == "signed-v1").cloned().collect();
    let n_pairs = if thorough { 1000 } else { 80 };
    for i in 0..n_pairs {
        let mut r = rng.fork();
        // claim version 1 parents in a quarter of the pairs, mostly with version 1 ingredients
        let v: u8 = if i % 4 == 3 { 1 } else { 2 };
        let from: &Vec<Asset> = if v == 1 && i % 8 != 7 && !signed_v1.is_empty() { &signed_v1 } else { &signed };
        let a = r.pick(from).clone();
        let same = i % 2 == 0;
        let b = if same { a.clone() } else { r.pick(from).clone() };
        let (pf, ps) = *r.pick(&parents);
        let key = format!("B parent={pf} v={v} ingredients={}+{} same={same}", a.name, b.name);
        run.count(if same { "pair:same-store-twice" } else { "pair:two-stores" });
        run.count(&format!("pair-claim-version:{v}"));
        let (pf2, ps2, a2, b2) = (pf.to_string(), ps.clone(), a.clone(), b.clone());
        // abstract the two stores: labels L0,L1,… and contents c0,c1,… by first appearance
        let ra = read(&a.format, &a.data, &settings());
        let rb = read(&b.format, &b.data, &settings());
        let mut lab: Vec<String> = vec![];
        let mut con: Vec<String> = vec![];
        let mut abs_store = |rep: &Value| -> Vec<(String, String, u64)> {
            let mut out = vec![];
            let active = rep.get("active_manifest").and_then(|x| x.as_str()).unwrap_or("").to_string();
            let mut keys: Vec<String> = rep["manifests"].as_object().map(|m| m.keys().filter(|k| **k != active).cloned().collect()).unwrap_or_default();
            keys.sort();
            // the active manifest is the provenance claim: last
            if rep["manifests"].get(&active).is_some() {
                keys.push(active.clone());
            }
            for k in keys {
                let c = canon_json(&rep["manifests"][&k]);
                let li = lab.iter().position(|x| *x == k).unwrap_or_else(|| {
                    lab.push(k.clone());
                    lab.len() - 1
                });
                let ci = con.iter().position(|x| *x == c).unwrap_or_else(|| {
                    con.push(c.clone());
                    con.len() - 1
                });
                out.push((format!("L{li}"), format!("c{ci}"), rep["manifests"][&k]["claim_version"].as_u64().unwrap_or(2)));
            }
            out
        };
        let (sa, sb) = match (&ra, &rb) {
            (Ok((_, x, _)), Ok((_, y, _))) => (abs_store(x), abs_store(y)),
            _ => (vec![], vec![]),
        };
        let fmt_store = |s: &Vec<(String, String, u64)>| if s.is_empty() { "-".to_string() } else { s.iter().map(|(l, c, cv)| format!("{l}:{c}:{cv}")).collect::<Vec<_>>().join(",") };
        let req = format!("C39 mergeall v={v} skip=0 sorted=1 stores={}|{}", fmt_store(&sa), fmt_store(&sb));
        let newer = sa.iter().chain(sb.iter()).any(|x| x.2 > v as u64);
        let (lab2, con2) = (lab.clone(), con.clone());
        let built = match guarded(move || build(&pf2, &ps2, &[(a2, "componentOf"), (b2, "inputTo")], v, 0)) {
            Err(p) => {
                let idx = run.case(req, "panic".into());
                run.fail(idx, "panic", format!("{key}: {p}"));
                continue;
            }
            Ok(b) => b,
        };
        match built.outcome {
            Err(e) => {
                let cls = sign_class(&e);
                let idx = run.case(req, cls.into());
                if cls == "err tooNew" && newer {
                    run.count("refused:ingredient-claim-version-newer");
                    run.nontrivial(key);
                } else {
                    run.fail(idx, "parent-sign-failed", format!("{key}: {e}"));
                }
            }
            Ok(p) => {
                let ings = ingredients_of(&p.report);
                // the parent's ingredient store in the same abstraction (unknown labels/contents: X)
                let active = p.report.get("active_manifest").and_then(|x| x.as_str()).unwrap_or("").to_string();
                let mut got: Vec<String> = p.report["manifests"].as_object().map(|m| {
                    m.iter().filter(|(k, _)| **k != active).map(|(k, v)| {
                        let l = lab2.iter().position(|x| x == k).map(|i| format!("L{i}")).unwrap_or("X".into());
                        let c = canon_json(v);
                        let ci = con2.iter().position(|x| *x == c).map(|i| format!("c{i}")).unwrap_or("X".into());
                        format!("{l}:{ci}")
                    }).collect()
                }).unwrap_or_default();
                got.sort();
                let idx = run.case(req, format!("ok {}", got.join(",")));
                if ings.len() != 2 {
                    run.fail(idx, "ingredient-count-differs", format!("{key}: {} ingredients reported", ings.len()));
                    continue;
                }
                let mut ok = true;
                for (ing, asset) in ings.iter().zip([&a, &b]) {
                    let alone = read(&asset.format, &asset.data, &settings());
                    ok &= check_ingredient(run, idx, &key, ing, &p.report, &alone, asset.kind, v);
                }
                if ok {
                    run.nontrivial(key);
                }
            }
        }
    }
    // C: two stores holding different manifests under the same label (conflict relabelling)
    if let Some((pf, ps)) = parents.first().map(|x| (x.0, &x.1)) {
        let l = "urn:c2pa:11111111-2222-4333-8444-555555555555";
        let a = sign_with(pf, ps, "A", Some(l), None, Some(json!({"who": "A"})), 2);
        let b = sign_with(pf, ps, "B", Some(l), None, Some(json!({"who": "B"})), 2);
        if let (Ok(a), Ok(b)) = (a, b) {
            let aa = asset("A(label L)", pf, a, "signed");
            let bb = asset("B(label L)", pf, b, "signed");
            let key = format!("C parent={pf} two ingredients with different manifests under one label");
            run.count("pair:label-conflict");
            let (pf2, ps2, a2, b2) = (pf.to_string(), ps.clone(), aa.clone(), bb.clone());
            let req = "C39 mergeall v=2 skip=0 stores=L:a:2|L:b:2".to_string();
            match guarded(move || build(&pf2, &ps2, &[(a2, "componentOf"), (b2, "componentOf")], 2, 0)).map(|b| b.outcome) {
                Err(p) => {
                    let idx = run.case(req, "panic".into());
                    run.fail(idx, "panic", format!("{key}: {p}"));
                }
                Ok(Err(e)) => {
                    let idx = run.case(req, sign_class(&e).into());
                    run.fail(idx, "conflicting-label-ingredients-sign-fails", format!("{key}: {e}"));
                }
                Ok(Ok(p)) => {
                    let labels: Vec<String> = p.report["manifests"].as_object().map(|m| m.keys().cloned().collect()).unwrap_or_default();
                    let idx = run.case(req, format!("ok manifests={}", labels.len()));
                    let ings = ingredients_of(&p.report);
                    let mut ok = ings.len() == 2;
                    for (ing, asset) in ings.iter().zip([&aa, &bb]) {
                        // modulo relabelling: compare the manifest the ingredient points at with the stand-alone one
                        let alone = read(&asset.format, &asset.data, &settings());
                        if let Ok((_, rep, _)) = &alone {
                            let act = rep["active_manifest"].as_str().unwrap_or("");
                            let want = &rep["manifests"][act];
                            let got_label = ing["active_manifest"].as_str().unwrap_or("");
                            let got = &p.report["manifests"][got_label];
                            let mut w = want.clone();
                            let mut g = got.clone();
                            for x in [&mut w, &mut g] {
                                if let Some(o) = x.as_object_mut() {
                                    o.remove("label");
                                }
                            }
                            if canon_json(&w) != canon_json(&g) {
                                ok = false;
                                run.fail(idx, "conflicting-label-ingredient-manifest-changed", format!("{key}: ingredient {} points at manifest {got_label} whose content is not the source's", asset.name));
                            }
                        }
                    }
                    if ok {
                        run.nontrivial(key);
                    }
                }
            }
        }
    }
    // D: ingredient through a C2PA ingredient archive (write_ingredient_archive → add_ingredient_from_archive)
    let signed2: Vec<Asset> = signed.iter().filter(|a| a.kind != "signed-v1").cloned().collect();
    let n_arch = if thorough { 40 } else { 6 };
    for i in 0..n_arch {
        let mut r = rng.fork();
        let a = r.pick(&signed2).clone();
        let (pf, ps) = *r.pick(&parents);
        let key = format!("D{i} parent={pf} archived ingredient={}", a.name);
        run.count("via:ingredient-archive");
        let (pf2, ps2, a2) = (pf.to_string(), ps.clone(), a.clone());
        let alone = read(&a.format, &a.data, &settings());
        let vers = match &alone {
            Ok((_, rep, _)) => versions_of(rep),
            Err(_) => vec![],
        };
        let req = format!("C39 add v=2 read=ok vers={} rel=archive", fmt_versions(&vers));
        let res = guarded(move || -> Result<((bool, bool, bool), Result<Parent, String>), String> {
            let st = json!({"verify": {"verify_trust": true, "remote_manifest_fetch": false, "ocsp_fetch": false}, "builder": {"generate_c2pa_archive": true}}).to_string();
            let ctx = Context::new().with_settings(st.as_str()).map_err(|e| format!("{e:?}"))?;
            let mut b1 = Builder::from_context(ctx);
            b1.add_ingredient_from_stream(json!({"title": a2.name, "relationship": "componentOf", "label": "ingX"}).to_string(), &a2.format, &mut Cursor::new(a2.data.clone())).map_err(|e| format!("add: {e:?}"))?;
            let mut ar = Cursor::new(Vec::new());
            b1.write_ingredient_archive("ingX", &mut ar).map_err(|e| format!("write_ingredient_archive: {e:?}"))?;
            ar.set_position(0);
            let ctx2 = Context::new().with_settings(st.as_str()).map_err(|e| format!("{e:?}"))?;
            let def = json!({"title": "parent", "format": pf2, "claim_generator_info": [{"name": "verif-c39", "version": "1"}],
                "assertions": [{"label": "c2pa.actions", "data": {"actions": [{"action": "c2pa.created", "digitalSourceType": "http://cv.iptc.org/newscodes/digitalsourcetype/digitalCapture"}]}}]});
            let mut b2 = Builder::from_context(ctx2).with_definition(def.to_string().as_str()).map_err(|e| format!("{e:?}"))?;
            // the ingredient as it comes back out of the archive
            let t = {
                let i = b2.add_ingredient_from_archive(&mut ar).map_err(|e| format!("add_ingredient_from_archive: {e:?}"))?;
                (i.active_manifest().is_some(), i.manifest_data_ref().is_some(), i.validation_results().is_some())
            };
            let signer = EphemeralSigner::new("verif-parent.test").map_err(|e| format!("{e:?}"))?;
            let mut out = Cursor::new(Vec::new());
            let outcome = match b2.sign(&signer, &pf2, &mut Cursor::new(ps2.clone()), &mut out) {
                Err(e) => Err(format!("sign: {e:?}")),
                Ok(_) => read(&pf2, out.get_ref(), &settings()).map(|(state, report, _)| Parent { state, report }),
            };
            Ok((t, outcome))
        });
        match res {
            Err(p) => {
                let idx = run.case(req, "panic".into());
                run.fail(idx, "panic", format!("{key}: {p}"));
            }
            Ok(Err(e)) => {
                let idx = run.case(req, "add-error".into());
                run.fail(idx, "archived-ingredient-failed", format!("{key}: {}", &e[..e.len().min(300)]));
            }
            Ok(Ok((t, outcome))) => {
                let sign = match &outcome {
                    Ok(_) => "ok",
                    Err(e) => sign_class(e),
                };
                let idx = run.case(req, format!("rec active={} data={} results={} sign={sign}", b01(t.0), b01(t.1), b01(t.2)));
                match outcome {
                    Err(e) => run.fail(idx, "archived-ingredient-failed", format!("{key}: {}", &e[..e.len().min(300)])),
                    Ok(p) => {
                        let ings = ingredients_of(&p.report);
                        if ings.len() != 1 {
                            run.fail(idx, "ingredient-count-differs", format!("{key}: {} ingredients", ings.len()));
                            continue;
                        }
                        if check_ingredient(run, idx, &key, &ings[0], &p.report, &alone, a.kind, 2) {
                            run.nontrivial(key);
                        }
                        let _ = p.state;
                    }
                }
            }
        }
    }
    // F: builders MIXING ingredient sources (stream / definition JSON + Builder::add_resource under
    // default, colliding identifiers / archive), every source combination of 2 and 3 ingredients in
    // every order; for EVERY ingredient of the output the oracle of A applies (active manifest label,
    // manifest present and unchanged in the output store, results, deltas)
    let mix_pool: Vec<Asset> = ["signed-image/png", "signed-image/jpeg", "C.jpg", "CA.jpg", "chain-image/png", "tampered-image/gif", "signed-v1-image/jpeg", "signed-image/svg+xml", "signed-image/webp", "CACA.jpg"].iter().filter_map(|n| pool.iter().find(|a| a.name == *n).cloned()).collect();
    // keep assets that read on their own and whose active manifests are pairwise different
    let mix_pool: Vec<Asset> = {
        let mut seen: Vec<String> = vec![];
        mix_pool.into_iter().filter(|a| match read(&a.format, &a.data, &settings()) {
            Ok((_, rep, _)) => match rep.get("active_manifest").and_then(|l| l.as_str()) {
                Some(l) if !seen.iter().any(|x| x == l) => {
                    seen.push(l.to_string());
                    true
                }
                _ => false,
            },
            Err(_) => false,
        }).collect()
    };
    let mut combos: Vec<Vec<char>> = vec![];
    for a in ['S', 'D', 'A'] {
        for b in ['S', 'D', 'A'] {
            combos.push(vec![a, b]);
            for c in ['S', 'D', 'A'] {
                combos.push(vec![a, b, c]);
            }
        }
    }
    let rounds = if thorough { 8 } else { 1 };
    for round in 0..rounds {
        for combo in &combos {
            if mix_pool.len() < 3 {
                break;
            }
            let mut r = rng.fork();
            // distinct assets (distinct active manifests)
            let mut idxs: Vec<usize> = (0..mix_pool.len()).collect();
            for i in (1..idxs.len()).rev() {
                idxs.swap(i, r.below(i as u64 + 1) as usize);
            }
            let items: Vec<(Asset, char)> = combo.iter().enumerate().map(|(k, s)| {
                let a = mix_pool[idxs[k]].clone();
                // (version 1 assets are not archived, as in D)
                let s = if *s == 'A' && a.kind == "signed-v1" { 'S' } else { *s };
                (a, s)
            }).collect();
            let srcs: String = items.iter().map(|(_, s)| *s).collect();
            let (pf, ps) = *r.pick(&parents);
            let key = format!("F{round} parent={pf} sources={srcs} ingredients={}", items.iter().map(|(a, _)| a.name.clone()).collect::<Vec<_>>().join("+"));
            run.count(&format!("mixed-sources:{srcs}"));
            let alones: Vec<Result<(String, Value, Reader), String>> = items.iter().map(|(a, _)| read(&a.format, &a.data, &settings())).collect();
            let labels: Vec<String> = alones.iter().map(|x| x.as_ref().ok().and_then(|(_, rep, _)| rep.get("active_manifest").and_then(|l| l.as_str()).map(|l| l.to_string())).unwrap_or_default()).collect();
            let (pf2, ps2, items2) = (pf.to_string(), ps.clone(), items.clone());
            match guarded(move || build_mixed(&pf2, &ps2, &items2)) {
                Err(p) => {
                    let idx = run.case(format!("C39 mix ings=? builder=? {srcs}"), "panic".into());
                    run.fail(idx, "panic", format!("{key}: {p}"));
                }
                Ok(Err(e)) => {
                    let idx = run.case(format!("C39 mix ings=? builder=? {srcs}"), "error".into());
                    run.fail(idx, "mixed-source-builder-failed", format!("{key}: {e}"));
                }
                Ok(Ok((ispec, bspec, p))) => {
                    let ings = ingredients_of(&p.report);
                    // whose manifest does each ingredient (by title) carry?
                    let carried: Vec<String> = (0..items.len()).map(|k| {
                        let t = format!("mix{k}");
                        match ings.iter().find(|i| i.get("title").and_then(|x| x.as_str()) == Some(t.as_str())) {
                            None => "missing".to_string(),
                            Some(i) => match i.get("active_manifest").and_then(|x| x.as_str()) {
                                None => "none".to_string(),
                                Some(l) => labels.iter().position(|x| x == l).map(|j| j.to_string()).unwrap_or("X".into()),
                            },
                        }
                    }).collect();
                    let idx = run.case(format!("C39 mix ings={ispec} builder={bspec} src={srcs}"), format!("carry {}", carried.join(",")));
                    if ings.len() != items.len() {
                        run.fail(idx, "ingredient-count-differs", format!("{key}: {} ingredients reported", ings.len()));
                        continue;
                    }
                    let mut ok = true;
                    for (k, (a, _)) in items.iter().enumerate() {
                        let t = format!("mix{k}");
                        match ings.iter().find(|i| i.get("title").and_then(|x| x.as_str()) == Some(t.as_str())) {
                            None => {
                                ok = false;
                                run.fail(idx, "ingredient-missing", format!("{key}: no ingredient titled {t}"));
                            }
                            Some(i) => ok &= check_ingredient(run, idx, &format!("{key} [{t}={}]", a.name), i, &p.report, &alones[k], a.kind, 2),
                        }
                    }
                    if ok {
                        run.nontrivial(key);
                    }
                    let _ = p.state;
                }
            }
        }
    }
    // E: the parent's read — which logged statuses `ValidationResults::from_store` reports, given the
    // statuses captured in the ingredient assertions of a REAL signed parent (tampered / chained /
    // plain ingredients) and a synthetic validation log built around them
    let by_name = |n: &str| pool.iter().find(|a| a.name == n).cloned();
    let mut groups: Vec<Vec<Asset>> = vec![];
    for names in [vec!["tampered-image/png"], vec!["chain-image/png"], vec!["signed-image/jpeg", "tampered-image/png"], vec!["XCA.jpg"], vec!["unsigned-image/png"]] {
        let g: Vec<Asset> = names.iter().filter_map(|n| by_name(n)).collect();
        if g.len() == names.len() {
            groups.push(g);
        }
    }
    let n_logs = if thorough { 400 } else { 40 };
    for (gi, g) in groups.iter().enumerate() {
        let Some((pf, ps)) = parents.iter().find(|(f, _)| *f == "image/png").map(|x| (x.0, x.1.clone())) else { break };
        let ings: Vec<(Asset, &'static str)> = g.iter().map(|a| (a.clone(), "componentOf")).collect();
        let built = build(pf, &ps, &ings, 2, 0);
        let (Ok(p), Some(bytes)) = (&built.outcome, &built.bytes) else {
            run.notes.push(format!("E{gi}: parent not built"));
            continue;
        };
        let active = p.report.get("active_manifest").and_then(|x| x.as_str()).unwrap_or("").to_string();
        // captured: every status of every ingredient assertion of every manifest of the store
        let mut captured: Vec<St> = vec![];
        for (_, m) in p.report["manifests"].as_object().into_iter().flatten() {
            for i in m["ingredients"].as_array().into_iter().flatten() {
                if let Some(vr) = i.get("validation_results") {
                    captured.extend(flatten_results(vr, false));
                }
            }
        }
        let Ok(jumbf) = c2pa::verif_hooks::c07::read_cai(pf, &mut Cursor::new(bytes.clone())) else { continue };
        let ctx = Context::new().with_settings(settings().as_str()).expect("context");
        let mut rep = c2pa::status_tracker::StatusTracker::default();
        let Ok(store) = c2pa::verif_hooks::c19::store_from_jumbf(&jumbf, &mut rep, &ctx) else {
            run.notes.push(format!("E{gi}: store not parsed"));
            continue;
        };
        let ing_uri = format!("self#jumbf=/c2pa/{active}/c2pa.assertions/c2pa.ingredient.v3");
        let other_label = captured.iter().map(|c| c.2.clone()).find(|m| !m.is_empty() && *m != active).unwrap_or_else(|| "urn:c2pa:00000000-0000-4000-8000-000000000000".to_string());
        for li in 0..n_logs {
            let mut r = rng.fork();
            let only_active = li % 5 == 4;
            let n = r.below(9) as usize;
            let mut logged: Vec<St> = vec![];
            for _ in 0..n {
                let pick = if only_active { 5 + r.below(2) } else { r.below(7) };
                let c = if captured.is_empty() { None } else { Some(r.pick(&captured).clone()) };
                let item: St = match (pick, c) {
                    // a captured status found again while the ingredient is re-validated
                    (0, Some(c)) => (c.0, c.1, c.2, c.3, Some(ing_uri.clone())),
                    // the same status logged outside an ingredient
                    (1, Some(c)) => (c.0, c.1, c.2, c.3, None),
                    // same code and url, other kind
                    (2, Some(c)) => ((c.0 + 1) % 3, c.1, c.2, c.3, Some(ing_uri.clone())),
                    // same code, other url
                    (3, Some(c)) => (c.0, c.1, c.2, format!("{}x", c.3), Some(ing_uri.clone())),
                    // a failure about an ingredient manifest the capture does not hold
                    (4, _) | (0..=3, None) => (2, (*r.pick(&["assertion.dataHash.mismatch", "claimSignature.mismatch", "assertion.hashedURI.mismatch"])).to_string(), other_label.clone(), "c2pa.assertions/c2pa.hash.data".into(), Some(ing_uri.clone())),
                    // statuses about the active manifest itself
                    (5, _) => (r.below(3) as u8, "assertion.hashedURI.match".into(), active.clone(), "c2pa.assertions/c2pa.actions.v2".into(), None),
                    _ => (2, "assertion.action.ingredientMismatch".into(), active.clone(), "c2pa.assertions/c2pa.actions.v2".into(), Some(ing_uri.clone())),
                };
                logged.push(item);
            }
            let mut log = c2pa::status_tracker::StatusTracker::default();
            for (k, code, m, pth, u) in &logged {
                log.add_non_error(c2pa::status_tracker::LogItem {
                    kind: match k {
                        0 => c2pa::status_tracker::LogKind::Success,
                        1 => c2pa::status_tracker::LogKind::Informational,
                        _ => c2pa::status_tracker::LogKind::Failure,
                    },
                    label: std::borrow::Cow::Owned(join_url(m, pth)),
                    description: std::borrow::Cow::Borrowed("verif"),
                    validation_status: Some(std::borrow::Cow::Owned(code.clone())),
                    ingredient_uri: u.clone().map(std::borrow::Cow::Owned),
                    ..Default::default()
                });
            }
            let req = format!("C39 fromstore active={active} captured={} logged={}", fmt_statuses(&captured), fmt_statuses(&logged));
            run.count("fromstore:synthetic-log");
            let res = guarded(std::panic::AssertUnwindSafe(|| c2pa::verif_hooks::c04::results_from_store(&store, &log)));
            match res {
                Err(pn) => {
                    let idx = run.case(req, "panic".into());
                    run.fail(idx, "panic", format!("E{gi}.{li}: {pn}"));
                }
                Ok(vr) => {
                    let v = serde_json::to_value(&vr).unwrap_or(Value::Null);
                    let reported = flatten_results(&v, true);
                    // canonical order: the formatted items, sorted as strings
                    let mut items: Vec<String> = reported.iter().map(|x| fmt_statuses(std::slice::from_ref(x))).collect();
                    items.sort();
                    let idx = run.case(req, format!("rep {}", if items.is_empty() { "-".to_string() } else { items.join(";") }));
                    // oracle (independent of the model): a failure logged for an ingredient manifest is
                    // reported as a delta failure iff no captured status has its code, url and kind
                    let mut ok = true;
                    for s in logged.iter().filter(|s| s.0 == 2 && s.4.is_some() && s.2 != active) {
                        let cap = captured.iter().any(|c| c.0 == s.0 && c.1 == s.1 && c.2 == s.2 && c.3 == s.3);
                        let shown = reported.contains(s);
                        if cap == shown {
                            ok = false;
                            run.fail(idx, if cap { "captured-failure-reported-again-as-delta" } else { "uncaptured-ingredient-failure-not-reported" }, format!("E{gi}.{li}: {}@{} captured={cap} reported={shown}", s.1, join_url(&s.2, &s.3)));
                        }
                    }
                    if ok && !logged.is_empty() {
                        run.nontrivial(format!("E{gi} log={}", fmt_statuses(&logged)));
                    }
                }
            }
        }
    }
}
