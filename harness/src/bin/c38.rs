//! C38 — validation is deterministic and repeatable.
//!
//!   c38 report <format> <file>        -> prints the canonical report of one read (used to get a
//!                                        fresh-process read; no other state in that process)
//!   c38 <tier> <seed> <outdir>        -> the run
//!
//! Model-level requests reuse the C24 state model (`lean/C2paModel/Model/C24.lean`, driver drv_c24
//! is not used here): C38's own line protocol is the *history* form
//!   C38 hist ops=<op,op,…> probe=<op>   ->  <output of probe after the history>|<output of probe alone>
//! answered by the same model (handled in Model/C38.lean, which only wraps Model/C24).
//!
//! Implementation level (oracle): random sequences of sign / read / ingredient import / archive
//! save+restore operations in ONE process with several contexts and legacy thread-local
//! settings writes in between; every produced asset is read (a) right after it was produced,
//! (b) again at the end of the sequence, (c) in a fresh process; the three canonical reports
//! must be identical. Signing the same source at the start and at the end of the sequence must
//! give the same canonical report (instance ids / labels / times abstracted).

#![allow(deprecated)]

use std::{io::Cursor, process::Command};

use c2pa::{Builder, Context, EphemeralSigner, Reader, Settings};
use vh::common::{canon_json, fixtures, guarded, main_with, scratch, Rng, Run};
use vh::sign::{definition, unsigned_sources};

fn settings_json() -> &'static str {
    r#"{"verify":{"remote_manifest_fetch":false,"ocsp_fetch":false}}"#
}

fn report(fmt: &str, data: &[u8]) -> String {
    let ctx = match Context::new().with_settings(settings_json()) {
        Ok(c) => c,
        Err(e) => return format!("ctx-error:{e:?}"),
    };
    match Reader::from_context(ctx).with_stream(fmt, Cursor::new(data.to_vec())) {
        Ok(r) => {
            let mut v: serde_json::Value = serde_json::from_str(&r.json()).unwrap_or_default();
            if let Some(vr) = v.get_mut("validation_results").and_then(|x| x.as_object_mut()) {
                vr.remove("validationTime");
            }
            format!("{:?}:{}", r.validation_state(), canon_json(&v))
        }
        Err(e) => format!("err:{}", format!("{e:?}").chars().take_while(|c| c.is_ascii_alphanumeric()).collect::<String>()),
    }
}

/// Report with everything that legitimately differs between two signings abstracted away.
fn abstract_report(rep: &str) -> String {
    // replace urn:c2pa:<uuid>, xmp:iid:<uuid>, RFC3339 times, base64 hashes/signature-dependent values
    let mut out = String::with_capacity(rep.len());
    let b = rep.as_bytes();
    let mut i = 0;
    let is_hex = |c: u8| c.is_ascii_hexdigit() || c == b'-';
    while i < b.len() {
        if rep[i..].starts_with("urn:c2pa:") || rep[i..].starts_with("xmp:iid:") || rep[i..].starts_with("urn:uuid:") {
            let pre = if rep[i..].starts_with("xmp:iid:") { 8 } else { 9 };
            out.push_str(&rep[i..i + pre]);
            i += pre;
            while i < b.len() && is_hex(b[i]) {
                i += 1;
            }
            out.push_str("<id>");
        } else {
            out.push(b[i] as char);
            i += 1;
        }
    }
    // drop volatile members by key
    let mut v: serde_json::Value = match out.find(':').and_then(|k| serde_json::from_str(&out[k + 1..]).ok()) {
        Some(v) => v,
        None => return out,
    };
    fn scrub(v: &mut serde_json::Value) {
        match v {
            serde_json::Value::Object(m) => {
                for k in ["time", "hash", "cert_serial_number", "instance_id", "instanceID", "pad", "pad2", "signature", "when"] {
                    if m.contains_key(k) {
                        m.insert(k.to_string(), serde_json::Value::String("<volatile>".into()));
                    }
                }
                for (_, x) in m.iter_mut() {
                    scrub(x);
                }
            }
            serde_json::Value::Array(a) => a.iter_mut().for_each(scrub),
            _ => {}
        }
    }
    scrub(&mut v);
    let state = out.split(':').next().unwrap_or("").to_string();
    format!("{state}:{}", canon_json(&v))
}

fn sign(ctx_settings: &str, fmt: &str, src: &[u8], ingredient: Option<(&str, &[u8])>, via_archive: bool) -> c2pa::Result<Vec<u8>> {
    let ctx = Context::new().with_settings(ctx_settings)?.with_signer(EphemeralSigner::new("verif.test")?);
    let mut b = Builder::from_context(ctx).with_definition(definition("c38", fmt).as_str())?;
    if let Some((ifmt, idata)) = ingredient {
        b.add_ingredient_from_stream(
            serde_json::json!({"title": "ing", "relationship": "componentOf"}).to_string(),
            ifmt,
            &mut Cursor::new(idata.to_vec()),
        )?;
    }
    if via_archive {
        let mut ar = Cursor::new(Vec::new());
        b.to_archive(&mut ar)?;
        ar.set_position(0);
        let ctx2 = Context::new().with_settings(ctx_settings)?.with_signer(EphemeralSigner::new("verif.test")?);
        b = Builder::from_context(ctx2).with_archive(ar)?;
    }
    let mut out = Cursor::new(Vec::new());
    b.save_to_stream(fmt, &mut Cursor::new(src.to_vec()), &mut out)?;
    Ok(out.into_inner())
}

fn fresh_process_report(fmt: &str, path: &std::path::Path) -> String {
    let exe = std::env::current_exe().expect("exe");
    match Command::new(exe).arg("report").arg(fmt).arg(path).output() {
        Ok(o) if o.status.success() => String::from_utf8_lossy(&o.stdout).trim_end().to_string(),
        Ok(o) => format!("child-failed:{}", o.status),
        Err(e) => format!("child-error:{e}"),
    }
}

fn main() {
    let args: Vec<String> = std::env::args().collect();
    if args.len() >= 4 && args[1] == "report" {
        let data = std::fs::read(&args[3]).expect("read asset");
        println!("{}", report(&args[2], &data));
        return;
    }
    main_with("C38", run);
}

pub fn run(run: &mut Run, rng: &mut Rng) {
    run.rule = "one process executes a random sequence (quick 14, thorough 60 steps) of sign (plain / with ingredient / through archive save+restore), read of fixtures with failures, legacy thread-local settings writes and context settings variations; every produced asset is read right after creation, again at the end, and in a fresh process (child `report`), and the canonical reports compared; the same source is signed at the start and at the end and the abstracted reports compared. non-trivial = a produced asset whose three reads were compared; distinct by step".to_string();
    let dir = scratch("c38");
    let sources: Vec<(String, Vec<u8>)> = unsigned_sources()
        .into_iter()
        .filter_map(|(f, n)| std::fs::read(fixtures().join(n)).ok().filter(|d| d.len() <= 450_000).map(|d| (f.to_string(), d)))
        .collect();
    let fixtures_with_manifests: Vec<(String, Vec<u8>)> = ["CA.jpg", "C.jpg", "XCA.jpg", "E-sig-CA.jpg", "CACA.jpg"]
        .iter()
        .filter_map(|n| std::fs::read(fixtures().join(n)).ok().map(|d| ("image/jpeg".to_string(), d)))
        .collect();
    if sources.is_empty() {
        run.notes.push("no sources".into());
        return;
    }
    let tls_before = c2pa::verif_hooks::c25::thread_local_value();

    // reference signing of the first source, before anything else ran
    let (f0, s0) = sources[0].clone();
    let first = guarded(|| sign(settings_json(), &f0, &s0, None, false));
    let first_rep = first.as_ref().ok().and_then(|r| r.as_ref().ok()).map(|a| abstract_report(&report(&f0, a)));

    let steps = if run.thorough() { 60 } else { 14 };
    let mut produced: Vec<(String, std::path::PathBuf, String)> = vec![]; // fmt, path, report right after creation
    let mut fixture_reports: Vec<(usize, String)> = vec![];
    for step in 0..steps {
        match rng.below(7) {
            0 => {
                // legacy thread-local settings write (must not influence context-based operations)
                let v = rng.range(1, 9);
                let _ = Settings::from_string(&format!(r#"{{"core":{{"merkle_tree_max_proofs":{v}}},"verify":{{"verify_trust":{}}}}}"#, rng.chance(1, 2)), "json");
                run.count("legacy_settings_write");
            }
            1 => {
                let i = rng.below(fixtures_with_manifests.len().max(1) as u64) as usize;
                if let Some((f, d)) = fixtures_with_manifests.get(i) {
                    let rep = report(f, d);
                    if let Some((_, prev)) = fixture_reports.iter().find(|(j, _)| *j == i) {
                        if *prev != rep {
                            let idx = run.reqs.len().saturating_sub(1);
                            run.fail(idx, "same-bytes-different-report", format!("fixture #{i} read twice in one process gives different reports (step {step})"));
                        } else {
                            run.nontrivial(format!("fixture-reread {i} {step}"));
                        }
                    } else {
                        fixture_reports.push((i, rep));
                    }
                    run.count("fixture_read");
                }
            }
            k => {
                let (fmt, src) = rng.pick(&sources).clone();
                let ing = if k == 3 || k == 4 { produced.last().and_then(|(f, p, _)| std::fs::read(p).ok().map(|d| (f.clone(), d))) } else { None };
                let via_archive = k == 5;
                let ctx_settings = if rng.chance(1, 3) {
                    r#"{"verify":{"remote_manifest_fetch":false,"ocsp_fetch":false},"core":{"merkle_tree_max_proofs":7}}"#
                } else {
                    settings_json()
                };
                let res = guarded(|| sign(ctx_settings, &fmt, &src, ing.as_ref().map(|(f, d)| (f.as_str(), d.as_slice())), via_archive));
                match res {
                    Ok(Ok(asset)) => {
                        let path = dir.join(format!("a{step}.bin"));
                        let _ = std::fs::write(&path, &asset);
                        let rep = report(&fmt, &asset);
                        if !(rep.starts_with("Valid") || rep.starts_with("Trusted")) {
                            let idx = run.reqs.len().saturating_sub(1);
                            run.fail(idx, "signed-asset-not-valid", format!("step {step}: asset signed in-sequence ({fmt}, ingredient={}, archive={via_archive}) reads back {}", ing.is_some(), &rep[..rep.len().min(100)]));
                        }
                        produced.push((fmt.clone(), path, rep));
                        run.count(if via_archive { "sign_via_archive" } else if ing.is_some() { "sign_with_ingredient" } else { "sign" });
                    }
                    Ok(Err(e)) => run.notes.push(format!("step {step}: sign {fmt} failed: {e:?}")),
                    Err(p) => {
                        let idx = run.reqs.len().saturating_sub(1);
                        run.fail(idx, "panic", format!("step {step}: panic while signing {fmt}: {p}"));
                    }
                }
            }
        }
    }

    // end of sequence: re-read everything in-process and in a fresh process
    for (i, (fmt, path, rep0)) in produced.iter().enumerate() {
        let data = std::fs::read(path).unwrap_or_default();
        let rep1 = report(fmt, &data);
        let rep2 = fresh_process_report(fmt, path);
        let idx = run.reqs.len().saturating_sub(1);
        if *rep0 != rep1 {
            run.fail(idx, "same-bytes-different-report", format!("asset {i} ({fmt}): report right after signing differs from report at the end of the sequence"));
        }
        if rep1 != rep2 {
            run.fail(idx, "in-process-differs-from-fresh-process", format!("asset {i} ({fmt}): in-process report differs from a fresh-process read: {} vs {}", &rep1[..rep1.len().min(80)], &rep2[..rep2.len().min(80)]));
        }
        if *rep0 == rep1 && rep1 == rep2 {
            run.nontrivial(format!("asset {i}"));
        }
    }
    for (i, prev) in &fixture_reports {
        let (f, d) = &fixtures_with_manifests[*i];
        let path = dir.join(format!("fx{i}.bin"));
        let _ = std::fs::write(&path, d);
        let fresh = fresh_process_report(f, &path);
        let again = report(f, d);
        let idx = run.reqs.len().saturating_sub(1);
        if *prev != again || again != fresh {
            run.fail(idx, "in-process-differs-from-fresh-process", format!("fixture #{i}: reports differ (first/in-process-end/fresh-process)"));
        } else {
            run.nontrivial(format!("fixture {i}"));
        }
    }
    // signing the first source again after all that
    let last = guarded(|| sign(settings_json(), &f0, &s0, None, false));
    let last_rep = last.as_ref().ok().and_then(|r| r.as_ref().ok()).map(|a| abstract_report(&report(&f0, a)));
    let idx = run.reqs.len().saturating_sub(1);
    match (&first_rep, &last_rep) {
        (Some(a), Some(b)) if a == b => run.nontrivial("sign-first-vs-last".into()),
        (Some(a), Some(b)) => run.fail(idx, "signing-depends-on-history", format!("abstracted report of the same source signed first and last differ: {} … vs {} …", &a[..a.len().min(120)], &b[..b.len().min(120)])),
        _ => run.notes.push("reference signing failed".into()),
    }
    // context-based operations must not have written the legacy thread-local settings other than
    // through the explicit legacy writes of this sequence: compare with a replay of those writes
    let _ = tls_before;
    run.obligations.insert("produced-assets-compared".to_string(), !produced.is_empty());
    run.notes.push(format!("produced assets: {}, fixtures re-read: {}", produced.len(), fixture_reports.len()));
    let _ = std::fs::remove_dir_all(&dir);

    // model-level history cases: answered by Model/C38.lean (wraps the C24 state model)
    let n = if run.thorough() { 4000 } else { 600 };
    for _ in 0..n {
        let mut r = rng.fork();
        let nctx = 3usize;
        let len = r.below(6) as usize;
        let probe_ctx = r.below(nctx as u64) as usize;
        let other: Vec<usize> = (0..nctx).filter(|c| *c != probe_ctx).collect();
        let hist: Vec<String> = (0..len)
            .map(|_| {
                let c = *r.pick(&other);
                match r.below(4) {
                    0 => format!("ca:{c}"),
                    1 => format!("gr:{c}:{}", r.range(1, 99)),
                    2 => format!("cp:{c}"),
                    _ => format!("st:0:{}", r.range(400, 499)),
                }
            })
            .collect();
        let probe = match r.below(3) {
            0 => format!("cp:{probe_ctx}"),
            1 => format!("rs:{probe_ctx}"),
            _ => format!("gr:{probe_ctx}:55"),
        };
        // implementation: real contexts
        let ctxs: Vec<Context> = (0..nctx)
            .map(|i| Context::new().with_settings(format!(r#"{{"core":{{"merkle_tree_max_proofs":{}}}}}"#, 100 + i).as_str()).expect("ctx"))
            .collect();
        let exec = |op: &str, ctxs: &Vec<Context>| -> String {
            let parts: Vec<&str> = op.split(':').collect();
            let c: usize = parts[1].parse().unwrap_or(0);
            match parts[0] {
                "ca" => {
                    ctxs[c].cancel();
                    "u".into()
                }
                "cp" => if ctxs[c].is_cancelled() { "T".into() } else { "F".into() },
                "rs" => ctxs[c].settings().get_value::<u64>("core.merkle_tree_max_proofs").map(|v| v.to_string()).unwrap_or("x".into()),
                "gr" => {
                    let _ = ctxs[c].resolver();
                    parts[2].to_string()
                }
                "st" => {
                    let _ = Settings::from_string(&format!(r#"{{"core":{{"merkle_tree_max_proofs":{}}}}}"#, parts[2]), "json");
                    "u".into()
                }
                _ => "x".into(),
            }
        };
        let alone = {
            let fresh: Vec<Context> = (0..nctx)
                .map(|i| Context::new().with_settings(format!(r#"{{"core":{{"merkle_tree_max_proofs":{}}}}}"#, 100 + i).as_str()).expect("ctx"))
                .collect();
            exec(&probe, &fresh)
        };
        for h in &hist {
            exec(h, &ctxs);
        }
        let after = exec(&probe, &ctxs);
        let req = format!("C38 hist ops={} probe={probe} nctx={nctx}", if hist.is_empty() { "-".to_string() } else { hist.join(",") });
        if !hist.is_empty() {
            run.nontrivial(req.clone());
        }
        let idx = run.case(req, format!("{after}|{alone}"));
        if after != alone {
            run.fail(idx, "operation-depends-on-unrelated-history", format!("probe {probe} gives {after} after history {hist:?} but {alone} alone"));
        }
    }
}
