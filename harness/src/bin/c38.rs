//! C38 — validation is deterministic and repeatable.
//!
//!   c38 report <format> <file>             -> canonical report of one read, base settings (fresh process)
//!   c38 report2 <variant> <format> <file>  -> the same with the named settings variant
//!   c38 <tier> <seed> <outdir>             -> the run
//!
//! Model-level requests (history form, answered by Model/C38.lean which wraps the C24 state model):
//!   C38 hist ops=<op,op,…> probe=<op> nctx=<n>  ->  <output of probe after the history>|<output of probe alone>
//!
//! Implementation level (oracle):
//! 1. random sequences of sign / read / ingredient import / archive save+restore operations in ONE
//!    process with legacy thread-local settings writes in between; every produced asset is read
//!    right after it was produced, again at the end of the sequence, and in a fresh process; the
//!    three canonical reports must be identical; the same source signed first and last must give
//!    the same abstracted report.
//! 2. settings-variation histories: many reads ON THE SAME THREAD of a few assets, each with a
//!    context whose settings differ from the previous read's in ONE setting (every trust setting
//!    separately: trust_anchors, user_anchors, trust_config, allowed_list; verify / core settings);
//!    every report must equal the report of a fresh process reading the same bytes with the same
//!    settings.
//! 3. replays of the Lean witnesses: the legacy API is history-dependent by design
//!    (`tls_history_visible`); a context-based read of the crafted BMFF asset depends on an earlier
//!    legacy settings write of its thread (`context_read_depends_on_tls`, open finding).
//! 4. hash-order regression case: three manifests, two time-stamp assertions (local RFC 3161
//!    authority behind the context's resolver) naming the same first manifest, one token inside and
//!    one outside the first signer's validity; the same bytes are read 16/40 times in process and
//!    6/12 times in fresh processes: all reports must be identical (they were not before
//!    fixes/C38-timestamp-assertion-earliest-wins.patch).

#![allow(deprecated)]

#[path = "../c24_common.rs"]
mod cc;
#[allow(dead_code)]
#[path = "../pki.rs"]
mod pki;

use std::{
    io::{Cursor, Read},
    process::Command,
    sync::Arc,
};

use c2pa::{
    http::{
        http::{header::CONTENT_TYPE, Request, Response},
        HttpResolverError, SyncHttpResolver,
    },
    Builder, BuilderIntent, Context, EphemeralSigner, Reader, Settings, Signer, SigningAlg,
};
use vh::common::{fixtures, guarded, main_with, scratch, Rng, Run};
use vh::sign::{definition, unsigned_sources};

fn report_with(settings: &str, fmt: &str, data: &[u8]) -> String {
    match Context::new().with_settings(settings) {
        Ok(ctx) => cc::report_of(Reader::from_context(ctx).with_stream(fmt, Cursor::new(data.to_vec()))),
        Err(e) => format!("ctx-error:{e:?}"),
    }
}

fn report(fmt: &str, data: &[u8]) -> String {
    report_with(&cc::base_settings(), fmt, data)
}

fn sign(ctx_settings: &str, fmt: &str, src: &[u8], ingredient: Option<(&str, &[u8])>, via_archive: bool) -> c2pa::Result<Vec<u8>> {
    let ctx = Context::new().with_settings(ctx_settings)?.with_signer(EphemeralSigner::new("verif.test")?);
    let mut b = Builder::from_context(ctx).with_definition(definition("c38", fmt).as_str())?;
    if let Some((ifmt, idata)) = ingredient {
        b.add_ingredient_from_stream(
            serde_json::json!({"title": "ing", "relationship": "componentOf"}).to_string(),
            ifmt,
            &mut Cursor::new(idata.to_vec()),
        )?;
    }
    if via_archive {
        let mut ar = Cursor::new(Vec::new());
        b.to_archive(&mut ar)?;
        ar.set_position(0);
        let ctx2 = Context::new().with_settings(ctx_settings)?.with_signer(EphemeralSigner::new("verif.test")?);
        b = Builder::from_context(ctx2).with_archive(ar)?;
    }
    let mut out = Cursor::new(Vec::new());
    b.save_to_stream(fmt, &mut Cursor::new(src.to_vec()), &mut out)?;
    Ok(out.into_inner())
}

fn child(args: &[&str]) -> String {
    let exe = std::env::current_exe().expect("exe");
    match Command::new(exe).args(args).output() {
        Ok(o) if o.status.success() => String::from_utf8_lossy(&o.stdout).trim_end().to_string(),
        Ok(o) => format!("child-failed:{}", o.status),
        Err(e) => format!("child-error:{e}"),
    }
}

fn fresh_process_report(fmt: &str, path: &std::path::Path) -> String {
    child(&["report", fmt, &path.to_string_lossy()])
}

fn main() {
    let args: Vec<String> = std::env::args().collect();
    if args.len() >= 4 && args[1] == "report" {
        let data = std::fs::read(&args[3]).expect("read asset");
        println!("{}", report(&args[2], &data));
        return;
    }
    if args.len() >= 5 && args[1] == "report3" {
        let data = std::fs::read(&args[4]).expect("read asset");
        let s = std::fs::read_to_string(&args[2]).expect("settings file");
        println!("{}", report_with(&s, &args[3], &data));
        return;
    }
    if args.len() >= 5 && args[1] == "report2" {
        let data = std::fs::read(&args[4]).expect("read asset");
        let s = cc::variant(&args[2]).expect("variant");
        println!("{}", report_with(&s, &args[3], &data));
        return;
    }
    main_with("C38", run);
}

fn short(s: &str) -> &str {
    &s[..s.len().min(90)]
}

/// Part 2: reads on one thread whose settings change one setting at a time, against fresh-process references.
fn settings_histories(run: &mut Run, rng: &mut Rng, dir: &std::path::Path) {
    let jpg = std::fs::read(fixtures().join("IMG_0003.jpg")).unwrap_or_default();
    let mut assets: Vec<(String, String, Vec<u8>)> = vec![]; // name, fmt, bytes
    for alg in ["es256", "ed25519"] {
        let s = format!(r#"{{"verify":{{{}}},{}}}"#, cc::NOFETCH, cc::signer_member(alg));
        match cc::sign_with_settings(&s, "image/jpeg", &jpg, "c38-fixture-signed") {
            Ok(a) => assets.push((format!("signed-{alg}"), "image/jpeg".into(), a)),
            Err(e) => run.notes.push(format!("sign with fixture credential {alg} failed: {e:?}")),
        }
    }
    for name in ["CA.jpg", "C.jpg"] {
        if let Ok(d) = std::fs::read(fixtures().join(name)) {
            assets.push((name.to_string(), "image/jpeg".into(), d));
        }
    }
    if let Ok(a) = sign(&cc::base_settings(), "image/jpeg", &jpg, None, false) {
        assets.push(("signed-ephemeral".into(), "image/jpeg".into(), a));
    }
    // every "odd" class, read AFTER other reads / signs on this thread and compared with a fresh
    // process (Err classes included): pre-1.0 data, legacy / v1 claims, unsupported type, remote
    // manifest references, no manifest, damaged / tampered stores
    let n_regular = assets.len();
    for (name, fmt) in [
        ("prerelease.jpg", "image/jpeg"),
        ("legacy.mp4", "video/mp4"),
        ("legacy_ingredient_hash.jpg", "image/jpeg"),
        ("adobe-20220124-E-clm-CAICAI.jpg", "image/jpeg"),
        ("unsupported_type.txt", "text/plain"),
        ("cloud.jpg", "image/jpeg"),
        ("cloudx.jpg", "image/jpeg"),
        ("no_manifest.jpg", "image/jpeg"),
        ("XCA.jpg", "image/jpeg"),
        ("E-sig-CA.jpg", "image/jpeg"),
        ("CIE-sig-CA.jpg", "image/jpeg"),
        ("CACAE-uri-CA.jpg", "image/jpeg"),
        ("boxhash.jpg", "image/jpeg"),
    ] {
        if let Ok(d) = std::fs::read(fixtures().join(name)) {
            if d.len() <= 1_500_000 {
                assets.push((name.to_string(), fmt.into(), d));
            }
        }
    }
    if let Ok(d) = std::fs::read(fixtures().join("CA.jpg")) {
        assets.push(("CA.jpg-truncated".into(), "image/jpeg".into(), d[..d.len() * 2 / 3].to_vec()));
        let mut f = d.clone();
        if let Some(k) = f.windows(4).position(|w| w == b"jumb") {
            for b in f.iter_mut().skip(k + 200).take(8) {
                *b ^= 0x5a;
            }
        }
        assets.push(("CA.jpg-damaged-store".into(), "image/jpeg".into(), f));
    }
    run.notes.push(format!("settings histories: {} regular + {} odd assets", n_regular, assets.len() - n_regular));
    let variants = cc::variants();
    let valid = variants.iter().all(|(_, s)| Settings::new().with_json(s).is_ok());
    run.obligations.insert("settings-variants-are-valid-settings".to_string(), valid);
    let paths: Vec<std::path::PathBuf> = assets
        .iter()
        .enumerate()
        .map(|(i, (_, _, d))| {
            let p = dir.join(format!("v{i}.bin"));
            let _ = std::fs::write(&p, d);
            p
        })
        .collect();
    let mut reference: std::collections::HashMap<(usize, usize), String> = std::collections::HashMap::new();
    let steps = if run.thorough() { 900 } else { 200 };
    let mut prev: Option<(usize, usize)> = None;
    let mut distinct_outcomes: std::collections::HashSet<String> = std::collections::HashSet::new();
    let mut compared = 0usize;
    // a sweep first, then random steps: the sweep reads EVERY odd asset right after a regular one
    let sweep: Vec<(usize, usize)> = (n_regular..assets.len()).flat_map(|o| [((o - n_regular) % n_regular.max(1), 0usize), (o, 0usize)]).collect();
    for step in 0..steps + sweep.len() {
        if assets.is_empty() {
            break;
        }
        // stay on the same asset most of the time so that consecutive reads differ in ONE setting
        let a = match prev {
            Some((a, _)) if rng.chance(1, 2) => a,
            // an odd asset right after a regular one (whose manifest loaded successfully) and back
            Some((a, _)) if a < n_regular && assets.len() > n_regular => n_regular + rng.below((assets.len() - n_regular) as u64) as usize,
            _ => rng.below(n_regular.max(1) as u64) as usize,
        };
        let v = rng.below(variants.len() as u64) as usize;
        let (a, v) = if step < sweep.len() { sweep[step] } else { (a, v) };
        let (name, fmt, data) = &assets[a];
        let got = report_with(&variants[v].1, fmt, data);
        let want = reference.entry((a, v)).or_insert_with(|| child(&["report2", variants[v].0, fmt, &paths[a].to_string_lossy()])).clone();
        let idx = run.reqs.len().saturating_sub(1);
        if want.starts_with("child-") {
            run.fail(idx, "fresh-process-read-failed", format!("{name} / {}: {want}", variants[v].0));
        } else if got != want {
            let before = prev.map(|(pa, pv)| format!("{} / {}", assets[pa].0, variants[pv].0)).unwrap_or_else(|| "-".into());
            run.fail(
                idx,
                "same-bytes-same-settings-different-report-after-history",
                format!("step {step}: {name} read with settings `{}` right after [{before}] gives {} … but a fresh process gives {} …", variants[v].0, short(&got), short(&want)),
            );
        } else {
            compared += 1;
            if let Some((pa, pv)) = prev {
                if pa == a && pv != v {
                    run.nontrivial(format!("variant-switch {a} {pv}->{v}"));
                }
            }
        }
        distinct_outcomes.insert(format!("{a}:{}", &got[..got.find(':').unwrap_or(got.len().min(12))]));
        // summary of what the settings decide (so that the variants are known to matter)
        if got.contains("signingCredential.trusted") {
            run.count("read_trusted");
        } else if got.contains("signingCredential.untrusted") {
            run.count("read_untrusted");
        } else {
            run.count("read_other");
        }
        prev = Some((a, v));
    }
    run.notes.push(format!("settings histories: {compared} reads equal to their fresh-process reference, {} (asset, variant) references", reference.len()));
    // the variants must matter: some asset is trusted under one variant and untrusted under another
    let matter = (0..assets.len()).any(|a| {
        let outs: std::collections::HashSet<bool> = reference.iter().filter(|((ra, _), _)| *ra == a).map(|(_, r)| r.contains("signingCredential.trusted")).collect();
        outs.len() == 2
    });
    run.obligations.insert("trust-settings-variants-change-some-report".to_string(), matter);
}

/// A local RFC 3161 authority behind the context's HTTP resolver (`openssl ts -reply`).
struct Tsa {
    pki: Arc<pki::Pki>,
    tsa: pki::Cred,
    root: pki::Cred,
    n: std::sync::atomic::AtomicU32,
}

impl SyncHttpResolver for Tsa {
    fn http_resolve(&self, request: Request<Vec<u8>>) -> Result<Response<Box<dyn Read>>, HttpResolverError> {
        let k = self.n.fetch_add(1, std::sync::atomic::Ordering::SeqCst);
        let (q, r) = (self.pki.dir.join(format!("c38q{k}.tsq")), self.pki.dir.join(format!("c38r{k}.tsr")));
        std::fs::write(&q, request.body()).map_err(HttpResolverError::Io)?;
        let (ok, err) = self.pki.openssl(&[
            "ts", "-reply", "-config", "ca.cnf", "-section", "tsa_acc1", "-queryfile", q.to_str().unwrap_or(""), "-signer",
            self.tsa.cert.to_str().unwrap_or(""), "-inkey", self.tsa.key.to_str().unwrap_or(""), "-chain", self.root.cert.to_str().unwrap_or(""),
            "-out", r.to_str().unwrap_or(""),
        ]);
        if !ok {
            return Err(HttpResolverError::Io(std::io::Error::other(err)));
        }
        let body = std::fs::read(&r).map_err(HttpResolverError::Io)?;
        Response::builder()
            .status(200)
            .header(CONTENT_TYPE, "application/timestamp-reply")
            .body(Box::new(Cursor::new(body)) as Box<dyn Read>)
            .map_err(HttpResolverError::Http)
    }
}

/// Signer that names a time authority (so that the Builder adds time-stamp ASSERTIONS through the
/// context's resolver) but does not time-stamp its own signature.
struct TsSigner(EphemeralSigner);

impl Signer for TsSigner {
    fn sign(&self, data: &[u8]) -> c2pa::Result<Vec<u8>> {
        self.0.sign(data)
    }

    fn alg(&self) -> SigningAlg {
        self.0.alg()
    }

    fn certs(&self) -> c2pa::Result<Vec<Vec<u8>>> {
        self.0.certs()
    }

    fn reserve_size(&self) -> usize {
        self.0.reserve_size()
    }

    fn time_authority_url(&self) -> Option<String> {
        Some("http://tsa.verif.invalid/".to_string())
    }

    fn send_timestamp_request(&self, _message: &[u8]) -> Option<c2pa::Result<Vec<u8>>> {
        None
    }
}

/// Part 5: two time-stamp assertions (in two different later manifests) that name the SAME earlier
/// manifest with different, equally valid tokens. `Store::get_store_validation_info` iterates
/// `svi.manifest_map.values()` (a `HashMap`) and lets the assertion visited last win; the winner's
/// time becomes `signature_info.time` of the earlier manifest in the report.
fn timestamp_order(run: &mut Run, dir: &std::path::Path) {
    let pdir = dir.join("pki");
    let pk = Arc::new(pki::Pki::new(&pdir));
    let root = pk.root("c38-root");
    let day = 86_400;
    let tsa = pk.issue(&root, "c38-tsa", "v3_tsa", pki::now() - day, pki::now() + 30 * day);
    let root_pem = String::from_utf8_lossy(&root.cert_pem()).to_string();
    let jpg = std::fs::read(fixtures().join("IMG_0003.jpg")).unwrap_or_default();
    let edit = |src: &[u8], scope: &str| -> Result<Vec<u8>, String> {
        let s = serde_json::json!({
            "verify": {"remote_manifest_fetch": false, "ocsp_fetch": false},
            "builder": {"auto_timestamp_assertion": {"enabled": true, "skip_existing": false, "fetch_scope": scope}}
        })
        .to_string();
        let ctx = Context::new()
            .with_settings(s.as_str())
            .map_err(|e| format!("{e:?}"))?
            .with_resolver(Tsa { pki: pk.clone(), tsa: tsa.clone(), root: root.clone(), n: Default::default() })
            .with_signer(TsSigner(EphemeralSigner::new("verif.test").map_err(|e| format!("{e:?}"))?));
        let d = serde_json::json!({"title": "c38-ts", "format": "image/jpeg", "claim_generator_info": [{"name": "verif-harness", "version": "0.1"}]}).to_string();
        let mut b = Builder::from_context(ctx).with_definition(d.as_str()).map_err(|e| format!("{e:?}"))?;
        b.set_intent(BuilderIntent::Edit);
        let mut out = Cursor::new(Vec::new());
        b.save_to_stream("image/jpeg", &mut Cursor::new(src.to_vec()), &mut out).map_err(|e| format!("{e:?}"))?;
        Ok(out.into_inner())
    };
    // the FIRST manifest is signed with a certificate that expires a few seconds later; the first
    // time-stamp assertion (made at once) puts its signature inside the validity, the second one
    // (made after the expiry) outside
    let t0 = pki::now();
    let expiry = t0 + 12;
    let leaf = pk.issue(&root, "c38-leaf", "v3_sign", t0 - 3600, expiry);
    let mut armed = false;
    let built = (|| -> Result<Vec<u8>, String> {
        let mut chain = leaf.cert_pem();
        chain.extend_from_slice(&root.cert_pem());
        let signer0 = c2pa::create_signer::from_keys(&chain, &leaf.key_pem(), SigningAlg::Es256, None).map_err(|e| format!("leaf signer: {e:?}"))?;
        let ctx0 = Context::new().with_settings(cc::base_settings().as_str()).map_err(|e| format!("{e:?}"))?.with_signer(signer0);
        let mut b = Builder::from_context(ctx0).with_definition(definition("c38-ts0", "image/jpeg").as_str()).map_err(|e| format!("{e:?}"))?;
        let mut out = Cursor::new(Vec::new());
        b.save_to_stream("image/jpeg", &mut Cursor::new(jpg.clone()), &mut out).map_err(|e| format!("first manifest: {e:?}"))?;
        let a1 = edit(&out.into_inner(), "parent")?;
        let first_done = pki::now();
        while pki::now() <= expiry + 1 {
            std::thread::sleep(std::time::Duration::from_millis(200));
        }
        armed = first_done < expiry;
        edit(&a1, "all")
    })();
    let asset = match built {
        Ok(a) => a,
        Err(e) => {
            run.notes.push(format!("time-stamp order case could not be built: {e}"));
            run.obligations.insert("timestamp-order-case-built".to_string(), false);
            return;
        }
    };
    run.obligations.insert("timestamp-order-case-built".to_string(), true);
    let settings = serde_json::json!({"verify": {"remote_manifest_fetch": false, "ocsp_fetch": false}, "trust": {"trust_anchors": root_pem}}).to_string();
    // what the report says about the signing credential of each manifest (failure codes of the
    // active manifest and of the ingredient deltas)
    let times = |rep: &str| -> Vec<String> {
        let v: serde_json::Value = rep.find(':').and_then(|k| serde_json::from_str(&rep[k + 1..]).ok()).unwrap_or_default();
        let mut t: Vec<String> = vec![];
        fn walk(v: &serde_json::Value, under_failure: bool, out: &mut Vec<String>) {
            match v {
                serde_json::Value::Object(m) => {
                    if under_failure {
                        if let Some(c) = m.get("code").and_then(|c| c.as_str()) {
                            out.push(c.to_string());
                        }
                    }
                    for (k, x) in m {
                        walk(x, under_failure || k == "failure", out);
                    }
                }
                serde_json::Value::Array(a) => a.iter().for_each(|x| walk(x, under_failure, out)),
                _ => {}
            }
        }
        walk(&v["validation_results"], false, &mut t);
        t.sort();
        t.insert(0, rep.split(':').next().unwrap_or("").to_string());
        t
    };
    let sp = dir.join("ts-settings.json");
    let ap = dir.join("ts-asset.jpg");
    let _ = std::fs::write(&sp, &settings);
    let _ = std::fs::write(&ap, &asset);
    let mut seen: std::collections::BTreeMap<String, usize> = std::collections::BTreeMap::new();
    let mut reports: std::collections::HashSet<String> = std::collections::HashSet::new();
    let n_in = if run.thorough() { 40 } else { 16 };
    for _ in 0..n_in {
        let rep = report_with(&settings, "image/jpeg", &asset);
        *seen.entry(times(&rep).join(",")).or_default() += 1;
        reports.insert(rep);
    }
    let n_fresh = if run.thorough() { 12 } else { 6 };
    let mut fresh: std::collections::HashSet<String> = std::collections::HashSet::new();
    for _ in 0..n_fresh {
        let rep = child(&["report3", &sp.to_string_lossy(), "image/jpeg", &ap.to_string_lossy()]);
        *seen.entry(times(&rep).join(",")).or_default() += 1;
        fresh.insert(rep);
    }
    run.notes.push(format!("time-stamp order case: state + failure codes seen over {n_in} in-process and {n_fresh} fresh-process reads of the same bytes: {seen:?}"));
    if let Some(rep) = reports.iter().next() {
        let mut hits: Vec<&str> = vec![];
        for pat in ["timeStamp.validated", "timeStamp.untrusted", "timeStamp.mismatch", "timeStamp.malformed", "timeStamp.outsideValidity", "c2pa.time-stamp"] {
            if rep.contains(pat) {
                hits.push(pat);
            }
        }
        run.notes.push(format!("time-stamp order case: report mentions {hits:?}"));
    }
    run.notes.push(format!("time-stamp order case armed (first token inside, second outside the first signer's validity): {armed}"));
    // where two reports of the same bytes differ (JSON leaf paths)
    fn diff(a: &serde_json::Value, b: &serde_json::Value, path: &str, out: &mut Vec<String>) {
        match (a, b) {
            (serde_json::Value::Object(x), serde_json::Value::Object(y)) => {
                let keys: std::collections::BTreeSet<&String> = x.keys().chain(y.keys()).collect();
                for k in keys {
                    diff(x.get(k).unwrap_or(&serde_json::Value::Null), y.get(k).unwrap_or(&serde_json::Value::Null), &format!("{path}/{k}"), out);
                }
            }
            (serde_json::Value::Array(x), serde_json::Value::Array(y)) if x.len() == y.len() => {
                for (i, (p, q)) in x.iter().zip(y).enumerate() {
                    diff(p, q, &format!("{path}/{i}"), out);
                }
            }
            (serde_json::Value::Array(x), serde_json::Value::Array(y)) => {
                let (xs, ys): (Vec<String>, Vec<String>) = (x.iter().map(vh::common::canon_json).collect(), y.iter().map(vh::common::canon_json).collect());
                for e in xs.iter().filter(|e| !ys.contains(e)) {
                    out.push(format!("{path}: only in one report: {}", &e[..e.len().min(420)]));
                }
                for e in ys.iter().filter(|e| !xs.contains(e)) {
                    out.push(format!("{path}: only in the other: {}", &e[..e.len().min(420)]));
                }
            }
            _ if a != b => out.push(format!("{path}: {} <> {}", &a.to_string()[..a.to_string().len().min(90)], &b.to_string()[..b.to_string().len().min(90)])),
            _ => {}
        }
    }
    let all: Vec<&String> = reports.iter().chain(fresh.iter()).collect();
    let mut where_: Vec<String> = vec![];
    if let Some(other) = all.iter().find(|r| **r != all[0]) {
        let j = |r: &str| -> serde_json::Value { r.find(':').and_then(|k| serde_json::from_str(&r[k + 1..]).ok()).unwrap_or_default() };
        diff(&j(all[0]), &j(other), "", &mut where_);
    }
    let idx = run.reqs.len().saturating_sub(1);
    if reports.len() > 1 || fresh.len() > 1 || reports != fresh {
        run.fail(
            idx,
            "timestamp-assertion-winner-depends-on-hash-order",
            format!("the same bytes read with the same settings give {} different reports in one process and {} in fresh processes; state + failure codes seen: {seen:?}; reports differ at: {where_:?}", reports.len(), fresh.len()),
        );
    } else {
        run.nontrivial("timestamp-order-stable".into());
    }
}

/// Part 3: replay the Lean witnesses on the implementation (each on a fresh thread).
fn witnesses(run: &mut Run) {
    let jpg = std::fs::read(fixtures().join("IMG_0003.jpg")).unwrap_or_default();
    let signed = sign(&cc::base_settings(), "image/jpeg", &jpg, None, false).ok();
    // (i) `tls_history_visible`: the legacy API reads the thread-local settings, so an earlier legacy write shows
    if let Some(a) = signed {
        let seen = std::thread::spawn(move || {
            let legacy = |d: &[u8]| cc::report_of(Reader::from_stream("image/jpeg", Cursor::new(d.to_vec())));
            let r0 = legacy(&a);
            let _ = Settings::from_string(r#"{"verify":{"verify_after_reading":false}}"#, "json");
            let r1 = legacy(&a);
            r0 != r1
        })
        .join()
        .unwrap_or(false);
        run.obligations.insert("witness-replayed:legacy-api-depends-on-earlier-legacy-settings-write".to_string(), seen);
    }
    // (ii) `context_read_depends_on_tls`: a context-based read must NOT, but does for this asset
    match cc::bmff_compressed_update_asset() {
        Ok(asset) => {
            let (alone, after) = std::thread::spawn(move || {
                let alone = cc::leaky_read_allows(&asset);
                cc::set_tls(400); // even: decompression cap 0 in the THREAD-LOCAL settings
                (alone, cc::leaky_read_allows(&asset))
            })
            .join()
            .unwrap_or((false, false));
            run.notes.push(format!("crafted BMFF asset, context-based read gets past decompression: fresh thread {alone}, after a legacy cap-0 write {after}"));
            if alone != after {
                let idx = run.reqs.len().saturating_sub(1);
                run.fail(idx, "context-read-depends-on-thread-local-settings", "a context-based read (default context settings) of a BMFF asset with original+update stores, original store brotli-compressed: fresh thread gets past the decompression, the same read after `Settings::from_string({core.max_decompressed_manifest_size_in_mb:0})` on that thread fails with JumbfParseError (BmffIO::read_cai -> Store::from_jumbf reads the thread-local cap)".to_string());
            } else {
                run.nontrivial("leaky-read-witness-not-reproduced".into());
            }
        }
        Err(e) => run.notes.push(format!("crafted BMFF asset not available: {e}")),
    }
}

pub fn run(run: &mut Run, rng: &mut Rng) {
    run.rule = "(1) one process executes a random sequence (quick 14, thorough 60 steps) of sign (plain / with ingredient / through archive save+restore), read of fixtures with failures, legacy thread-local settings writes and context settings variations; every produced asset is read right after creation, again at the end, and in a fresh process (child `report`), and the canonical reports compared; the same source is signed at the start and at the end and the abstracted reports compared. (2) 200 / 900 reads on one thread of 5 regular + ~15 odd assets (pre-1.0, legacy, unsupported type, remote manifest, no manifest, damaged) under 11 settings variants (each trust setting separately), odd assets read right after successful loads; Err classes compared too, each compared with a fresh-process read of the same bytes under the same settings; non-trivial = consecutive reads of the same asset under different variants. (3) witness replays. (4) model history cases over real contexts".to_string();
    let dir = scratch("c38");
    let sources: Vec<(String, Vec<u8>)> = unsigned_sources()
        .into_iter()
        .filter_map(|(f, n)| std::fs::read(fixtures().join(n)).ok().filter(|d| d.len() <= 450_000).map(|d| (f.to_string(), d)))
        .collect();
    let fixtures_with_manifests: Vec<(String, Vec<u8>)> = ["CA.jpg", "C.jpg", "XCA.jpg", "E-sig-CA.jpg", "CACA.jpg"]
        .iter()
        .filter_map(|n| std::fs::read(fixtures().join(n)).ok().map(|d| ("image/jpeg".to_string(), d)))
        .collect();
    if sources.is_empty() {
        run.notes.push("no sources".into());
        return;
    }
    let base = cc::base_settings();

    // reference signing of the first source, before anything else ran
    let (f0, s0) = sources[0].clone();
    let first = guarded(|| sign(&base, &f0, &s0, None, false));
    let first_rep = first.as_ref().ok().and_then(|r| r.as_ref().ok()).map(|a| cc::abstract_report(&report(&f0, a)));

    let steps = if run.thorough() { 60 } else { 14 };
    let mut produced: Vec<(String, std::path::PathBuf, String)> = vec![]; // fmt, path, report right after creation
    let mut fixture_reports: Vec<(usize, String)> = vec![];
    let poisons = cc::poisons();
    for step in 0..steps {
        match rng.below(7) {
            0 => {
                // legacy thread-local settings write (must not influence context-based operations):
                // values that would change results if a context path consulted them
                let p = rng.pick(&poisons).clone();
                let _ = Settings::from_string(&p, "json");
                run.count("legacy_settings_write");
            }
            1 => {
                let i = rng.below(fixtures_with_manifests.len().max(1) as u64) as usize;
                if let Some((f, d)) = fixtures_with_manifests.get(i) {
                    let rep = report(f, d);
                    if let Some((_, prev)) = fixture_reports.iter().find(|(j, _)| *j == i) {
                        if *prev != rep {
                            let idx = run.reqs.len().saturating_sub(1);
                            run.fail(idx, "same-bytes-different-report", format!("fixture #{i} read twice in one process gives different reports (step {step})"));
                        } else {
                            run.nontrivial(format!("fixture-reread {i} {step}"));
                        }
                    } else {
                        fixture_reports.push((i, rep));
                    }
                    run.count("fixture_read");
                }
            }
            k => {
                let (fmt, src) = rng.pick(&sources).clone();
                let ing = if k == 3 || k == 4 { produced.last().and_then(|(f, p, _)| std::fs::read(p).ok().map(|d| (f.clone(), d))) } else { None };
                let via_archive = k == 5;
                let ctx_settings = if rng.chance(1, 3) {
                    format!(r#"{{"verify":{{{}}},"core":{{"merkle_tree_max_proofs":7}}}}"#, cc::NOFETCH)
                } else {
                    base.clone()
                };
                let res = guarded(|| sign(&ctx_settings, &fmt, &src, ing.as_ref().map(|(f, d)| (f.as_str(), d.as_slice())), via_archive));
                match res {
                    Ok(Ok(asset)) => {
                        let path = dir.join(format!("a{step}.bin"));
                        let _ = std::fs::write(&path, &asset);
                        let rep = report(&fmt, &asset);
                        if !(rep.starts_with("Valid") || rep.starts_with("Trusted")) {
                            let idx = run.reqs.len().saturating_sub(1);
                            run.fail(idx, "signed-asset-not-valid", format!("step {step}: asset signed in-sequence ({fmt}, ingredient={}, archive={via_archive}) reads back {}", ing.is_some(), &rep[..rep.len().min(100)]));
                        }
                        produced.push((fmt.clone(), path, rep));
                        run.count(if via_archive { "sign_via_archive" } else if ing.is_some() { "sign_with_ingredient" } else { "sign" });
                    }
                    Ok(Err(e)) => run.notes.push(format!("step {step}: sign {fmt} failed: {e:?}")),
                    Err(p) => {
                        let idx = run.reqs.len().saturating_sub(1);
                        run.fail(idx, "panic", format!("step {step}: panic while signing {fmt}: {p}"));
                    }
                }
            }
        }
    }

    // end of sequence: re-read everything in-process and in a fresh process
    for (i, (fmt, path, rep0)) in produced.iter().enumerate() {
        let data = std::fs::read(path).unwrap_or_default();
        let rep1 = report(fmt, &data);
        let rep2 = fresh_process_report(fmt, path);
        let idx = run.reqs.len().saturating_sub(1);
        if *rep0 != rep1 {
            run.fail(idx, "same-bytes-different-report", format!("asset {i} ({fmt}): report right after signing differs from report at the end of the sequence"));
        }
        if rep1 != rep2 {
            run.fail(idx, "in-process-differs-from-fresh-process", format!("asset {i} ({fmt}): in-process report differs from a fresh-process read: {} vs {}", &rep1[..rep1.len().min(80)], &rep2[..rep2.len().min(80)]));
        }
        if *rep0 == rep1 && rep1 == rep2 {
            run.nontrivial(format!("asset {i}"));
        }
    }
    for (i, prev) in &fixture_reports {
        let (f, d) = &fixtures_with_manifests[*i];
        let path = dir.join(format!("fx{i}.bin"));
        let _ = std::fs::write(&path, d);
        let fresh = fresh_process_report(f, &path);
        let again = report(f, d);
        let idx = run.reqs.len().saturating_sub(1);
        if *prev != again || again != fresh {
            run.fail(idx, "in-process-differs-from-fresh-process", format!("fixture #{i}: reports differ (first/in-process-end/fresh-process)"));
        } else {
            run.nontrivial(format!("fixture {i}"));
        }
    }
    // signing the first source again after all that
    let last = guarded(|| sign(&base, &f0, &s0, None, false));
    let last_rep = last.as_ref().ok().and_then(|r| r.as_ref().ok()).map(|a| cc::abstract_report(&report(&f0, a)));
    let idx = run.reqs.len().saturating_sub(1);
    match (&first_rep, &last_rep) {
        (Some(a), Some(b)) if a == b => run.nontrivial("sign-first-vs-last".into()),
        (Some(a), Some(b)) => run.fail(idx, "signing-depends-on-history", format!("abstracted report of the same source signed first and last differ: {} … vs {} …", &a[..a.len().min(120)], &b[..b.len().min(120)])),
        _ => run.notes.push("reference signing failed".into()),
    }
    run.obligations.insert("produced-assets-compared".to_string(), !produced.is_empty());
    run.notes.push(format!("produced assets: {}, fixtures re-read: {}", produced.len(), fixture_reports.len()));

    settings_histories(run, rng, &dir);
    witnesses(run);
    timestamp_order(run, &dir);
    let _ = std::fs::remove_dir_all(&dir);

    // model-level history cases: answered by Model/C38.lean (wraps the C24 state model); one thread
    // (this one, thread-local number 200 at the start of every case)
    let leaky = cc::bmff_compressed_update_asset().ok();
    let n = if run.thorough() { 3000 } else { 400 };
    for _ in 0..n {
        let mut r = rng.fork();
        let nctx = 3usize;
        let len = r.below(6) as usize;
        let probe_ctx = r.below(nctx as u64) as usize;
        let other: Vec<usize> = (0..nctx).filter(|c| *c != probe_ctx).collect();
        // harmless histories (the theorem's hypothesis): anything on other contexts, safe
        // operations on the probe's context, legacy settings writes
        let hist: Vec<String> = (0..len)
            .map(|_| {
                let c = *r.pick(&other);
                match r.below(8) {
                    0 => format!("ca:{c}"),
                    1 => format!("gr:{c}:{}", r.range(1, 99)),
                    2 => format!("cp:{c}"),
                    3 => format!("cp:{probe_ctx}"),
                    4 => format!("gss:{probe_ctx}"),
                    5 => format!("grs:{probe_ctx}"),
                    _ => format!("st:0:{}", r.range(400, 499)),
                }
            })
            .collect();
        let probe = match r.below(7) {
            0 => format!("cp:{probe_ctx}"),
            1 => format!("rs:{probe_ctx}"),
            2 => format!("gr:{probe_ctx}:55"),
            3 => format!("gss:{probe_ctx}"),
            4 => format!("grs:{probe_ctx}"),
            5 => "rt:0".to_string(),
            _ => if leaky.is_some() { "lr:0".to_string() } else { format!("rs:{probe_ctx}") },
        };
        let mk = || -> Vec<Context> { (0..nctx).map(|i| Context::new().with_settings(format!(r#"{{"core":{{"merkle_tree_max_proofs":{}}}}}"#, 100 + i).as_str()).expect("ctx")).collect() };
        let exec = |op: &str, ctxs: &Vec<Context>, first_resolver: &mut Vec<Option<String>>| -> String {
            let parts: Vec<&str> = op.split(':').collect();
            let c: usize = parts[1].parse().unwrap_or(0);
            match parts[0] {
                "ca" => {
                    ctxs[c].cancel();
                    "u".into()
                }
                "cp" => if ctxs[c].is_cancelled() { "T".into() } else { "F".into() },
                "rs" => ctxs[c].settings().get_value::<u64>("core.merkle_tree_max_proofs").map(|v| v.to_string()).unwrap_or("x".into()),
                "gr" | "grs" => {
                    let _ = ctxs[c].resolver();
                    let offered = if parts[0] == "gr" { parts[2].to_string() } else { (100 + c).to_string() };
                    first_resolver[c].get_or_insert(offered).clone()
                }
                // no signer in these settings: the lazily created cell holds "missing signer settings",
                // a function of the context's settings, for every caller
                "gss" => match ctxs[c].signer() {
                    Err(c2pa::Error::MissingSignerSettings) => (100 + c).to_string(),
                    _ => "signer-unexpected".into(),
                },
                "st" => {
                    cc::set_tls(parts[2].parse().unwrap_or(0));
                    "u".into()
                }
                "rt" => cc::tls_value(),
                "lr" => match &leaky {
                    Some(a) => if cc::leaky_read_allows(a) { "T".into() } else { "F".into() },
                    None => "x".into(),
                },
                _ => "x".into(),
            }
        };
        cc::set_tls(200);
        let alone = exec(&probe, &mk(), &mut vec![None; nctx]);
        cc::set_tls(200);
        let ctxs = mk();
        let mut seen = vec![None; nctx];
        for h in &hist {
            exec(h, &ctxs, &mut seen);
        }
        let after = exec(&probe, &ctxs, &mut seen);
        let req = format!("C38 hist ops={} probe={probe} nctx={nctx}", if hist.is_empty() { "-".to_string() } else { hist.join(",") });
        if !hist.is_empty() {
            run.nontrivial(req.clone());
        }
        let idx = run.case(req, format!("{after}|{alone}"));
        // the theorem's hypothesis (`ProgsCompat hist [probe]`): every history op touches another
        // cell than the probe, or both are shared-safe operations
        let cell = |op: &str| -> (u8, String) {
            let p: Vec<&str> = op.split(':').collect();
            (if matches!(p[0], "st" | "rt" | "lr") { 1 } else { 0 }, p[1].to_string())
        };
        let safe = |op: &str| matches!(op.split(':').next().unwrap_or(""), "cp" | "rs" | "gss" | "grs" | "rt" | "lr");
        let hypothesis = hist.iter().all(|h| cell(h) != cell(&probe) || (safe(h) && safe(&probe)));
        if !hypothesis {
            run.count("hist_outside_hypothesis");
        }
        if after != alone && hypothesis {
            if probe.starts_with("rt") {
                // the legacy thread-local value IS what legacy writes change: by design
                run.count("legacy_probe_sees_legacy_write");
            } else if probe.starts_with("lr") {
                run.fail(idx, "context-read-depends-on-thread-local-settings", format!("context-based read of the crafted BMFF asset: {after} after history {hist:?} but {alone} alone"));
            } else {
                run.fail(idx, "operation-depends-on-unrelated-history", format!("probe {probe} gives {after} after history {hist:?} but {alone} alone"));
            }
        }
    }
    cc::set_tls(200);
}
