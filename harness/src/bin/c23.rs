//! C23 — cancellation is always reported as cancellation.
//!
//! For every explored operation (sign / read / ingredient import, per container) the harness
//! first records the uncancelled progress trace, then re-runs the operation once for **every**
//! callback index k answering `false` at k, and once with the cancel flag pre-set.
//!
//! Request lines (see lean/C2paModel/Model/C23.lean):
//!   C23 cancel n=<callbacks of the uncancelled run> k=<index answered false>  -> cancelled <k+1>
//!   C23 flag n=<…>                                                            -> cancelled 1
//!   C23 wf trace=<phase:step:total,…>                                         -> wf | bad
//! The implementation reply for `cancel` is `cancelled <callbacks observed>` when the result is
//! `Err(OperationCancelled)`, else `ok <callbacks>` / `err:<class> <callbacks>`.

use std::{
    io::Cursor,
    sync::{
        atomic::{AtomicUsize, Ordering},
        Arc, Mutex,
    },
};

use c2pa::{Builder, Context, EphemeralSigner, Error, ProgressPhase, Reader};
use vh::common::{fixtures, guarded, main_with, Rng, Run};
use vh::sign::{definition, sign_asset, unsigned_sources};

fn main() {
    main_with("C23", run);
}

type Trace = Arc<Mutex<Vec<(String, u32, u32)>>>;

fn settings() -> &'static str {
    r#"{"verify":{"remote_manifest_fetch":false,"ocsp_fetch":false}}"#
}

/// Context whose callback records every tick and answers `false` at invocation `k`.
fn ctx_with(k: Option<usize>, trace: Trace, count: Arc<AtomicUsize>) -> c2pa::Result<Context> {
    Ok(Context::new()
        .with_settings(settings())?
        .with_progress_callback(move |phase: ProgressPhase, step, total| {
            let i = count.fetch_add(1, Ordering::SeqCst);
            trace.lock().unwrap().push((format!("{phase:?}"), step, total));
            Some(i) != k
        }))
}

/// Where the callback finds the context it belongs to (filled in once the context is shared).
type Slot = Arc<Mutex<Option<Arc<Context>>>>;

/// Context whose callback always answers `true` but calls `Context::cancel()` on its own
/// context during invocation `k`.
fn ctx_cancelling_in_callback(k: usize, slot: Slot, count: Arc<AtomicUsize>) -> c2pa::Result<Context> {
    Ok(Context::new()
        .with_settings(settings())?
        .with_progress_callback(move |_phase: ProgressPhase, _step, _total| {
            let i = count.fetch_add(1, Ordering::SeqCst);
            if i == k {
                if let Some(c) = slot.lock().unwrap().as_ref() {
                    c.cancel();
                }
            }
            true
        }))
}

#[derive(Clone)]
enum Op {
    Read { fmt: String, asset: Arc<Vec<u8>> },
    Sign { fmt: String, src: Arc<Vec<u8>> },
    Ingredient { fmt: String, src: Arc<Vec<u8>>, ing_fmt: String, ing: Arc<Vec<u8>> },
}

impl Op {
    fn name(&self) -> String {
        match self {
            Op::Read { fmt, .. } => format!("read:{fmt}"),
            Op::Sign { fmt, .. } => format!("sign:{fmt}"),
            Op::Ingredient { fmt, ing_fmt, .. } => format!("ingredient:{ing_fmt}->{fmt}"),
        }
    }

    /// Runs the operation under `ctx`; Ok(summary) or the SDK error.
    fn exec(&self, ctx: Context) -> c2pa::Result<String> {
        self.exec_shared(ctx, None)
    }

    /// As `exec`; the shared context is published in `slot` before the operation starts.
    fn exec_shared(&self, ctx: Context, slot: Option<&Slot>) -> c2pa::Result<String> {
        let share = |ctx: Context| -> Arc<Context> {
            let a = Arc::new(ctx);
            if let Some(s) = slot {
                *s.lock().unwrap() = Some(a.clone());
            }
            a
        };
        match self {
            Op::Read { fmt, asset } => {
                let ctx = share(ctx);
                let r = Reader::from_shared_context(&ctx).with_stream(fmt, Cursor::new(asset.as_ref().clone()))?;
                Ok(format!("{:?}", r.validation_state()))
            }
            Op::Sign { fmt, src } => {
                let ctx = share(ctx.with_signer(EphemeralSigner::new("verif.test")?));
                let mut b = Builder::from_shared_context(&ctx).with_definition(definition("c23", fmt).as_str())?;
                let mut out = Cursor::new(Vec::new());
                b.save_to_stream(fmt, &mut Cursor::new(src.as_ref().clone()), &mut out)?;
                Ok(format!("signed {}", out.into_inner().len()))
            }
            Op::Ingredient { fmt, src, ing_fmt, ing } => {
                let ctx = share(ctx.with_signer(EphemeralSigner::new("verif.test")?));
                let mut b = Builder::from_shared_context(&ctx).with_definition(definition("c23", fmt).as_str())?;
                b.add_ingredient_from_stream(
                    serde_json::json!({"title": "ing", "relationship": "componentOf"}).to_string(),
                    ing_fmt,
                    &mut Cursor::new(ing.as_ref().clone()),
                )?;
                let mut out = Cursor::new(Vec::new());
                b.save_to_stream(fmt, &mut Cursor::new(src.as_ref().clone()), &mut out)?;
                Ok(format!("signed {}", out.into_inner().len()))
            }
        }
    }
}

fn err_class(e: &Error) -> String {
    let d = format!("{e:?}");
    d.chars().take_while(|c| c.is_ascii_alphanumeric()).collect()
}

fn wf_oracle(trace: &[(String, u32, u32)]) -> Option<String> {
    for (i, (p, s, t)) in trace.iter().enumerate() {
        if *s < 1 {
            return Some(format!("tick {i} {p}:{s}/{t}: step < 1"));
        }
        if *t != 0 && s > t {
            return Some(format!("tick {i} {p}:{s}/{t}: step exceeds non-zero total"));
        }
        if i > 0 {
            let (pp, ps, _) = &trace[i - 1];
            if pp == p && !(ps < s || *s == 1) {
                return Some(format!("tick {i} {p}:{s}/{t} after {pp}:{ps}: steps do not increase within a run of one phase"));
            }
        }
    }
    None
}

pub fn run(run: &mut Run, rng: &mut Rng) {
    run.rule = "operations = read of every freshly signed asset, sign of every writable container, ingredient import (signed JPEG/PNG into JPEG); for each, every callback index k of the recorded uncancelled trace is cancelled once (exhaustive in k), plus the pre-set cancel flag; thorough adds cancel() from another thread at random delays. non-trivial = a cancelled run whose k-th tick was reached; distinct by (operation, k)".to_string();
    let thorough = run.thorough();
    let max_src = if thorough { 2_600_000 } else { 450_000 };
    let mut ops: Vec<Op> = vec![];
    let mut first_signed: Vec<(String, Arc<Vec<u8>>)> = vec![];
    for (fmt, name) in unsigned_sources() {
        let src = match std::fs::read(fixtures().join(name)) {
            Ok(s) if s.len() <= max_src => Arc::new(s),
            _ => continue,
        };
        ops.push(Op::Sign { fmt: fmt.to_string(), src: src.clone() });
        match guarded(|| sign_asset(fmt, &src, Some(settings()))) {
            Ok(Ok(signed)) => {
                let signed = Arc::new(signed);
                if first_signed.len() < 2 {
                    first_signed.push((fmt.to_string(), signed.clone()));
                }
                ops.push(Op::Read { fmt: fmt.to_string(), asset: signed });
            }
            other => run.notes.push(format!("could not sign {name}: {:?}", other.map(|r| r.map(|v| v.len())))),
        }
    }
    // box-hash bound assets (c2pa.hash.boxes): a different verification path with its own ticks
    for (fmt, name) in [("image/jpeg", "IMG_0003.jpg"), ("image/png", "libpng-test.png"), ("image/gif", "sample1.gif")] {
        if let Ok(src) = std::fs::read(fixtures().join(name)) {
            if src.len() > max_src.max(800_000) {
                continue;
            }
            let st = r#"{"verify":{"remote_manifest_fetch":false,"ocsp_fetch":false},"core":{"prefer_compress_manifests":true}}"#;
            match guarded(|| sign_asset(fmt, &src, Some(st))) {
                Ok(Ok(signed)) => ops.push(Op::Read { fmt: fmt.to_string(), asset: Arc::new(signed) }),
                other => run.notes.push(format!("could not box-hash sign {name}: {:?}", other.map(|r| r.map(|v| v.len())))),
            }
        }
    }
    // fixtures that already carry manifests with ingredients
    for (fmt, name) in [("image/jpeg", "CACA.jpg"), ("image/jpeg", "C.jpg")] {
        if let Ok(d) = std::fs::read(fixtures().join(name)) {
            ops.push(Op::Read { fmt: fmt.to_string(), asset: Arc::new(d) });
        }
    }
    if let Ok(src) = std::fs::read(fixtures().join("IMG_0003.jpg")) {
        let src = Arc::new(src);
        for (ing_fmt, ing) in &first_signed {
            ops.push(Op::Ingredient { fmt: "image/jpeg".to_string(), src: src.clone(), ing_fmt: ing_fmt.clone(), ing: ing.clone() });
        }
    }

    for op in &ops {
        // uncancelled run: record the trace
        let trace: Trace = Default::default();
        let count = Arc::new(AtomicUsize::new(0));
        let base = guarded(std::panic::AssertUnwindSafe(|| ctx_with(None, trace.clone(), count.clone()).and_then(|c| op.exec(c))));
        let base = match base {
            Ok(Ok(s)) => s,
            other => {
                run.notes.push(format!("{}: uncancelled run failed: {:?}", op.name(), other.map(|r| r.map_err(|e| err_class(&e)))));
                continue;
            }
        };
        let t = trace.lock().unwrap().clone();
        let n = t.len();
        run.count(&format!("op_{}", op.name().split(':').next().unwrap_or("")));
        *run.dist.entry("ticks_total".to_string()).or_insert(0) += n as u64;
        for (p, _, _) in &t {
            run.count(&format!("phase_{p}"));
        }

        // progress trace well-formedness
        let tr = t.iter().map(|(p, s, tt)| format!("{p}:{s}:{tt}")).collect::<Vec<_>>().join(",");
        let wf = wf_oracle(&t);
        let idx = run.case(format!("C23 wf trace={}", if tr.is_empty() { "-".to_string() } else { tr }), if wf.is_none() { "wf".to_string() } else { "bad".to_string() });
        if let Some(d) = wf {
            run.fail(idx, "progress-trace-ill-formed", format!("{}: {d}", op.name()));
        }

        // cancel at every k
        for k in 0..n {
            let trace_k: Trace = Default::default();
            let count_k = Arc::new(AtomicUsize::new(0));
            let res = guarded(std::panic::AssertUnwindSafe(|| ctx_with(Some(k), trace_k.clone(), count_k.clone()).and_then(|c| op.exec(c))));
            let seen = count_k.load(Ordering::SeqCst);
            // The number of ticks of one operation is not a constant (e.g. the number of hashed
            // ranges depends on the parity of the freshly generated manifest's size), so a rerun
            // may finish before reaching invocation k; such a rerun is a finished, uncancelled run.
            let reached = seen > k;
            let (imp, bad): (String, Option<(String, String)>) = match res {
                Err(p) => (format!("panic {seen}"), Some(("panic".to_string(), format!("panic: {p}")))),
                Ok(Err(Error::OperationCancelled)) => (format!("cancelled {seen}"), None),
                Ok(Err(e)) => (
                    format!("err:{} {seen}", err_class(&e)),
                    Some(("cancel-reported-as-other-error".to_string(), format!("callback false at tick {k} ({:?}) gave error {} instead of OperationCancelled", t.get(k), err_class(&e)))),
                ),
                Ok(Ok(_)) if !reached => (format!("finished {seen}"), None),
                Ok(Ok(s)) => (
                    format!("finished {seen}"),
                    Some((format!("cancel-swallowed:{}", t.get(k).map(|x| x.0.clone()).unwrap_or_default()), format!("callback false at tick {k} ({:?}) but the operation returned Ok ({s}); uncancelled result {base}", t.get(k)))),
                ),
            };
            let req = format!("C23 cancel n={} k={k}", if reached { n.max(seen) } else { seen });
            if reached {
                run.nontrivial(format!("{} {k}", op.name()));
            }
            let idx = run.case(req, imp);
            if let Some((class, detail)) = bad {
                run.fail(idx, &class, format!("{}: {detail}", op.name()));
            } else if reached && seen != k + 1 {
                run.fail(idx, "callback-after-cancel", format!("{}: callback false at tick {k} but {seen} callbacks were observed", op.name()));
            }
        }

        // Context::cancel() called from inside the callback of invocation k
        for k in 0..n {
            let slot: Slot = Default::default();
            let count_k = Arc::new(AtomicUsize::new(0));
            let res = guarded(std::panic::AssertUnwindSafe(|| {
                ctx_cancelling_in_callback(k, slot.clone(), count_k.clone()).and_then(|c| op.exec_shared(c, Some(&slot)))
            }));
            *slot.lock().unwrap() = None; // break the Arc cycle
            let seen = count_k.load(Ordering::SeqCst);
            let reached = seen > k;
            let (imp, bad): (String, Option<(String, String)>) = match res {
                Err(p) => (format!("panic {seen}"), Some(("panic".to_string(), format!("panic: {p}")))),
                Ok(Err(Error::OperationCancelled)) => (format!("cancelled {seen}"), None),
                Ok(Err(e)) => (format!("err:{} {seen}", err_class(&e)), Some(("cancel-reported-as-other-error".to_string(), format!("Context::cancel() inside callback {k} ({:?}) gave error {}", t.get(k), err_class(&e))))),
                Ok(Ok(_)) if !reached => (format!("finished {seen}"), None),
                Ok(Ok(s)) => (format!("finished {seen}"), Some((format!("cancel-swallowed:{}", t.get(k).map(|x| x.0.clone()).unwrap_or_default()), format!("Context::cancel() called inside callback {k} ({:?}) but the operation returned Ok ({s})", t.get(k))))),
            };
            let req = format!("C23 cancelin n={} k={k}", if reached { n.max(seen) } else { seen });
            if reached {
                run.nontrivial(format!("{} in {k}", op.name()));
            }
            let idx = run.case(req, imp);
            if let Some((class, detail)) = bad {
                run.fail(idx, &class, format!("{}: {detail}", op.name()));
            } else if reached && seen != k + 1 {
                run.fail(idx, "callback-after-cancel", format!("{}: cancel() inside callback {k} but {seen} callbacks were observed", op.name()));
            }
        }

        // cancel flag set before the operation starts
        if n > 0 {
            let trace_f: Trace = Default::default();
            let count_f = Arc::new(AtomicUsize::new(0));
            let res = guarded(std::panic::AssertUnwindSafe(|| {
                ctx_with(None, trace_f.clone(), count_f.clone()).and_then(|c| {
                    c.cancel();
                    op.exec(c)
                })
            }));
            let seen = count_f.load(Ordering::SeqCst);
            let imp = match &res {
                Ok(Err(Error::OperationCancelled)) => format!("cancelled {seen}"),
                Ok(Err(e)) => format!("err:{} {seen}", err_class(e)),
                Ok(Ok(_)) => format!("ok {seen}"),
                Err(_) => format!("panic {seen}"),
            };
            let idx = run.case(format!("C23 flag n={n}"), imp);
            if !matches!(res, Ok(Err(Error::OperationCancelled))) {
                run.fail(idx, "cancel-flag-ignored", format!("{}: context cancelled before the operation, result {:?}", op.name(), res.map(|r| r.map_err(|e| err_class(&e)))));
            } else {
                run.nontrivial(format!("{} flag", op.name()));
            }
        }

        // cancel() from another thread at random delays: result is Ok(= uncancelled) or OperationCancelled
        if thorough {
            for _ in 0..6 {
                let delay_us = rng.below(4000);
                let trace_t: Trace = Default::default();
                let count_t = Arc::new(AtomicUsize::new(0));
                let ctx = match ctx_with(None, trace_t, count_t) {
                    Ok(c) => Arc::new(c),
                    Err(_) => continue,
                };
                let c2 = ctx.clone();
                let h = std::thread::spawn(move || {
                    std::thread::sleep(std::time::Duration::from_micros(delay_us));
                    c2.cancel();
                });
                let opc = op.clone();
                let res = guarded(std::panic::AssertUnwindSafe(|| match &opc {
                    Op::Read { fmt, asset } => Reader::from_shared_context(&ctx)
                        .with_stream(fmt, Cursor::new(asset.as_ref().clone()))
                        .map(|r| format!("{:?}", r.validation_state())),
                    _ => Err(Error::OperationCancelled),
                }));
                let _ = h.join();
                run.count("threaded_cancel");
                match res {
                    Ok(Ok(s)) if s == base => {}
                    Ok(Err(Error::OperationCancelled)) => {}
                    other => {
                        let idx = run.reqs.len().saturating_sub(1);
                        run.fail(idx, "threaded-cancel-misreported", format!("{}: cancel() after {delay_us}us gave {:?} (uncancelled: {base})", op.name(), other.map(|r| r.map_err(|e| err_class(&e)))));
                    }
                }
            }
        }
    }
}
